"""C18 - C API contract: truthful return codes, complete tagged logging, reusable instances."""
import json, os, sys
import vcommon as V
import vmcommon as VM
from vmcommon import N, B, S, Var, Arr, Code, Nul, Un, Bin, E, Asg, Loc, Prog

PID = "C18"
TY = {"s": 115, "a": 97, "p": 112, "1": 49}
FINDING_ASM = "assembly-front-end"
FINDING_EVAL = "eval-spawn-outlives-call"
# a script spawned inside __EVAL(...) while the text is preprocessed: it must not outlive the call (finding eval-spawn-outlives-call)
_EV = '__EVAL(0 spawn {leaked = 1; diag_log "LEAK"})'
EVAL_SPAWN = [   # (shape, type, text of the first call, its documented code, may the script still be pending when the call returns?)
    ("p", "p", ("a %s b" % _EV).encode(), 0, True),
    ("1", "1", ("%s; 1" % _EV).encode(), 0, True),
    ("parse-failure", "s", ("%s +* 1" % _EV).encode(), -3, True),
    ("s-control", "s", ("%s; 1" % _EV).encode(), 0, False),
]


def hx(b):
    return V.hx(b if isinstance(b, bytes) else b.encode("latin-1"))


# ---------------------------------------------------------------- texts with a class known by construction
PP_FAIL = [b"#bogus\n1", b"#ifdef X\n1", b"x = 1;\n#bogus", b"#ifndef Q\n#ifdef P\n2\n#endif\n"]
PARSE_FAIL = [b"1 +* 2", b"a = = 1", b"{", b"diag_log 1; )", b"\xc3\x28\xff", b"ga = [1, 2"]
ASM_OK = [b"", b"push 1", b"push 1 push true"]     # the assembly parser turns push into nothing: an empty instruction set
ASM_PARSE_FAIL = [b"push {"]
ASM_FINDING = [b'assignTo "x"', b"garbage", b"push (((", b"push 1 push 2 callBinary +", b"callNular nil"]
CFG_OK = [(b"class VerifA { x = 1; };", ["VerifA"]), (b"class VerifB {}; class VerifC { y = \"s\"; };", ["VerifB", "VerifC"]), (b"", [])]
CFG_PP_FAIL = [b"#bogus\nclass A {};", b"#ifdef X\nclass A {};"]
CFG_PARSE_FAIL = [b"class {", b"class A { x = ; };", b"= 5"]
MALFORMED_OPAQUE = [b'diag_log "x\x00y"', b'diag_log "\xc3\x28\xff"', b"1 \x00 2", b"\x00", b"diag_log 1\x00"]
ENDLESS = Prog(E(Bin("do", Un("while", Code(E(B(True)))), Code(E(Bin("do", Un("while", Code(E(B(True)))), Code()))))))


# ---------------------------------------------------------------- calls that run several scripts (spawn)
def _spawn(*stmts):
    return E(Bin("spawn", Arr(), Code(*stmts)))


_FAIL = Asg("bad", Bin("select", Arr(N(1), N(2)), N(7)))          # unrecovered runtime error in whichever script runs it
_SLEEPER = _spawn(E(Un("sleep", N(1))), Asg("late", N(1)))
_BUSY = _spawn(E(Bin("do", Bin("to", Bin("from", Un("for", S("_k")), N(1)), N(300)), Code(Asg("w", Var("_k"))))), Asg("late", N(2)))
_LONG = E(Bin("do", Bin("to", Bin("from", Un("for", S("_i")), N(1)), N(2000)), Code(Asg("z", Var("_i")))))
# (name, program, class): a script of the call fails without a handler -> the call must report -6, whichever scripts are
# beside it in the scheduler list and whenever they finish; the controls must report 0
MULTI = [
    ("sleeping-sibling-first", Prog(_SLEEPER, _spawn(_FAIL), E(N(0))), "err"),
    ("sleeping-sibling-last", Prog(_spawn(_FAIL), _SLEEPER, E(N(0))), "err"),
    ("long-running-caller", Prog(_spawn(_FAIL), _LONG, E(N(0))), "err"),
    ("busy-sibling-finishes-later", Prog(_spawn(_FAIL), _BUSY, E(N(0))), "err"),
    ("busy-sibling-first", Prog(_BUSY, _spawn(_FAIL), E(N(0))), "err"),
    ("failing-last-of-three", Prog(_SLEEPER, _BUSY, _spawn(E(Un("diag_log", N(7))), _FAIL, E(Un("diag_log", N(8)))), _LONG, E(N(0))), "err"),
    ("two-failing", Prog(_spawn(_FAIL), _spawn(E(Un("sleep", N(1))), _FAIL), E(N(0))), "err"),
    ("failing-after-sleep", Prog(_spawn(E(Un("sleep", N(1))), _FAIL), _BUSY, E(N(0))), "err"),
    ("caller-fails-siblings-alive", Prog(_SLEEPER, _BUSY, _FAIL, E(N(0))), "err"),
    ("plain-spawned-failure", Prog(_spawn(_FAIL), E(N(0))), "err"),
    ("control-siblings-only", Prog(_SLEEPER, _BUSY, _LONG, E(N(0))), "ok"),
    ("control-handled-in-spawn", Prog(_spawn(E(Bin("except__", Code(_FAIL), Code(Asg("h", N(1)))))), _SLEEPER, E(N(0))), "ok"),
]


# ---------------------------------------------------------------- calls whose script ends the run itself
# exit__ / exitcode__ N / halt / vmctrl__ "stop" / vmctrl__ "abort" are outside the VM model: the model runs a stand-in program with
# the same effect on the globals (everything up to the request), the call itself is judged by the contract (0, idle afterwards) and
# every later call of the history is compared with the model again (globals persist, nothing else does).
ENDERS = ["exit__", "exitcode__ 3", "halt", 'vmctrl__ "stop"', 'vmctrl__ "abort"']


def self_ending(rng):
    k = rng.randint(1, 9)
    e = rng.choice(ENDERS)
    stand_in = Prog(Asg("ga", N(k)))
    shape = rng.choice(["main", "main-nested", "spawned-sleeping-sibling", "spawned-last", "spawned-busy-caller"])
    if shape == "main":
        text = "ga = %d; %s; gb = 77; diag_log 78" % (k, e)
    elif shape == "main-nested":
        text = "ga = %d; call { if (true) then { %s; gb = 77 } }; diag_log 78" % (k, e)
    elif shape == "spawned-sleeping-sibling":
        text = "ga = %d; [] spawn { sleep 1; gb = 77 }; [] spawn { %s; gb = 76 }; 0" % (k, e)
    elif shape == "spawned-last":
        text = "ga = %d; [] spawn { sleep 2; gb = 77 }; [] spawn { sleep 1; %s }; [] spawn { sleep 3; gb = 75 }; 0" % (k, e)
    else:
        text = "ga = %d; [] spawn { %s }; for \"_i\" from 1 to 400 do { z = _i }; [] spawn { sleep 1; gb = 77 }; 0" % (k, e)
        stand_in = Prog(Asg("ga", N(k)), E(Bin("do", Bin("to", Bin("from", Un("for", S("_i")), N(1)), N(150)), Code(Asg("z", Var("_i"))))))
        stand_in = None      # how far the caller gets before the request is seen is a matter of slices: no stand-in, the history is cut here
    return shape + ":" + e, text.encode(), stand_in


def gen_prog(g, rng, kind):
    """program tokens of the wanted kind: ok | err | set | get"""
    if kind == "set":
        return Prog(Asg(rng.choice(["ga", "gb", "Gc"]), N(rng.randint(1, 9))), E(Un("diag_log", Var("ga"))))
    if kind == "get":
        return Prog(E(Un("diag_log", Arr(Var("ga"), Var("gb")))), E(Bin("+", Var("ga"), N(1))))
    if kind == "err":
        r = rng.random()
        if r < 0.6:
            return Prog(E(Un("diag_log", N(1))), E(Bin("select", Arr(N(1)), N(5))), E(Un("diag_log", N(2))))
        return Prog(Asg("ga", N(3)), E(Bin("count", Code(E(N(5))), Arr(N(1), N(2)))), Asg("ga", N(4)))
    if kind == "faulty":
        return Prog(g.mark(), g.faulty_stmt(1), g.mark())
    if kind == "safe":
        return Prog(Loc("_a", N(rng.randint(0, 5))), E(Un("diag_log", Bin("+", Var("_a"), N(1)))), E(Arr(Var("_a"), B(True), S("x y"))))
    return g.program(depth=2, length=3)


class Hist:
    def __init__(self):
        self.ops = []       # dicts

    def add(self, **kw):
        self.ops.append(kw)


# ---------------------------------------------------------------- the SAME text called again on one instance
# Every call is judged on its own: it preprocesses, parses and executes its text NOW (value from the current globals / counters),
# and every diagnostic of the preprocessor and the parser reaches the callback again with the call data of this call.
# Implementation-only oracle (the model's front ends are stateless): the expected log lines are known by construction, and a
# repetition with unchanged inputs must give the records of the first call again (apart from the call data).
def repeat_histories(rng, thorough):
    out = []

    def K(h, cd, text, expect=None, same_as=None, cls="expect"):
        o = dict(op="K", h="0", cd=cd, ty="s", text=text.encode(), cls=cls)
        if expect is not None:
            o["expect"] = expect
        if same_as is not None:
            o["same_as"] = same_as
        h.add(**o)
        return len(h.ops) - 1
    for rep in range(6 if thorough else 2):
        a, b, c = rng.sample(range(2, 90), 3)
        # __EVAL reads a global that other calls change in between
        h = Hist(); h.add(op="C", user=4, mr=0)
        t = "diag_log __EVAL(ga)"
        K(h, 61, "ga = %d" % a, expect=[]); K(h, 62, t, expect=[str(a)]); K(h, 63, "ga = %d" % b, expect=[])
        K(h, 64, t, expect=[str(b)]); K(h, 65, t, expect=[str(b)]); K(h, 66, "ga = %d; gb = 1" % c, expect=[]); K(h, 67, t, expect=[str(c)])
        h.add(op="S", h="0"); h.add(op="D", h="0"); out.append(("repeat:eval-global", h))
        # __EVAL / __EXEC of an expression over two globals, text with other statements around it
        h = Hist(); h.add(op="C", user=4, mr=0)
        t = "private _v = __EVAL(ga + gb); diag_log [_v, ga]"
        K(h, 61, "ga = %d; gb = %d" % (a, b), expect=[]); K(h, 62, t, expect=["[%d %d]" % (a + b, a)])
        K(h, 63, "gb = %d" % c, expect=[]); K(h, 64, t, expect=["[%d %d]" % (a + c, a)]); K(h, 65, t, expect=["[%d %d]" % (a + c, a)])
        h.add(op="D", h="0"); out.append(("repeat:eval-expression", h))
        # __COUNTER__ counts on from call to call of the instance
        h = Hist(); h.add(op="C", user=4, mr=0)
        t = "diag_log __COUNTER__"
        K(h, 61, t, expect=["0"]); K(h, 62, "ga = 1", expect=[]); K(h, 63, t, expect=["1"]); K(h, 64, t, expect=["2"])
        K(h, 65, "diag_log [__COUNTER__, __COUNTER__]", expect=["[3 4]"]); K(h, 66, t, expect=["5"])
        h.add(op="D", h="0"); out.append(("repeat:counter", h))
        # non-fatal diagnostics of the preprocessor (macro defined twice) and of the run (undefined variable): delivered on every call
        h = Hist(); h.add(op="C", user=4, mr=0)
        t = "#define VERIF_A 1\n#define VERIF_A 2\ndiag_log VERIF_A"
        i0 = K(h, 61, t, expect=["2"], cls="warns"); K(h, 62, "ga = %d" % a, expect=[])
        K(h, 63, t, expect=["2"], same_as=i0, cls="warns"); K(h, 64, t, expect=["2"], same_as=i0, cls="warns")
        t2 = "#define VERIF_B 1\n#define VERIF_B 1\ndiag_log [undefined_verif_var]; 7"
        i1 = K(h, 65, t2, cls="warns"); K(h, 66, t2, same_as=i1, cls="warns")
        h.add(op="S", h="0"); h.add(op="D", h="0"); out.append(("repeat:warnings", h))
    return out


# ---------------------------------------------------------------- __EVAL / __EXEC that fails in a text that is not executed afterwards
# The expression runs while the text is preprocessed; when it fails (runtime error, exit request, time limit) and the call then
# executes nothing (load_config, type 'p', type '1', a text that does not parse), the instance must still be idle afterwards.
EVAL_FAIL = ['1 + "a"', "[1] select 4", "exit__", "exitcode__ 2", "halt", "call { [] select 1 }", 'for "_i" from 1 to 1000000 do { zz = _i }']
EVAL_OK = ["1 + 2", "count [1, 2]"]


def evalfail_histories(rng, thorough):
    out = []
    shapes = [("L", "L", 'class VerifE%d { x = %s; y = 2; };'), ("p", "p", "a%d %s b"), ("1", "1", "w%d = 1; %s; 1"), ("s-parse-failure", "s", "w%d = %s +* 1")]
    exprs = [(e, False) for e in EVAL_FAIL] + [(e, True) for e in EVAL_OK]
    n = 0
    for macro in ("__EVAL", "__EXEC"):
        for e, ok in exprs:
            if macro == "__EXEC" and not thorough and e not in ('1 + "a"', "exit__", "1 + 2"):
                continue
            limited = e.startswith("for ")
            for shape, ty_, tmpl in shapes:
                # one history per shape, so that each is judged whatever the others do
                n += 1
                g = rng.randint(2, 99)
                h = Hist(); h.add(op="C", user=3, mr=250 if limited else 0)
                h.add(op="K", h="0", cd=70, ty="s", text=("ga = %d" % g).encode(), cls="expect", expect=[])
                text = (tmpl % (n, "%s(%s)" % (macro, e))).encode()
                if ty_ == "L":
                    h.add(op="L", h="0", text=text, cls="evalfail", classes=[], shape=shape, expr=e, succeeds=ok)
                else:
                    h.add(op="K", h="0", cd=72, ty=ty_, text=text, cls="evalfail", shape=shape, expr=e, succeeds=ok)
                if rng.random() < 0.7:
                    h.add(op="S", h="0")
                h.add(op="K", h="0", cd=73, ty="s", text=b"diag_log [ga]; ga = ga + 1", cls="expect", expect=["[%d]" % g])
                h.add(op="K", h="0", cd=74, ty=rng.choice(["s", "p", "1"]), text=b"diag_log [ga]", cls="expect", expect=None)
                h.ops[-1].pop("expect")
                h.add(op="S", h="0"); h.add(op="D", h="0")
                out.append(("evalfail:%s:%s(%s)" % (shape, macro, e), h))
    return out


# ---------------------------------------------------------------- calls whose scripts are terminated (terminate <script>)
# (name, [texts of the triggering call(s)], what the LAST of them logs (None: not fixed by the property))  Every way a script of a call can
# be terminated: by itself before it yields (sleep, waitUntil, a loop longer than a slice), by itself as its last statement, inside a
# nested call, by a sibling, by the main script, while sleeping / while busy, as the last script alive and with others alive, and through
# a handle kept in a global by the NEXT call.  The contract is the same for all: the call returns 0, the instance is idle, the next
# call runs and delivers its value and diagnostics under its own call data.
_BUSYLOOP = 'for "_i" from 1 to 1000 do { zz = _i }'
TERMINATE = [
    ("self-before-sleep-last-alive", ['[] spawn { diag_log "a"; terminate _thisScript; sleep 0.01; diag_log "b" }; 1'], ["a"]),
    ("self-first-thing-before-sleep", ['[] spawn { terminate _thisScript; sleep 0.01 }; 1'], []),
    ("self-before-sleep-others-alive", ['[] spawn { sleep 0.05; diag_log "c" }; [] spawn { diag_log "a"; terminate _thisScript; sleep 0.01; diag_log "b" }; 1'], ["a", "c"]),
    ("self-before-sleep-after-others-ended", ['[] spawn { diag_log "c" }; [] spawn { sleep 0.02; diag_log "a"; terminate _thisScript; sleep 0.01; diag_log "b" }; 1'], ["c", "a"]),
    ("self-as-last-statement", ['[] spawn { diag_log "a"; terminate _thisScript }; 1'], ["a"]),
    ("self-before-waituntil", ['[] spawn { diag_log "a"; terminate _thisScript; waitUntil { false }; diag_log "b" }; 1'], None),   # (waitUntil ends on any boolean in this tree)
    ("self-before-long-loop", ['[] spawn { terminate _thisScript; %s; diag_log "b" }; 1' % _BUSYLOOP], []),
    ("self-inside-nested-call", ['[] spawn { call { terminate _thisScript }; sleep 0.01; diag_log "b" }; 1'], []),
    ("self-after-a-sleep-then-sleep", ['[] spawn { sleep 0.01; diag_log "a"; terminate _thisScript; sleep 0.01; diag_log "b" }; 1'], ["a"]),
    ("two-self-terminating", ['[] spawn { terminate _thisScript; sleep 0.01 }; [] spawn { terminate _thisScript; sleep 0.02 }; 1'], []),
    ("self-terminating-and-main-long", ['[] spawn { terminate _thisScript; sleep 0.01; diag_log "b" }; %s; 1' % _BUSYLOOP], []),
    ("by-sibling-while-sleeping", ['gh = [] spawn { sleep 0.05; diag_log "b" }; [] spawn { terminate gh; diag_log "k" }; 1'], ["k"]),
    ("by-later-sibling-after-sleep", ['gh = [] spawn { sleep 0.2; diag_log "b" }; [] spawn { sleep 0.02; terminate gh; diag_log "k" }; 1'], ["k"]),
    ("by-main-while-sleeping", ['gh = [] spawn { sleep 0.02; diag_log "b" }; terminate gh; diag_log "m"; 1'], ["m"]),
    ("by-main-before-it-ran", ['gh = [] spawn { diag_log "b"; %s; diag_log "c" }; terminate gh; diag_log "m"; 1' % _BUSYLOOP], None),
    ("victim-terminates-killer-too", ['gh = [] spawn { sleep 0.01; terminate gk; diag_log "v" }; gk = [] spawn { sleep 0.05; terminate gh; diag_log "k" }; 1'], ["v"]),
    ("by-next-call-finished-script", ['gh = [] spawn { sleep 0.01; diag_log "b" }; 1', 'terminate gh; diag_log [scriptDone gh]; 2'], ["[true]"]),
    ("by-next-call-then-self", ['gh = [] spawn { diag_log "b" }; 1', 'terminate gh; [] spawn { terminate _thisScript; sleep 0.01; diag_log "n" }; diag_log "m"; 2'], ["m"]),
    ("control-sleeping-script-runs-out", ['[] spawn { diag_log "a"; sleep 0.01; diag_log "b" }; 1'], ["a", "b"]),
]


def terminate_histories(rng):
    out = []
    for nm, trig, logs in TERMINATE:
        g = rng.randint(2, 99)
        h = Hist(); h.add(op="C", user=7, mr=0)
        h.add(op="K", h="0", cd=80, ty="s", text=("ga = %d" % g).encode(), cls="expect", expect=[])
        for j, t in enumerate(trig):
            o = dict(op="K", h="0", cd=81 + j, ty="s", text=t.encode(), cls="expect", terminate=nm)
            if j == len(trig) - 1 and logs is not None:
                o["expect"] = logs
            elif j < len(trig) - 1:
                o.pop("terminate")
            h.add(**o)
            if j < len(trig) - 1 or rng.random() < 0.6:
                h.add(op="S", h="0")           # otherwise the next call is the first thing to meet the instance
        h.add(op="K", h="0", cd=85, ty="s", text=b"diag_log [ga]; ga = ga + 1; ga + 1", cls="expect", expect=["[%d]" % g], value=str(g + 2))
        h.add(op="S", h="0")
        h.add(op="K", h="0", cd=86, ty="s", text=b"diag_log [ga]; ga", cls="expect", expect=["[%d]" % (g + 1)], value=str(g + 1))
        h.add(op="S", h="0"); h.add(op="D", h="0")
        out.append(("terminate:" + nm, h))
    return out


# ---------------------------------------------------------------- many instances alive at once, destroyed in every order
# The property quantifies over histories "on one or several instances"; the random histories have one or two.  Here 1..8 (thorough: ..12)
# instances live in the process at the same time, each with its own user data, its own global and (every other one) its own config class.
# They are destroyed one by one in a systematic set of orders - every permutation up to four instances; beyond that: creation order, reverse
# order, each single instance first, inside-out, random permutations - and after EVERY destroy every survivor is used: sqfvm_status (0), a call
# that logs and increments its global (0, the value that instance had, under the user data of that instance and the call data of that
# call), now and then an isClass probe of its own and of a neighbour's config class, a load_config, an invalid handle (-1).  Variants create
# further instances after a destroy (the allocator hands the freed block out again) and keep some instances alive to the end of the process.
# Oracle: the documented contract (codes by class, status 0, user / call data of every record) and ApiDefs.step - the Coq model keeps the
# instances in a list of any length, so every return code and every record of these histories is compared with the extracted model.
def _perms(n):
    import itertools
    return [list(p) for p in itertools.permutations(range(n))]


def fleet_orders(rng, n, thorough):
    """destroy orders for n instances: (name, order); an order may leave instances alive"""
    if n <= (5 if thorough else 4):
        return [("perm", p) for p in _perms(n)]
    asc = list(range(n))
    out = [("creation-order", asc), ("reverse-order", asc[::-1])]
    for j in range(n):
        out.append(("first-%d-then-rest" % j, [j] + [x for x in asc if x != j]))
        if thorough:
            out.append(("first-%d-then-reverse" % j, [j] + [x for x in asc[::-1] if x != j]))
    mid = sorted(asc, key=lambda x: (abs(2 * x - (n - 1)), x))
    out += [("inside-out", mid), ("outside-in", mid[::-1])]
    for _ in range(6 if thorough else 2):
        p = asc[:]; rng.shuffle(p); out.append(("random", p))
    return out


def fleet_history(rng, n, order, variant):
    """n instances created up front (variant 'staggered': the second half is created after the first destroy), globals set, then the destroys of
    `order`, each followed by a sweep over every survivor.  variant 'recreate': a new instance is created after every second destroy.
    variant 'keep': the last two of the order stay alive (the process ends with live instances)."""
    h = Hist()
    user = {}
    glob = {}
    cfg = {}
    live = []
    cd = [100]

    def create():
        i = len(user)
        user[i] = 11 + 7 * i
        h.add(op="C", user=user[i], mr=0)
        glob[i] = 100 + 10 * i
        cd[0] += 1
        h.add(op="K", h=str(i), cd=cd[0], ty="s", prog=Prog(Asg("ga", N(glob[i])), E(Un("diag_log", Arr(Var("ga"))))), cls="ok")
        if i % 2 == 1:
            cfg[i] = "VerifF%d" % i
            h.add(op="L", h=str(i), text=("class %s { x = %d; };" % (cfg[i], i)).encode(), cls="ok", classes=[cfg[i]])
        live.append(i)
        return i

    def sweep():
        ids = live[:]
        if rng.random() < 0.5:
            ids.reverse()
        for i in ids:
            h.add(op="S", h=str(i))
            cd[0] += 1
            h.add(op="K", h=str(i), cd=cd[0], ty="s", prog=Prog(E(Un("diag_log", Arr(Var("ga")))), Asg("ga", Bin("+", Var("ga"), N(1)))), cls="ok")
            r = rng.random()
            if r < 0.25:
                cd[0] += 1
                names = [cfg[i]] if i in cfg else []
                names += [c for j, c in cfg.items() if j != i][:1] + ["Missing"]
                h.add(op="P", h=str(i), cd=cd[0], name=rng.choice(names))
            elif r < 0.35:
                t, cl = rng.choice(CFG_OK[:2]); h.add(op="L", h=str(i), text=t, cls="ok", classes=cl)
            elif r < 0.45:
                h.add(op="S", h=rng.choice(["N", "B", "X"]))
            elif r < 0.55:
                cd[0] += 1
                h.add(op="K", h=str(i), cd=cd[0], ty=rng.choice(["p", "1", "x"]), text=b"ga", cls="ok")
            elif r < 0.62:
                cd[0] += 1
                h.add(op="K", h=str(i), cd=cd[0], ty="s", text=rng.choice(PARSE_FAIL[:4]), cls="parsefail")

    first = n if variant != "staggered" else max(1, n // 2)
    for _ in range(first):
        create()
    todo = list(order)
    if variant == "keep":
        todo = todo[:-2] if len(todo) > 2 else todo[:1]
    ndestroyed = 0
    pending = n - first
    while todo:
        j = todo[0]
        if j not in live:
            # staggered: the instance is not created yet
            create(); pending -= 1
            continue
        todo.pop(0)
        h.add(op="D", h=str(j)); live.remove(j); ndestroyed += 1
        sweep()
        if pending > 0:
            create(); pending -= 1
            sweep()
        elif variant == "recreate" and ndestroyed % 2 == 1 and len(user) < n + 4:
            k = create()
            todo.insert(rng.randint(0, len(todo)), k)
            sweep()
    return h


def fleet_histories(rng, thorough):
    out = []
    sizes = list(range(1, 13)) if thorough else [1, 2, 3, 4, 5, 6, 8]
    for n in sizes:
        for nm, order in fleet_orders(rng, n, thorough):
            out.append(("fleet:%d:%s:%s" % (n, nm, "".join("%x" % x for x in order)), fleet_history(rng, n, order, "plain")))
    for n in ([2, 3, 4, 5, 6, 7, 9] if thorough else [3, 4, 6, 7]):
        for variant in ("recreate", "staggered", "keep"):
            orders = fleet_orders(rng, n, thorough)
            keepn = len(orders) if (thorough or n <= 3) else 5
            if len(orders) > keepn:
                orders = rng.sample(orders, keepn)
            for nm, order in orders:
                out.append(("fleet-%s:%d:%s:%s" % (variant, n, nm, "".join("%x" % x for x in order)), fleet_history(rng, n, order, variant)))
    return out


# ---------------------------------------------------------------- API calls made from inside the log callback
def reentrant_family(run, rng, hapi, bdir, thorough, only=None):
    """Implementation only.  A host may call the API from its log callback.  While a call of an instance runs, a nested sqfvm_call on the SAME
    instance answers -4 (documented: already running) and delivers nothing; sqfvm_status, sqfvm_load_config and calls on ANOTHER instance do
    their work.  Whatever the nested call is and wherever it comes - at the first, a middle or the last record of the outer call - every record
    of the outer call keeps the user data of its instance and the call data of THAT call, in order, the outer call returns its code, the
    instance is idle afterwards and the next call delivers its value."""
    hx = V.hx
    def K(h, cd, text, ty="s"):
        return "K%s:%d:%s:%s:-" % (h, cd, hx(ty), hx(text))
    cases = []
    outers = [('diag_log "a"; diag_log "b"; diag_log "c"; 7', ["a", "b", "c", "VALUE 7"], 0),
              ('diag_log "a"; [] spawn { diag_log "s" }; diag_log "b"; 8', None, 0),
              ('diag_log "a"; diag_log "b"; [1] select 5; diag_log "c"', None, -6),
              ('diag_log "a"; diag_log __EVAL(1 + 1); 9', ["a", "2", "VALUE 9"], 0)]
    nested = [("call-same", lambda: K("0", 22, 'diag_log "n"; 1'), -4),
              ("call-same-pponly", lambda: K("0", 22, "x", "p"), -4),
              ("call-same-failing", lambda: K("0", 22, "1 +"), -4),
              ("status-same", lambda: "S0", None),
              ("load-same", lambda: "L0:%s:-" % hx("class A { x = %d; };" % rng.randint(1, 9)), 0),
              ("load-same-failing", lambda: "L0:%s:-" % hx("class A { x = ; };"), -3),
              ("call-other", lambda: K("1", 33, 'diag_log "n"; 1'), 0),
              ("load-other", lambda: "L1:%s:-" % hx("class B { y = 2; };"), 0)]
    for oi, (otext, omarks, ocode) in enumerate(outers):
        for nname, nop, nret in nested:
            ks = [0, 1, 2, 3] if thorough else [rng.choice([0, 1]), rng.choice([2, 3])]
            for k in ks:
                cd = rng.randint(40, 90)
                ops = ["C5:0", "C6:0", "W%d~%s" % (k, nop()), K("0", cd, otext), "S0", K("0", cd + 1, "diag_log 1; 2"), "S0", "S1", "D0", "D1"]
                cases.append(({"kind": "reentrant:" + nname, "outer": otext, "nested_at_record": k, "call_data": cd, "ops": ops, "expected_nested_return": nret,
                               "expected_outer_return": ocode}, omarks))
    if only is not None:
        cases = [(only, None)]
    rc, out, _ = V.run_lines_parallel([hapi, "api", bdir], ["0\t" + "\t".join(c["ops"]) for c, _ in cases], timeout=3000)
    n = 0
    for (c, omarks), line in zip(cases, out):
        n += 1
        rep = dict(c, impl=line[:1500])
        parts = line.split("|")
        if len(parts) != len(c["ops"]):
            run.violation("an API call made from inside the log callback crashed the host or did not return: " + line[:160], rep); continue
        ret, recs = parts[3].split("{", 1)
        recs = [r for r in recs.rstrip("}").split(",") if r]
        cd = c["call_data"]
        nest = [r for r in recs if r.startswith("NEST=")]
        outer = [r for r in recs if r.startswith("5:")]
        if c["kind"].startswith("reentrant:load-same") and nest:
            # the nested sqfvm_load_config has no call data: its own diagnostics (directly in front of its return) carry NULL
            i = recs.index(nest[0])
            own = []
            while i - 1 - len(own) >= 0 and recs[i - 1 - len(own)].startswith("5:0:"):
                own.append(i - 1 - len(own))
            outer = [r for j_, r in enumerate(recs) if r.startswith("5:") and j_ not in own]
        why = None
        if int(ret) != c["expected_outer_return"]:
            why = "the outer call returned %s, its text alone returns %d" % (ret, c["expected_outer_return"])
        elif any(not r.startswith("5:%d:" % cd) for r in outer):
            why = "a record of the outer call arrived with other call data than that of its call (%d): %s" % (cd, [r for r in outer if not r.startswith("5:%d:" % cd)][:3])
        elif nest and c["expected_nested_return"] is not None and nest[0] != "NEST=%d" % c["expected_nested_return"]:
            why = "the nested call returned %s, documented: %d" % (nest[0][5:], c["expected_nested_return"])
        elif c["kind"].startswith("reentrant:call-same") and any(r.startswith("5:22:") for r in recs):
            why = "a nested call on the running instance (answer -4) delivered records"
        elif omarks is not None and [r.split(":M<", 1)[1][:-1] for r in outer if ":M<" in r] != omarks:
            why = "the outer call's markers are %s, its text alone logs %s" % ([r.split(":M<", 1)[1][:-1] for r in outer if ":M<" in r], omarks)
        elif parts[4] != "0{}" or parts[6] != "0{}":
            why = "the instance is not idle after the call (sqfvm_status %s / %s)" % (parts[4], parts[6])
        elif not parts[5].startswith("0{") or ("5:%d:3:M<VALUE 2>" % (cd + 1)) not in parts[5]:
            why = "the next call did not run and deliver its value under its own call data: " + parts[5][:120]
        if why:
            run.violation("C API contract broken around a call made from inside the log callback (%s at record %d of the outer call): %s" % (c["kind"][10:], c["nested_at_record"], why), rep)
    return n


# ---------------------------------------------------------------- ... at a record that arrives BEFORE anything executes
FINDING_NESTED_PRE = "nested-call-before-execution"
# (type of the sqfvm_call or L = sqfvm_load_config, text, what its front end reports): every text makes the preprocessor and / or the parser deliver
# at least one record before execution starts (or although nothing is executed at all); while they work the runtime state is still `empty`
PRE_OUTERS = [
    ("s", '#define VERIF_A 1\n#define VERIF_A 2\ndiag_log "a"; diag_log VERIF_A; 7', "preprocessor warning (macro defined twice), then a run"),
    ("s", '#define VERIF_A 1\n#define VERIF_A 2\n#undef VERIF_NOPE\n#pragma verif_x\ndiag_log "a"; 7', "three preprocessor warnings, then a run"),
    ("s", '#define VERIF_F(a) a\ndiag_log "a"; VERIF_F(); 7', "preprocessor warning from inside a macro call (empty argument)"),
    ("s", 'diag_log "a"; 99999999999999999999999999999999999999999999999; 7', "parser warning (number out of range), then a run"),
    ("s", '#define VERIF_A 1\n#define VERIF_A 2\ndiag_log "a"; 0xFFFFFFFFFFFFFFFFFFFFFF; [1] select 5; diag_log "c"', "preprocessor warning, parser warning, then a run that fails (-6)"),
    ("s", '#define VERIF_A 1\n#define VERIF_A 2\n#bogus\n1', "warning, then the error that makes preprocessing fail (-2)"),
    ("s", '#include "verif_nope.sqf"\ndiag_log "a"; 7', "trace records of the file lookup, then the error of the failed #include (-2)"),
    ("s", '#define VERIF_A 1\n#define VERIF_A 2\ndiag_log 1; ) +* (', "preprocessor warning, then the parse error (-3)"),
    ("p", '#define VERIF_A 1\n#define VERIF_A 2\nx VERIF_A y', "warning, then the RESULT record of a preprocess-only call"),
    ("1", '#define VERIF_A 1\n#define VERIF_A 2\ndiag_log VERIF_A', "warning of a parse-only call"),
    ("1", 'diag_log 1; )', "parse error of a parse-only call (-3)"),
    ("x", '#define VERIF_A 1\n#define VERIF_A 2\n1', "warning, then unknown type (-5)"),
    ("a", '#define VERIF_A 1\n#define VERIF_A 2\n', "warning, then the assembly front end on an empty text"),
    ("L", '#define VERIF_A 1\n#define VERIF_A 2\nclass VerifQ { x = VERIF_A; };', "load_config: preprocessor warning"),
    ("L", '#define VERIF_A 1\n#define VERIF_A 2\nclass VerifQ { x = ; };', "load_config: warning, then the parse error (-3)"),
    ("L", '#bogus\nclass VerifQ {};', "load_config: preprocessing fails (-2)"),
]


def reentrant_pre_family(run, rng, hapi, bdir, thorough, only=None):
    """Implementation only, same observation as reentrant_family (harness op W).  The nested API call is issued at a record the FRONT END of the outer
    call delivers: a preprocessor warning / error / trace record, a parser warning / error, the RESULT record of a preprocess-only call - every record
    index of the outer call up to and including the first one that belongs to the run.  From the property: every record of the outer call (those before
    and those after the nested call) carries the call data of the outer call (NULL for sqfvm_load_config) and, call data aside, the outer call delivers
    exactly what it delivers with no nested call; it returns the code its text alone returns (metamorphic: the same history without the nested call);
    the instance is idle afterwards and the next call delivers its value.  The nested sqfvm_call on the instance whose call is in progress is either
    refused (-4, nothing delivered) or, if it is let in while nothing executes yet, a complete call of its own: documented code, all of its records
    between the record that triggered it and its return, under its own call data - never a mixture; at a record of the run it is refused (-4).
    sqfvm_load_config and calls on another instance do their work under their own tags."""
    hx = V.hx
    def K(h, cd, text, ty="s"):
        return "K%s:%d:%s:%s:-" % (h, cd, hx(ty), hx(text))
    def OUT(ty, text, cd):
        return ("L0:%s:-" % hx(text)) if ty == "L" else K("0", cd, text, ty)
    nested = [("call-same", lambda: K("0", 22, 'diag_log "n"; 1'), 0, ["M<n>", "M<VALUE 1>"]),
              ("call-same-pponly", lambda: K("0", 22, "x", "p"), 0, None),
              ("call-same-warning", lambda: K("0", 22, '#define VERIF_N 1\n#define VERIF_N 2\ndiag_log "n"; 1'), 0, ["M<n>", "M<VALUE 1>"]),
              ("call-same-failing", lambda: K("0", 22, "1 +"), -3, None),
              ("status-same", lambda: "S0", None, None),
              ("load-same", lambda: "L0:%s:-" % hx("class A { x = %d; };" % rng.randint(1, 9)), 0, None),
              ("load-same-failing", lambda: "L0:%s:-" % hx("class A { x = ; };"), -3, None),
              ("call-other", lambda: K("1", 33, 'diag_log "n"; 1'), 0, ["M<n>", "M<VALUE 1>"]),
              ("load-other", lambda: "L1:%s:-" % hx("class B { y = 2; };"), 0, None)]
    ndict = {n[0]: n for n in nested}
    tail = lambda cd: ["S0", K("0", cd + 1, "diag_log 1; 2"), "S0", "S1", "D0", "D1"]
    strip = lambda r: ":".join(r.split(":", 2)[0:1] + r.split(":", 2)[2:3])
    if only is not None:
        outers = [(only["outer_type"], only["outer"], "")]
    else:
        outers = PRE_OUTERS
    # 1. what the front end of each outer text delivers (implementation's own front end) and what the call delivers with no nested call
    rc, pr, _ = V.run_lines_parallel([hapi, "probe"], ["%s\t%s" % (hx(t), hx(x)) for t, x, _ in outers], timeout=3000)
    rc, base, _ = V.run_lines_parallel([hapi, "api", bdir], ["0\t" + "\t".join(["C5:0", "C6:0", OUT(t, x, 41)] + tail(41)) for t, x, _ in outers], timeout=3000)
    cases = []
    for (ty, text, what), p, b in zip(outers, pr, base):
        rep0 = {"kind": "reentrant-pre:baseline", "outer_type": ty, "outer": text, "probe": p[:200], "impl": b[:1500]}
        f = p.split(" ")
        cnt = lambda d: 0 if d in ("-", "") else len(d.split(","))
        if f[0] == "PPFAIL":
            npre, code = cnt(f[1]), -2
        elif f[0] == "PARSEFAIL":
            npre, code = cnt(f[1]) + cnt(f[2]), -3
        elif f[0] == "OK":
            npre, code = cnt(f[1]) + cnt(f[2]) + (1 if ty == "p" else 0), None
        else:
            run.violation("generator: the implementation's own front end did not survive an outer text of the callback family: " + p[:100] + " (machinery)",
                          dict(rep0, broken="PRE_OUTERS of checks/C18.py"), found_input=False); continue
        bp = b.split("|")
        if len(bp) != 9 or "{" not in bp[2]:
            run.violation("an API call crashed or did not return (text with front-end diagnostics, no nested call): " + b[:160], rep0); continue
        bret, brecs = bp[2].split("{", 1)
        brecs = [r for r in brecs.rstrip("}").split(",") if r]
        if code is None:
            code = {"x": -5}.get(ty, -6 if "select 5" in text else 0)
        if int(bret) != code or len(brecs) < npre or npre < 1:
            run.violation("%s returned %s with %d records for a text whose front end reports %s (documented code %d, at least %d records)" % (
                "sqfvm_load_config" if ty == "L" else "sqfvm_call", bret, len(brecs), f[0], code, npre), rep0); continue
        if only is not None:
            ks = [only.get("nested_at_record", 0)]
        elif thorough:
            ks = list(range(min(npre + 1, len(brecs))))
        else:
            ks = sorted({0, npre - 1, rng.randrange(npre), min(npre, len(brecs) - 1)})
        for nname, nop, nret, nmarks in (nested if only is None else [ndict[x] for x in [only["kind"].split(":", 1)[1]] if x in ndict]):
            for k in ks:
                cd = rng.randint(40, 90)
                ops = ["C5:0", "C6:0", "W%d~%s" % (k, nop()), OUT(ty, text, cd)] + tail(cd)
                cases.append({"kind": "reentrant-pre:" + nname, "outer_type": ty, "outer": text, "outer_reports": what, "nested_at_record": k,
                              "records_before_execution": npre, "call_data": cd, "ops": ops, "expected_outer_return": code,
                              "outer_records_without_nested_call": brecs})
    rc, out, _ = V.run_lines_parallel([hapi, "api", bdir], ["0\t" + "\t".join(c["ops"]) for c in cases], timeout=3000)
    n, let_in, refused = 0, 0, 0
    for c, line in zip(cases, out):
        n += 1
        rep = dict(c, impl=line[:2000])
        nname = c["kind"].split(":", 1)[1]
        _, _, nret, nmarks = ndict[nname]
        k, cd, ty = c["nested_at_record"], c["call_data"], c["outer_type"]
        ocd = 0 if ty == "L" else cd
        pre_exec = k < c["records_before_execution"]
        parts = line.split("|")
        if len(parts) != len(c["ops"]) or "{" not in parts[3]:
            run.violation("an API call made from inside the log callback while the outer call preprocesses / parses crashed the host or did not return: " + line[:160], rep); continue
        ret, recs = parts[3].split("{", 1)
        recs = [r for r in recs.rstrip("}").split(",") if r]
        ni = [j for j, r in enumerate(recs) if r.startswith("NEST=")]
        why, tagging = None, None
        if len(ni) != 1 or ni[0] < k + 1:
            why = "the outer call did not deliver its record %d the way it does without a nested call (records: %s)" % (k, recs[:8])
        else:
            own, nest = recs[k + 1:ni[0]], recs[ni[0]]
            outer = recs[:k + 1] + recs[ni[0] + 1:]
            nr = int(nest[5:])
            base_ = c["outer_records_without_nested_call"]
            if int(ret) != c["expected_outer_return"]:
                why = "the outer call returned %s, its text alone returns %d" % (ret, c["expected_outer_return"])
            elif [strip(r) for r in outer] != [strip(r) for r in base_]:
                why = "call data aside, the outer call delivered %s; with no nested call it delivers %s" % ([strip(r) for r in outer][:8], [strip(r) for r in base_][:8])
            elif nname.startswith("call-same"):
                if nr == -4:
                    refused += 1
                    if own:
                        why = "a nested call that was refused (-4) delivered records: %s" % own[:4]
                elif not pre_exec:
                    why = "the nested call on the running instance returned %d, documented: -4" % nr
                else:
                    let_in += 1
                    if nr != nret:
                        why = "the nested call was let in and returned %d, its text alone returns %d" % (nr, nret)
                    elif any(not r.startswith("5:22:") for r in own):
                        why = "records of the nested call arrived with other call data than its own (22): %s" % [r for r in own if not r.startswith("5:22:")][:3]
                    elif nmarks is not None and [r.split(":", 3)[3] for r in own if ":M<" in r] != nmarks:
                        why = "the nested call was let in but delivered %s instead of %s" % ([r.split(":", 3)[3] for r in own if ":M<" in r], nmarks)
            elif nname == "status-same":
                if own:
                    why = "sqfvm_status delivered records"
            else:
                tagn = "5:0:" if nname.startswith("load-same") else ("6:33:" if nname == "call-other" else "6:0:")
                if nr != nret:
                    why = "the nested %s returned %d, documented: %d" % (nname, nr, nret)
                elif any(not r.startswith(tagn) for r in own):
                    why = "records of the nested %s arrived with other user / call data than %s: %s" % (nname, tagn, [r for r in own if not r.startswith(tagn)][:3])
                elif nmarks is not None and [r.split(":", 3)[3] for r in own if ":M<" in r] != nmarks:
                    why = "the nested %s delivered %s instead of %s" % (nname, [r.split(":", 3)[3] for r in own if ":M<" in r], nmarks)
            wrong = [r for r in outer if not r.startswith("5:%d:" % ocd)]
            if why is None and wrong:
                tagging = why = ("a record of the outer call arrived with other call data than that of its call (%d): %s - the nested call returned %d" % (ocd, wrong[:3], nr))
        if why is None:
            if parts[4] != "0{}" or parts[6] != "0{}" or parts[7] != "0{}":
                why = "an instance is not idle after the call (sqfvm_status %s / %s / %s)" % (parts[4], parts[6], parts[7])
            elif not parts[5].startswith("0{") or ("5:%d:3:M<VALUE 2>" % (cd + 1)) not in parts[5] or any(not r.startswith("5:%d:" % (cd + 1)) for r in parts[5][2:-1].split(",")):
                why = "the next call did not run and deliver its value under its own call data: " + parts[5][:160]
        if why:
            if (tagging and nname.startswith("call-same") and pre_exec and parts[4] == "0{}" and parts[6] == "0{}" and ("5:%d:3:M<VALUE 2>" % (cd + 1)) in parts[5]
                    and run.known.has(PID, FINDING_NESTED_PRE)):
                run.known_finding(FINDING_NESTED_PRE)      # exactly the recorded defect: the nested call is let in and leaves ITS call data to the rest of the outer call
                continue
            run.violation("C API contract broken around a call made from inside the log callback while the outer %s is still %s (%s at record %d of %d before execution; outer text: %s): %s" % (
                "sqfvm_load_config" if ty == "L" else "sqfvm_call type '%s'" % ty, "preprocessing / parsing" if pre_exec else "running",
                nname, k, c["records_before_execution"], c["outer_reports"], why), rep)
    run.cov["reentrant_before_execution"] = {"cases": n, "outer_texts": len(outers), "nested_ops": [x[0] for x in nested],
                                             "nested_call_on_same_instance_refused": refused, "nested_call_on_same_instance_let_in": let_in,
                                             "judged": "implementation only: the same history without the nested call (records and code of the outer call), the tags of every record, "
                                                       "status 0 and the value of the next call"}
    return n


def add_self_ending(h, rng, i, cd):
    """a call that ends the run itself, a status query, and calls that read / write the globals afterwards"""
    nm, text, stand_in = self_ending(rng)
    o = dict(op="K", h=str(i), cd=cd, ty="s", text=text, cls="selfend", selfend=nm)
    if stand_in is not None:
        o["prog"] = stand_in
    h.add(**o)
    if rng.random() < 0.6:
        h.add(op="S", h=str(i))       # otherwise the next call is the first thing to meet the instance
    h.add(op="K", h=str(i), cd=cd + 1, ty="s", prog=Prog(E(Un("diag_log", Arr(Var("ga"), N(5)))), Asg("gb", N(2))), cls="ok")
    h.add(op="K", h=str(i), cd=cd + 2, ty=rng.choice(["s", "p", "1"]), prog=Prog(E(Un("diag_log", Arr(Var("ga"), Var("gb"))))), cls="ok")


def build_history(rng, g, thorough):
    """<= 8 calls (plus create / status / destroy) on 1-2 instances"""
    h = Hist()
    two = rng.random() < 0.45
    limited = rng.random() < 0.35          # instance 1 (or 0 when alone) has a time limit
    h.add(op="C", user=rng.randint(1, 90), mr=0 if (two or not limited) else 250)
    if two:
        h.add(op="C", user=rng.randint(100, 190), mr=250 if limited else 0)
    live = [0, 1] if two else [0]
    lim = {0: (250 if (not two and limited) else 0), 1: (250 if (two and limited) else 0)}
    ncalls = rng.randint(3, 8)
    cd = 10
    for _ in range(ncalls):
        cd += 1
        i = rng.choice(live)
        k = rng.random()
        earlier = [o for o in h.ops if o["op"] == "K" and o.get("h") == str(i) and o.get("prog") not in (None, "0") and o.get("cls") in ("ok", "run", "err")]
        if earlier and rng.random() < 0.12:
            # the same text again on the same instance: judged on its own, like any other call (the model knows nothing of earlier texts)
            o = dict(rng.choice(earlier)); o["cd"] = cd; o.pop("tail", None)
            if o["cls"] == "ok":
                o["cls"] = "run"
            h.add(**o)
            continue
        if k < 0.08:
            h.add(op="S", h=str(i))
        elif k < 0.16:
            hh = rng.choice(["N", "B", "X"])
            which = rng.choice(["K", "S", "L", "D"])
            if which == "K":
                h.add(op="K", h=hh, cd=cd, ty="s", text=b"1", cls="invalid-handle")
            elif which == "L":
                h.add(op="L", h=hh, text=b"class A{};", cls="invalid-handle", classes=[])
            elif which == "D":
                h.add(op="D", h=hh)
            else:
                h.add(op="S", h=hh)
        elif k < 0.28:
            r = rng.random()
            if r < 0.5:
                t, cl = rng.choice(CFG_OK); h.add(op="L", h=str(i), text=t, cls="ok", classes=cl)
            elif r < 0.75:
                h.add(op="L", h=str(i), text=rng.choice(CFG_PP_FAIL), cls="ppfail", classes=[])
            else:
                h.add(op="L", h=str(i), text=rng.choice(CFG_PARSE_FAIL), cls="parsefail", classes=[])
        elif k < 0.34:
            h.add(op="P", h=str(i), cd=cd, name=rng.choice(["VerifA", "VerifB", "VerifC", "Missing"]))
        else:
            ty = rng.choice(["s"] * 10 + ["1", "1", "p", "p", "a", "a", "c", "x", "\0", "S"])
            r = rng.random()
            if ty == "a":
                if r < 0.5:
                    h.add(op="K", h=str(i), cd=cd, ty=ty, text=rng.choice(ASM_OK), cls="ok", prog="0")
                elif r < 0.75:
                    h.add(op="K", h=str(i), cd=cd, ty=ty, text=rng.choice(ASM_PARSE_FAIL), cls="parsefail")
                else:
                    h.add(op="K", h=str(i), cd=cd, ty=ty, text=rng.choice(PP_FAIL), cls="ppfail")
            elif r < 0.12:
                h.add(op="K", h=str(i), cd=cd, ty=ty, text=rng.choice(PP_FAIL), cls="ppfail")
            elif r < 0.24 and ty in "s1":
                h.add(op="K", h=str(i), cd=cd, ty=ty, text=rng.choice(PARSE_FAIL), cls="parsefail")
            elif r < 0.30 and ty == "s":
                h.add(op="K", h=str(i), cd=cd, ty=ty, text=rng.choice(MALFORMED_OPAQUE), cls="opaque")
            elif r < 0.36 and ty == "s" and lim[i]:
                h.add(op="K", h=str(i), cd=cd, ty=ty, prog=ENDLESS, cls="endless")
            elif r < 0.40:
                h.add(op="K", h=str(i), cd=cd, ty=ty, text=b"", cls="ok", prog="0")
            elif r < 0.47 and ty == "s" and not lim[i]:
                nm, pr_, cl_ = rng.choice(MULTI)
                h.add(op="K", h=str(i), cd=cd, ty=ty, prog=pr_, cls=cl_, multi=nm)
            elif r < 0.55 and ty == "s" and not lim[i]:
                add_self_ending(h, rng, i, cd)
                cd += 3
            else:
                kind = rng.choice(["gen", "gen", "safe", "err", "faulty", "set", "get"])
                if lim[i] and kind in ("gen", "err", "faulty"):
                    kind = rng.choice(["set", "get", "safe"])      # keep runs on the time-limited instance far below the limit
                # gen: a random program of the modelled fragment - it may or may not raise a runtime error (the model says which)
                o = dict(op="K", h=str(i), cd=cd, ty=ty, prog=gen_prog(g, rng, kind), cls={"err": "err", "gen": "run", "faulty": "run", "get": "run"}.get(kind, "ok"))
                if rng.random() < 0.15:
                    o["tail"] = rng.choice([b" ((( ", b"\x00 = = ", b"; 1 +* "])     # bytes beyond `length`: never read
                h.add(**o)
    if rng.random() < 0.5:
        for i in live:
            h.add(op="S", h=str(i))
    if two and rng.random() < 0.5:
        h.add(op="D", h="1")
        h.add(op="K", h="0", cd=99, ty="s", prog=gen_prog(g, rng, "get"), cls="run")
    h.add(op="D", h="0")
    return h


def main(replay=None):
    run = V.Run(PID, "proof")
    rng = run.rng
    thorough = run.tier == "thorough"
    problems = run.prove()
    bdir = V.build_impl("plain")
    hapi = V.build_harness("h_api", "plain")
    drv = V.ocaml_driver("api")
    g = VM.Gen(rng)

    hists = []
    rp_kind, rp_json = None, None
    if replay and str(json.load(open(replay))["replay"].get("kind", "")).startswith(("reentrant:", "reentrant-pre:")):
        rp_json = json.load(open(replay))["replay"]; rp_kind = rp_json["kind"]; rp_json.pop("impl", None)
    elif replay:
        r = json.load(open(replay))["replay"]
        h = Hist(); h.ops = r["ops"]; hists = [("replay", h)]
        for o in h.ops:
            for k in ("text", "tail"):
                if k in o and isinstance(o[k], str):
                    o[k] = V.unhx(o[k])
    else:
        cdir = os.path.join(V.VERIF, "corpus", PID)
        if os.path.isdir(cdir):
            for fn in sorted(os.listdir(cdir)):
                r = json.load(open(os.path.join(cdir, fn)))
                h = Hist(); h.ops = r["ops"]
                for o in h.ops:
                    for k in ("text", "tail"):
                        if k in o and isinstance(o[k], str):
                            o[k] = V.unhx(o[k])
                hists.append(("corpus:" + fn, h))
        for t in ASM_FINDING:
            h = Hist(); h.add(op="C", user=5, mr=0); h.add(op="K", h="0", cd=1, ty="a", text=t, cls="asm-finding"); h.add(op="S", h="0")
            hists.append(("asm-finding", h))
        for nm, pr_, cl_ in MULTI:
            h = Hist(); h.add(op="C", user=9, mr=0)
            h.add(op="K", h="0", cd=21, ty="s", prog=pr_, cls=cl_, multi=nm); h.add(op="S", h="0")
            h.add(op="K", h="0", cd=22, ty="s", prog=Prog(E(Un("diag_log", Arr(Var("late"), Var("z"))))), cls="run"); h.add(op="D", h="0")
            hists.append(("multi:" + nm, h))
        hists += repeat_histories(rng, thorough)
        hists += evalfail_histories(rng, thorough)
        hists += terminate_histories(rng)
        hists += fleet_histories(rng, thorough)
        for shape, ty_, text_, code_, pending_ in EVAL_SPAWN:
            h = Hist(); h.add(op="C", user=6, mr=0)
            h.add(op="K", h="0", cd=51, ty=ty_, text=text_, cls="evalspawn", shape=shape, code=code_)
            h.add(op="S", h="0")
            h.add(op="K", h="0", cd=52, ty="s", text=b'diag_log str (isNil "leaked"); 5', cls="evalspawn2", shape=shape)
            h.add(op="S", h="0"); h.add(op="D", h="0")
            hists.append(("evalspawn:" + shape, h))
        for _ in range(40 if thorough else 12):
            h = Hist(); h.add(op="C", user=8, mr=0)
            add_self_ending(h, rng, 0, 31)
            add_self_ending(h, rng, 0, 41)
            h.add(op="S", h="0"); h.add(op="D", h="0")
            hists.append(("selfend", h))
        for _ in range(2500 if thorough else 260):
            hists.append(("random", build_history(rng, g, thorough)))

    # 1. program texts from the model (so that both sides run the same text)
    progs = sorted({o["prog"] for _, h in hists for o in h.ops if o.get("prog") not in (None, "0")})
    rc, pt, _ = V.run_lines_parallel([drv, "ctl-text"], progs)
    text_of = {"0": b""}
    for p, t in zip(progs, pt):
        text_of[p] = V.unhx(t.split("\t")[0])
    for _, h in hists:
        for o in h.ops:
            if o.get("prog") is not None and "text" not in o:
                o["text"] = text_of[o["prog"]]
    # 2. front ends of the implementation on every (type, text)
    keys = sorted({((o["ty"] if o["op"] == "K" else "L"), o["text"]) for _, h in hists for o in h.ops
                   if o["op"] in ("K", "L") and o.get("cls") not in ("invalid-handle", "asm-finding", "evalspawn", "evalspawn2", "expect", "warns")})
    rc, pr, _ = V.run_lines_parallel([hapi, "probe"], ["%s\t%s" % (hx(t), hx(x)) for t, x in keys], timeout=3000)
    probe = dict(zip(keys, pr))

    def front(o):
        """model argument for a call / load + the class the probe found"""
        p = probe[((o["ty"] if o["op"] == "K" else "L"), o["text"])].split(" ")
        if p[0] == "PPFAIL":
            return "F" + p[1], "ppfail"
        if p[0] == "PARSEFAIL":
            return "E%s;%s" % (p[1], p[2]), "parsefail"
        if p[0] == "OK":
            if o["op"] == "L":
                return "O%s;%s;%s" % (p[1], p[2], ",".join(hx(c) for c in o.get("classes", [])) or "-"), "ok"
            return "O%s;%s;%s;%s" % (p[1], p[2], p[3], o.get("prog") or "0"), "ok"
        return None, " ".join(p)

    hl, ml, meta = [], [], []
    for kind, h in hists:
        tick = 1000
        hops, mops, skip = [], [], None
        for o in h.ops:
            if o["op"] == "C":
                hops.append("C%d:%d" % (o["user"], o["mr"])); mops.append("C%d@%d" % (o["user"], o["mr"] * 1000))
            elif o["op"] in ("D", "S"):
                hops.append(o["op"] + o["h"]); mops.append(o["op"] + o["h"])
            elif o["op"] == "P":
                text = ('diag_log str isClass (configFile >> "%s")' % o["name"]).encode()
                hops.append("K%s:%d:%s:%s:-" % (o["h"], o["cd"], hx("s"), hx(text)))
                mops.append("P%s@%d@%s" % (o["h"], o["cd"], hx(o["name"])))
            else:
                text = o["text"]
                buf = text + o.get("tail", b"")
                ln = "-" if "tail" not in o else str(len(text))
                if o["op"] == "L":
                    hops.append("L%s:%s:%s" % (o["h"], hx(buf), ln))
                else:
                    hops.append("K%s:%d:%s:%s:%s" % (o["h"], o["cd"], hx(o["ty"]), hx(buf), ln))
                if o.get("cls") == "invalid-handle":
                    fr = "F-"
                elif o.get("cls") in ("opaque", "asm-finding", "evalspawn", "evalspawn2", "expect", "warns") or (o.get("cls") == "selfend" and o.get("prog") is None):
                    fr = None
                elif o.get("cls") == "evalfail":
                    _, found = front(o)
                    o["probe"] = found
                    fr = None
                    if found not in ("ok", "parsefail", "ppfail"):
                        skip = "generator: the implementation's own front end did not survive %r: %s" % (o["text"], found)
                else:
                    fr, found = front(o)
                    o["probe"] = found
                    want = {"err": "ok", "endless": "ok", "run": "ok", "selfend": "ok"}.get(o["cls"], o["cls"])
                    if fr is None or found != want:
                        skip = "generator: a text of class %s was classified %s by the implementation's own front end" % (o["cls"], found)
                if fr is None:
                    mops.append(None)
                elif o["op"] == "L":
                    mops.append("L%s@%s" % (o["h"], fr))
                else:
                    mops.append("K%s@%d@%d@%s" % (o["h"], o["cd"], ord(o["ty"]), fr))
        hl.append("%d\t%s" % (tick, "\t".join(hops)))
        # the model history stops in front of an op it has no description for (judged by the contract oracle alone)
        cut = mops.index(None) if None in mops else len(mops)
        ml.append("repaired\t%d\t%s" % (tick, "\t".join(mops[:cut])))
        meta.append((kind, h, cut, skip))

    rc, impl, _ = V.run_lines_parallel([hapi, "api", bdir], hl, timeout=3000)
    rc, model, _ = V.run_lines_parallel([drv, "api"], ml, timeout=3000)
    rc, masis, _ = V.run_lines_parallel([drv, "api"], [m.replace("repaired", "asis", 1) for m in ml], timeout=3000)

    def parse(line):
        out = []
        for part in line.split("|"):
            if "{" not in part:
                out.append((part, None)); continue
            ret, recs = part.split("{", 1)
            recs = recs.rstrip("}")
            rl = []
            for r in (recs.split(",") if recs else []):
                f = r.split(":", 3)
                if len(f) >= 3 and f[2].lstrip("-").isdigit() and int(f[2]) <= 3:
                    rl.append(tuple(f))
            out.append((ret, rl))
        return out

    stats, samples, distinct = {}, [], set()
    evalspawn_leaks = []
    evaluations = 0
    EXPECT = {"ok": 0, "err": -6, "endless": -6, "parsefail": -3, "ppfail": -2, "invalid-handle": -1}

    def as_json(h):
        ops = []
        for o in h.ops:
            o2 = dict(o)
            for k in ("text", "tail"):
                if k in o2 and isinstance(o2[k], bytes):
                    o2[k] = V.hx(o2[k])
            o2.pop("probe", None)
            ops.append(o2)
        return ops

    for hidx, ((kind, h, cut, skip), il, mo, ma) in enumerate(zip(meta, impl, model, masis)):
        rep = {"kind": kind, "ops": as_json(h), "impl": il, "model": mo, "model_unrepaired": ma}
        if skip:
            run.violation(skip + " (machinery)", dict(rep, broken="generator pools of checks/C18.py"), found_input=False)
            continue
        ip, mp, ap = parse(il), parse(mo), parse(ma)
        users = {}
        ncreated = 0
        bad = False
        has_asm = any(o.get("cls") == "asm-finding" for o in h.ops)
        if len(ip) != len(h.ops) or any(r is None for _, r in ip):
            # the history did not come back: a crash / hang / abort of the library
            if has_asm and run.known.has(PID, FINDING_ASM):
                run.known_finding(FINDING_ASM)
            elif has_asm:
                run.violation("sqfvm_call with type 'a' (assembly) crashes the host on a harmless text (finding %s: the assembly front end "
                              "indexes a child that does not exist / reads a dangling path)" % FINDING_ASM, rep)
            else:
                why = "an API call crashed or did not return"
                if ma.find("UB ") >= 0:
                    why += " - the model of the unrepaired code predicts undefined behaviour here: " + ma[ma.find("UB "):][:110]
                run.violation(why, rep)
            continue
        for k, (o, (ret, recs)) in enumerate(zip(h.ops, ip)):
            evaluations += 1
            stats[o["op"] + ":" + o.get("cls", "")] = stats.get(o["op"] + ":" + o.get("cls", ""), 0) + 1
            ret = int(ret)
            # ---- 1. the documented contract
            why = None
            if o["op"] == "C":
                users[ncreated] = o["user"]; ncreated += 1
                if ret < 0:
                    why = "sqfvm_create_instance returned NULL"
            elif o["op"] == "S":
                want = -1 if o["h"] in ("N", "B", "X") else 0
                if ret != want:
                    why = "sqfvm_status returned %d, the instance must be idle (0) after every call / -1 for an invalid handle" % ret
            elif o["op"] in ("K", "L", "P"):
                cls = o.get("cls", "ok")
                if o["h"] in ("N", "B", "X"):
                    want = [-1]
                elif cls in ("opaque", "asm-finding"):
                    want = [0, -2, -3, -6]
                elif cls == "selfend":
                    want = [0]        # the script asked for the end of the run: no runtime error, nothing failed
                elif cls == "evalspawn":
                    want = [o["code"]]
                elif cls == "evalspawn2":
                    want = [0]
                elif cls in ("expect", "warns"):
                    want = [0]
                elif cls == "evalfail":
                    # the documented code for what the front ends made of the text (a failing __EVAL expands to nothing)
                    want = [{"ok": 0, "parsefail": -3, "ppfail": -2}[o["probe"]]]
                elif o["op"] == "K" and o["ty"] not in TY and cls != "ppfail":
                    want = [-5]
                elif o["op"] == "K" and o["ty"] == "p" and cls != "ppfail":
                    want = [0]
                elif o["op"] == "K" and o["ty"] == "1" and cls in ("err", "endless", "run"):
                    want = [0]
                elif cls == "run":
                    want = [0, -6]
                else:
                    want = [EXPECT[cls]]
                if ret not in want:
                    why = "%s returned %d, the contract says %s for this input (%s)" % (
                        {"K": "sqfvm_call", "L": "sqfvm_load_config", "P": "sqfvm_call"}[o["op"]], ret, want, cls)
                if o["h"] not in ("N", "B", "X"):
                    u = str(users.get(int(o["h"])))
                    c = "0" if o["op"] == "L" else str(o["cd"])
                    for r in recs:
                        if r[0] != u or r[1] != c:
                            why = why or ("a diagnostic of this call reached the callback with user data %s / call data %s instead of %s / %s" % (r[0], r[1], u, c))
                    if ret == -6 and not any(int(r[2]) <= 1 for r in recs):
                        why = why or "the call failed (-6) without an error-level diagnostic reaching the callback"
                    # a stack trace / max-runtime diagnostic (the only fatal-level messages of a run) is logged exactly when a
                    # runtime error was not recovered by any handler resp. the run was cut: such a call did not run to completion
                    # without a runtime error, whichever script of the call it was and whatever the other scripts did afterwards
                    if o["op"] == "K" and cls != "evalfail" and ret == 0 and any(int(r[2]) == 0 for r in recs):
                        why = why or ("sqfvm_call returned 0 although the callback received the fatal stack trace of an unrecovered runtime error "
                                      "for this very call (0 is documented for `executed to completion without a runtime error`)")
                    if o["op"] == "P" and ret == 0:
                        pass
            # nothing but globals and config carries over to the next call - in particular no pending script: a script spawned
            # inside __EVAL while a call's text was preprocessed must have run inside that call or be gone (implementation-only
            # oracle: the model has no notion of a front end that creates contexts)
            if why is None and o.get("cls") in ("evalspawn", "evalspawn2"):
                texts_ = [r[3] for r in recs if len(r) > 3]
                leak = None
                if o["cls"] == "evalspawn" and o["shape"] == "s-control" and "M<LEAK>" not in texts_:
                    why = "the script spawned inside __EVAL of an executed call did not run inside that call"
                elif o["cls"] == "evalspawn2":
                    if "M<LEAK>" in texts_:
                        leak = "the log of this call (call data %d) contains the LEAK line of a script that an EARLIER call spawned" % o["cd"]
                    elif o["shape"] != "s-control" and "M<false>" in texts_:
                        leak = "`leaked` is defined although the call that mentioned it executed nothing"
                    elif o["shape"] != "s-control" and "M<true>" not in texts_:
                        why = "the probe call did not report isNil \"leaked\""
                    elif o["shape"] == "s-control" and "M<false>" not in texts_:
                        why = "a global set by a script that ran inside the previous call did not persist"
                if leak:
                    evalspawn_leaks.append(o["shape"])
                    if o["shape"] in ("p", "1", "parse-failure") and run.known.has(PID, FINDING_EVAL):
                        run.known_finding(FINDING_EVAL)      # exactly the recorded defect on exactly its witnesses
                    else:
                        run.violation("a pending script carried over to the next sqfvm_call: " + leak +
                                      " (first call: type '%s', %r)" % (h.ops[k - 2]["ty"], h.ops[k - 2]["text"].decode("latin-1")), dict(rep, at=k))
                        bad = True
                        break
            if why is None and o.get("cls") in ("expect", "warns"):
                got = [r[3][2:-1] for r in recs if len(r) > 3 and r[3].startswith("M<") and not r[3].startswith("M<VALUE ")]
                if "expect" in o and got != o["expect"]:
                    why = ("the call did not preprocess / parse / execute its text anew: it logged %s, the text evaluated with the instance's current "
                           "globals and counters logs %s (text %r)" % (got, o["expect"], o["text"].decode("latin-1")))
                if why is None and "value" in o and ("M<VALUE %s>" % o["value"]) not in [r[3] for r in recs if len(r) > 3]:
                    why = "the call did not deliver the value of its script (%s) to the callback: it delivered %s" % (o["value"], [r[3] for r in recs if len(r) > 3])
                if why is None and o["cls"] == "warns" and not any(r[2] == "2" for r in recs):
                    why = "no warning reached the callback for a text that defines a macro twice"
                if why is None and "same_as" in o:
                    first = [tuple(x[:1]) + tuple(x[2:]) for x in ip[o["same_as"]][1]]
                    mine = [tuple(x[:1]) + tuple(x[2:]) for x in recs]
                    if first != mine:
                        why = ("a repeated call of the same text did not deliver the diagnostics its first call delivered (every diagnostic of a call "
                               "has to reach the callback with the call data of THAT call): first call %s, this call %s" % (first, mine))
            if why:
                if o.get("cls") == "asm-finding" and run.known.has(PID, FINDING_ASM):
                    run.known_finding(FINDING_ASM)
                else:
                    run.violation(why, dict(rep, at=k))
                bad = True
                break
            # ---- 2. correspondence with the model
            if o["op"] == "P":
                recs = [r for r in recs if len(r) > 3]
            if k < cut and k < len(mp):
                mret, mrecs = mp[k]
                if mrecs is None and mret.startswith("UNSUPPORTED"):
                    # the generated program left the modelled fragment of the VM (e.g. negative zero): the rest of this
                    # history is judged by the contract oracle only
                    stats["model: program outside the modelled fragment"] = stats.get("model: program outside the modelled fragment", 0) + 1
                    cut = k
                    continue
                if mrecs is None:
                    run.violation("the model left the modelled fragment on a generated history (machinery)", dict(rep, at=k, broken="api_driver / generator"), found_input=False)
                    bad = True
                    break
                if o.get("cls") == "selfend":
                    mrecs = recs          # stand-in program on the model side: only the return code is compared for this call
                if str(ret) != mret or [tuple(x) for x in recs] != [tuple(x) for x in mrecs]:
                    aret, arecs = ap[k] if k < len(ap) else (None, None)
                    if arecs is not None and str(ret) == aret and [tuple(x) for x in recs] == [tuple(x) for x in arecs]:
                        run.violation("the callback records of this call differ from the contract - the implementation behaves as the model of the "
                                      "unrepaired code (see proposed_fixes/C18-*)", dict(rep, at=k))
                    else:
                        rep2 = dict(rep, at=k, impl_op=[ret, recs], model_op=[mret, mrecs],
                                    broken="correspondence ApiDefs.step vs src/export/sqfvm.cpp (codes_truthful, all_diagnostics_delivered_tagged)")
                        run.violation("implementation and model disagree on an API call (contract oracle satisfied)", rep2, found_input=False)
                    bad = True
                    break
                distinct.add((o["op"], o.get("cls"), o.get("ty"), mret, len(mrecs)))
        if not bad and len(samples) < 5 and kind == "random":
            samples.append({"history": hl[hidx][:300], "impl": il[:300]})

    if not replay:
        run.cov["reentrant_cases"] = reentrant_family(run, rng, hapi, bdir, thorough)
        run.cov["reentrant_cases"] += reentrant_pre_family(run, rng, hapi, bdir, thorough)
    elif str(rp_kind).startswith("reentrant-pre:"):
        for k_ in ("probe", "outer_records_without_nested_call", "ops"):
            rp_json.pop(k_, None)
        run.cov["reentrant_cases"] = reentrant_pre_family(run, rng, hapi, bdir, thorough, only=rp_json)
    elif str(rp_kind).startswith("reentrant:"):
        run.cov["reentrant_cases"] = reentrant_family(run, rng, hapi, bdir, thorough, only=rp_json)
    for p in problems:
        run.violation("proof obligation not discharged: " + p, {"broken": p, "theorems": run.cov["theorems"]}, found_input=False)
    run.cov["evaluations"] = evaluations
    run.cov["distinct_nontrivial"] = len(distinct)
    run.cov["rule"] = ("histories of 3-8 API calls (plus create/status/destroy) on 1-2 instances of the dlopen'ed libsqfvm.so under a virtual clock: "
                       "programs from vmcommon.Gen (succeeding, erroring), global set/get pairs, parse-failing and preprocess-failing texts, an endless loop on a "
                       "250 ms instance, empty text, length shorter than the buffer, embedded NUL / invalid UTF-8, every type character ('s','a','p','1', unknown), "
                       "config loads (ok/preprocess-failing/parse-failing) and isClass probes, NULL / zeroed / wrong-magic handles; per call the return code and the "
                       "callback records (user, call data, severity <= 3, diag_log / value text) vs the documented contract and vs ApiDefs.step (repaired) fed with the "
                       "implementation's own front-end answers; distinct = (op, class, type, code, number of records).  Plus the fixed families of every run: multi-script calls, "
                       "self-ending scripts, repeated texts, failing __EVAL in unexecuted texts, terminate, many instances alive at once destroyed in every order with every survivor used after "
                       "every destroy (cov many_instances), API calls from inside the log callback at records of the run and at records before execution (cov reentrant_before_execution)")
    run.cov["eval_spawn_witnesses"] = {"shapes": [x[0] for x in EVAL_SPAWN], "leaked_into_the_next_call": evalspawn_leaks,
                                       "judged": "implementation only (the model's front ends cannot create contexts: it has no notion of this leak)"}
    fl = [(kind, h) for kind, h, _, _ in meta if kind.startswith("fleet")]
    run.cov["many_instances"] = {"histories": len(fl), "api_calls": sum(len(h.ops) for _, h in fl),
                                 "most_instances_alive_at_once": max([sum(1 for o in h.ops if o["op"] == "C") for _, h in fl] or [0]),
                                 "destroy_orders": sorted({k.split(":")[2] for k, _ in fl}),
                                 "variants": sorted({k.split(":")[0] for k, _ in fl}),
                                 "judged": "documented contract (code by class, status 0, user / call data of every record) and ApiDefs.step (the model's instance list has any length): "
                                           "every return code and callback record of every survivor after every destroy"}
    run.cov["input_distribution"] = stats
    run.cov["samples"] = samples
    run.cov["trusted_base"] = ["Coq 8.16.1 kernel", "ExtrOcamlBasic extraction + ocaml/api_driver.ml", "harness/h_api.cpp (dlopen of the library, clock_gettime interposed through libstdc++)",
                               "translators/resultmap.py (regex over sqfvm.cpp / sqfvm.h)", "the preprocessor and parsers are parameters of the model: their answers come from the implementation's own front ends (probe)",
                               "shared VM model VM/VmDefs.v, VM/VmExec.v"]
    return run.finish()
