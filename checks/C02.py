"""C02 - control structures execute the statements SQF semantics prescribe.
Oracle = the reference semantics coq/VM/RefSem.v (extracted); mechanism = the VM model; implementation = h_vm."""
import json, os
import vcommon as V
import vmcommon as M
from vmcommon import N, B, S, Var, Arr, Code, Nul, Un, Bin, E, Asg, Loc, Prog

PID = "C02"


class Gen2(M.Gen):
    """programs over the constructs of the property, with early exits at every syntactic position"""

    def lazy_name(self):
        """&& / || in one of their spellings: the symbol, the word (a synonym with a table entry of its own), the word in other letters"""
        r = self.rng
        n = r.choice(["&&", "||"])
        k = r.random()
        if k < 0.5:
            return n
        w = SYNONYM[n]
        return w if k < 0.85 else r.choice(letter_cases(w)[1:])

    def boolean(self, depth):
        """the parent's conditions, with the lazy operators in every spelling"""
        r = self.rng
        k = r.random()
        if depth <= 0 or k < 0.3:
            return B(r.random() < 0.5)
        if k < 0.7:
            return Bin(r.choice(["<", ">", "<=", ">=", "=="]), self.num(depth - 1), self.num(depth - 1))
        if k < 0.8:
            return Un("!", self.boolean(depth - 1))
        if k < 0.9:
            return Bin(self.lazy_name(), self.boolean(depth - 1), self.boolean(depth - 1))
        return Bin(self.lazy_name(), self.boolean(depth - 1), Code(self.mark(), E(self.boolean(depth - 1))))

    def early_exit(self, d, nest=2):
        r = self.rng
        k = r.randint(0, 4)
        if k == 0:
            # the handler of exitWith may itself leave by throw / breakOut / another exitWith: the scope it ends is
            # already marked as finished when the handler runs, its error handlers and scope name must still apply
            if nest > 0 and r.random() < 0.45:
                handler = Code(self.mark(), self.early_exit(d, nest - 1), self.mark())
            else:
                handler = Code(self.mark(), E(self.value_expr(0)))
            return E(Bin("exitWith", Un("if", self.boolean(min(d, 1))), handler))
        if k == 1:
            return E(Bin("breakOut", self.num(0), S(r.choice(["s1", "s2"]))))
        if k == 2:
            return E(Un("breakOut", S(r.choice(["s1", "s2"]))))
        if k == 3:
            return E(Un("throw", self.num(0)))
        return E(Bin("throw", Un("if", self.boolean(min(d, 1))), self.num(0)))

    def scoped(self, d, body):
        """wrap statements so that exits have a target"""
        r = self.rng
        k = r.randint(0, 3)
        if k == 0:
            return E(Un("call", Code(E(Un("scopeName", S(r.choice(["s1", "s2"])))), *body)))
        if k == 1:
            return E(Bin("catch", Un("try", Code(*body)), self.handler(d)))
        if k == 2:
            return E(Un("call", Code(E(Un("scopeName", S("s1"))), E(Un("call", Code(E(Un("scopeName", S("s2"))), *body))), self.mark())))
        return E(Un("call", Code(*body)))

    def handler(self, d):
        """the catch block: it reports the exception and yields it; sometimes it leaves early itself (a throw out of a handler
        goes to the next handler outwards and nothing of this handler, nor of the scope the try-catch stands in, runs any more)"""
        r = self.rng
        if r.random() < 0.4:
            return Code(self.mark(Var("_exception")), self.early_exit(d, 0), self.mark(), E(self.value_expr(0)))
        return Code(self.mark(Var("_exception")), E(Var("_exception")))

    def rethrow(self, d):
        """try-catch inside try-catch (directly, or inside a function called from the outer block), the inner handler throws -
        always or under a condition - and has statements behind the throw"""
        r = self.rng
        v = r.choice(self.locals)
        cond = r.random() < 0.6
        thr = E(Bin("throw", Un("if", self.boolean(min(d, 1))), self.num(0))) if cond else E(Un("throw", self.num(0)))
        inner = Bin("catch", Un("try", Code(self.mark(), E(Un("throw", self.num(0))), self.mark())),
                    Code(self.mark(Var("_exception")), thr, self.mark(), E(self.value_expr(0))))
        if r.random() < 0.5:
            body = [Asg(v, inner), self.mark(Var(v))]
        else:
            fn = Code(Asg(v, inner), self.mark(Var(v)), E(Var(v)))
            body = [self.mark(Arr(Bin("call", self.num(0), fn), Bin("call", self.num(0), fn)))]
        return E(Bin("catch", Un("try", Code(self.mark(), *body, self.mark(), E(self.value_expr(0)))),
                     Code(self.mark(Var("_exception")), E(Var("_exception")))))

    def loop_with(self, d, inner):
        r = self.rng
        if r.random() < 0.3:
            # the idiom of the scopeName documentation: the loop body names its scope in EVERY round (each round is a new scope) and
            # may leave it by name; behind the loop the program goes on
            nm = r.choice(["l1", "l2"])
            tail = [E(Bin("breakOut", self.num(0), S(nm))) if r.random() < 0.5 else E(Un("breakOut", S(nm)))] if r.random() < 0.5 else []
            inner = [E(Un("scopeName", S(nm))), self.mark(S(nm))] + list(inner) + ([E(Bin("then", Un("if", self.boolean(min(d, 1))), Code(*tail)))] if tail else [])
        k = r.randint(0, 6)
        if k == 0:
            return E(Bin("forEach", Code(self.mark(Arr(Var("_x"), Var("_forEachIndex"))), *inner), self.arr(0)))
        if k == 1:
            v = r.choice(["_i", "_k"])
            if r.random() < 0.2:
                # bounds far from zero (every value still an exact float): the end test compares, it does not estimate; the mark shows
                # the distance to the end value so that every round prints a different number
                base = r.choice([1000000, 2000000, 3000000, 8000000, -1000000, -4000000])
                a, b_ = r.randint(0, 2), r.randint(0, 4)
                st = r.choice([None, 2, -1, -2])
                lo, hi = base + a, base + b_
                if st is not None and st < 0:
                    lo, hi = hi, lo
                big = lambda x: Bin("+", Bin("*", N(1000), N(base // 1000)), N(x - base))    # no seven-digit literal in the listing
                f = Bin("to", Bin("from", Un("for", S(v)), big(lo)), big(hi))
                if st is not None:
                    f = Bin("step", f, N(st))
                return E(Bin("do", f, Code(self.mark(Bin("-", Var(v), big(base))), *inner)))
            return E(Bin("do", Bin("to", Bin("from", Un("for", S(v)), N(r.randint(0, 2))), N(r.randint(0, 4))), Code(self.mark(Var(v)), *inner)))
        if k == 2:
            v = r.choice(self.locals)
            return E(Bin("do", Un("while", Code(E(Bin("<", Var(v), N(r.randint(1, 4)))))), Code(Asg(v, Bin("+", Var(v), N(1))), self.mark(Var(v)), *inner)))
        if k == 3:
            return E(Bin("count", Code(self.mark(Var("_x")), *self.idx_mark(), *inner, E(Bin(">", Var("_x"), N(2)))), self.arr(0)))
        if k == 4:
            return E(Bin("apply", self.arr(0), Code(*self.idx_mark(), *inner, E(Bin("+", Var("_x"), N(1))))))
        if k == 5:
            v = r.choice(["_i", "_k"])
            return E(Bin("do", Bin("step", Bin("to", Bin("from", Un("for", S(v)), N(r.randint(2, 5))), N(r.randint(-1, 2))), N(-r.randint(1, 2))),
                         Code(self.mark(Var(v)), *inner)))
        # the entries in any order: the default may stand in front of a case that matches (a later match still wins), a
        # fall-through label stands directly in front of a case with a block; sometimes there is no default or two of them
        groups = [[E(Bin(":", Un("case", N(r.randint(0, 3))), Code(self.mark(), *inner)))],
                  [E(Un("case", N(r.randint(0, 3)))),
                   E(Bin(":", Un("case", N(r.randint(0, 3))), Code(self.mark(), E(self.value_expr(0)))))]]
        if r.random() < 0.5:
            groups.append([E(Bin(":", Un("case", N(r.randint(0, 3))), Code(self.mark(), E(self.value_expr(0)))))])
        nd = r.choice([1, 1, 1, 1, 0, 2])
        for _ in range(nd):
            groups.append([E(Un("default", Code(self.mark(), *inner)))])
        if r.random() < 0.6:
            r.shuffle(groups)
        return E(Bin("do", Un("switch", self.num(0)), Code(*[e for g in groups for e in g])))

    def stmt(self, depth):
        r = self.rng
        d = depth - 1
        k = r.randint(0, 21)
        if depth > 0 and k == 15:      # except__ belongs to C04
            k = 14
        if depth > 0 and k == 17:
            return self.rethrow(d) if r.random() < 0.35 else E(self.construct_value(d))
        if depth > 0 and k == 18:
            return self.scoped(d, [self.mark(), self.early_exit(d), self.mark()])
        if depth > 0 and k == 19:
            return self.scoped(d, [self.loop_with(d, [self.early_exit(d)]), self.mark()])
        if depth > 0 and k == 20:
            return self.loop_with(d, [self.stmt(d)] if r.random() < 0.6 else [])
        if depth > 0 and k == 21:
            return Asg(r.choice(self.locals), Un("call", Code(self.scoped(d, [self.early_exit(d), E(self.num(0))])[2:], E(self.num(0))))) \
                if False else self.scoped(d, [self.stmt(d), self.early_exit(d)])
        # the parent's statement kinds, by number
        saved = r.randint
        try:
            r.randint = lambda a, b, _k=k: _k if (a, b) == (0, 17) else saved(a, b)
            return M.Gen.stmt(self, depth)
        finally:
            r.randint = saved


# ---------------------------------------------------------------- spellings of operator names
# An operator of the property can be written in more than one way: `&&` / `and`, `||` / `or`, `!` / `not` are documented synonyms (each
# spelling has its OWN entry in the operator table: ops_logic.cpp:210-217, ops_math.cpp:494-495), and every name is matched without
# regard to letter case (sqf_parser.cpp to_assembly lower-cases it; the table is keyed by the lower-cased name). What a program does
# must not depend on the spelling.
def letter_cases(w):
    """every way of writing the word in upper / lower case letters, the lower-case one first"""
    out = [""]
    for ch in w:
        out = [o + c for o in out for c in (ch.lower(), ch.upper())]
    return out


LAZY_AND = ["&&"] + letter_cases("and")
LAZY_OR = ["||"] + letter_cases("or")
NOTS = ["!"] + letter_cases("not")
SYNONYM = {"&&": "and", "and": "&&", "||": "or", "or": "||", "!": "not", "not": "!"}


def style_doc(a, n): return n
def style_lower(a, n): return n.lower()
def style_upper(a, n): return n.upper()
def style_cap(a, n): return n[:1].upper() + n[1:].lower()
def style_alt(a, n): return "".join(c.upper() if i % 2 else c.lower() for i, c in enumerate(n))
def style_alt2(a, n): return "".join(c.lower() if i % 2 else c.upper() for i, c in enumerate(n))
def style_syn(a, n): return SYNONYM.get(n.lower(), n) if a in (1, 2) else n
def style_syn_upper(a, n): return style_syn(a, n).upper()


STYLES = [("as documented", style_doc), ("lower case", style_lower), ("UPPER CASE", style_upper), ("Capitalised", style_cap),
          ("aLtErNaTiNg", style_alt), ("AlTeRnAtInG", style_alt2), ("synonym", style_syn), ("SYNONYM in upper case", style_syn_upper)]


def respell(prog, f):
    """the program (token format of vmcommon) with every operator name n of arity a written as f(a, n); variables, strings and the
    structure stay as they are"""
    toks, out, pos = prog.split(), [], [0]

    def nx():
        t = toks[pos[0]]
        pos[0] += 1
        return t

    def expr():
        t = nx()
        out.append(t)
        if t in ("N", "S", "V"):
            out.append(nx())
        elif t in ("T", "F"):
            pass
        elif t in ("A", "C"):
            n = int(nx())
            out.append(str(n))
            for _ in range(n):
                (expr if t == "A" else stmt)()
        elif t in ("0", "1", "2"):
            out.append(f(int(t), nx()))
            for _ in range(int(t)):
                expr()
        else:
            raise ValueError("bad expression token " + t)

    def stmt():
        t = nx()
        out.append(t)
        if t in ("=", "L"):
            out.append(nx())
        elif t != "E":
            raise ValueError("bad statement token " + t)
        expr()

    n = int(nx())
    out.append(str(n))
    for _ in range(n):
        stmt()
    if pos[0] != len(toks):
        raise ValueError("tokens left over")
    return " ".join(out)


def for_reference(prog):
    """what the reference semantics is asked: it knows `&&` / `and` / `||` / `or` in any letter case, and `!` but not its synonym `not`
    (RefSem.v eval_unary) - a `not` is put to it as `!` (the property reads the two as one operator; this part of the oracle is the
    synonym rule, not the model)"""
    if " not " not in prog.lower():
        return prog
    return respell(prog, lambda a, n: "!" if a == 1 and n.lower() == "not" else n)


def lazy_spelling_cases():
    """BOOL op BOOL and BOOL op CODE in every spelling of the operator (symbol, word, letter cases): each truth value on the left, on the
    right a boolean / a block that reports that it runs and yields true, false, a comparison, a number, nothing; as a value, and as the
    condition of every construct of the property that takes one; nested in the right block and chained on the left, mixed with the
    other spellings. The right block must run exactly when the left side does not decide."""
    out = []
    mk = [100]

    def m(what=None):
        mk[0] += 1
        return E(Un("diag_log", what if what is not None else N(mk[0])))

    arr6 = Arr(*[N(i) for i in range(1, 7)])
    for sp in LAZY_AND + LAZY_OR:
        # -- as a value
        for left in (True, False):
            rights = [("BOOL true", B(True)), ("BOOL false", B(False)),
                      ("{mark; true}", Code(m(), E(B(True)))), ("{mark; false}", Code(m(), E(B(False)))),
                      ("{true}", Code(E(B(True)))), ("{false}", Code(E(B(False)))),
                      ("{mark; comparison}", Code(m(Var("_a")), E(Bin("<", Var("_a"), N(2))))),
                      ("{mark; number}", Code(m(), E(N(5)))), ("{}", Code()), ("{mark; nested block value}", Code(m(), E(Un("call", Code(m(), E(B(left)))))))]
            for nm, r in rights:
                e = Bin(sp, B(left), r)
                out.append(Prog(Loc("_a", N(1)), Asg("_r", e), m(Arr(S("r"), Var("_r"))), E(e)))
        # -- as the condition of each construct: the elements / rounds make the left side both true and false
        for eager in (False, True):
            def c(l, r, tag):
                return Bin(sp, l, r if eager else Code(m(Arr(S(tag), Var("_x"))), E(r)))
            lt, gt, eq = (lambda v, k: Bin("<", Var(v), N(k))), (lambda v, k: Bin(">", Var(v), N(k))), (lambda v, k: Bin("==", Var(v), N(k)))
            out.append(Prog(E(Bin("count", Code(m(Var("_x")), E(c(lt("_x", 2), gt("_x", 4), "R"))), arr6))))
            out.append(Prog(E(Bin("select", arr6, Code(E(c(eq("_x", 1), eq("_x", 6), "R")))))))
            out.append(Prog(E(Bin("findIf", arr6, Code(E(c(gt("_x", 10), eq("_x", 3), "R")))))))
            out.append(Prog(E(Bin("findIf", arr6, Code(E(c(lt("_x", 10), eq("_x", 3), "R")))))))
            out.append(Prog(E(Bin("apply", arr6, Code(E(c(lt("_x", 3), gt("_x", 4), "R")))))))
            out.append(Prog(E(Bin("forEach", Code(E(Bin("then", Un("if", c(gt("_x", 1), lt("_x", 4), "R")), Code(m(Arr(Var("_x"), Var("_forEachIndex"))))))), arr6))))
            cw = Bin(sp, lt("_i", 3), Bin("<", Var("_n"), N(5)) if eager else Code(m(Arr(S("R"), Var("_n"))), E(Bin("<", Var("_n"), N(5)))))
            out.append(Prog(Loc("_i", N(0)), Loc("_n", N(0)),
                            E(Bin("do", Un("while", Code(E(cw))), Code(Asg("_i", Bin("+", Var("_i"), N(1))), Asg("_n", Bin("+", Var("_n"), N(1))), m(Arr(Var("_i"), Var("_n")))))),
                            E(Arr(Var("_i"), Var("_n")))))
            for left in (True, False):
                for right in (True, False):
                    cc = Bin(sp, B(left), B(right) if eager else Code(m(), E(B(right))))
                    out.append(Prog(E(Bin("then", Un("if", cc), Bin("else", Code(m(S("then")), E(N(1))), Code(m(S("else")), E(N(2))))))))
                    out.append(Prog(E(Un("call", Code(E(Bin("exitWith", Un("if", cc), Code(m(S("exit")), E(N(7))))), m(S("stay")), E(N(8))))), m(S("behind"))))
                    out.append(Prog(E(Bin("catch", Un("try", Code(E(Bin("throw", Un("if", cc), N(3))), m(S("no throw")), E(N(4)))), Code(m(Var("_exception")), E(N(5)))))))
        # -- nested in the right block, and chained on the left, with each of the plain spellings of both operators
        for sp2 in ("&&", "and", "||", "or"):
            for l1 in (True, False):
                for l2 in (True, False):
                    for b in (True, False):
                        out.append(Prog(E(Bin(sp, B(l1), Code(m(), E(Bin(sp2, B(l2), Code(m(), E(B(b))))))))))
                        out.append(Prog(E(Bin(sp2, Bin(sp, B(l1), Code(m(), E(B(l2)))), Code(m(), E(B(b)))))))
    # -- under a negation, in each spelling of the negation
    for neg in NOTS:
        for sp in ("&&", "and", "||", "or", "AND", "OR"):
            for left in (True, False):
                for right in (True, False):
                    out.append(Prog(E(Un(neg, Bin(sp, B(left), Code(m(), E(Un(neg, B(right)))))))))
    return out


def keyword_templates():
    """one small program per construct of the property, each using the construct's keywords (as the documentation writes them)"""
    mk = [200]

    def m(what=None):
        mk[0] += 1
        return E(Un("diag_log", what if what is not None else N(mk[0])))

    arr = Arr(N(3), N(1), N(4), N(1), N(5))
    x_gt = lambda k: Bin(">", Var("_x"), N(k))
    t = []
    t.append(Prog(Loc("_a", N(2)), E(Bin("then", Un("if", Bin("<", Var("_a"), N(3))), Bin("else", Code(m(), E(N(1))), Code(m(), E(N(2))))))))
    t.append(Prog(Loc("_a", N(2)), E(Bin("then", Un("if", Bin(">", Var("_a"), N(3))), Code(m(), E(N(1))))), m(), E(Bin("then", Un("if", B(True)), Code(m(), E(N(6)))))))
    t.append(Prog(E(Un("call", Code(m(), E(Bin("exitWith", Un("if", B(True)), Code(m(), E(N(7))))), m(), E(N(8))))), m()))
    t.append(Prog(Loc("_a", N(0)), E(Bin("do", Un("while", Code(E(Bin("<", Var("_a"), N(3))))), Code(Asg("_a", Bin("+", Var("_a"), N(1))), m(Var("_a")))))))
    t.append(Prog(E(Bin("do", Bin("to", Bin("from", Un("for", S("_i")), N(1)), N(4)), Code(m(Var("_i")))))))
    t.append(Prog(E(Bin("do", Bin("step", Bin("to", Bin("from", Un("for", S("_i")), N(5)), N(0)), N(-2)), Code(m(Var("_i")))))))
    t.append(Prog(E(Bin("forEach", Code(m(Arr(Var("_x"), Var("_forEachIndex")))), arr))))
    t.append(Prog(E(Bin("count", Code(m(Var("_x")), E(x_gt(2))), arr)), E(Un("count", arr))))
    t.append(Prog(E(Bin("select", arr, Code(m(Var("_x")), E(x_gt(2)))))))
    t.append(Prog(E(Bin("apply", arr, Code(m(Var("_x")), E(Bin("*", Var("_x"), N(2))))))))
    t.append(Prog(E(Bin("findIf", arr, Code(m(Var("_x")), E(x_gt(3)))))))
    for v in (1, 2, 3, 9):
        t.append(Prog(E(Bin("do", Un("switch", N(v)), Code(E(Bin(":", Un("case", N(1)), Code(m(), E(N(10))))), E(Un("case", N(2))),
                                                             E(Bin(":", Un("case", N(3)), Code(m(), E(N(30))))), E(Un("default", Code(m(), E(N(99))))))))))
    t.append(Prog(E(Bin("call", N(4), Code(m(Var("_this")), E(Bin("+", Var("_this"), N(1)))))), E(Un("call", Code(m(), E(N(2)))))))
    t.append(Prog(E(Bin("catch", Un("try", Code(m(), E(Un("throw", N(5))), m())), Code(m(Var("_exception")), E(Var("_exception")))))))
    t.append(Prog(E(Bin("catch", Un("try", Code(m(), E(Bin("throw", Un("if", B(True)), N(6))), m())), Code(m(Var("_exception")), E(N(1)))))))
    t.append(Prog(E(Un("call", Code(E(Un("scopeName", S("s1"))), m(), E(Un("call", Code(m(), E(Bin("breakOut", N(9), S("s1"))), m()))), m()))), m()))
    t.append(Prog(E(Un("call", Code(E(Un("scopeName", S("s1"))), m(), E(Un("call", Code(m(), E(Un("breakOut", S("s1"))), m()))), m()))), m()))
    for l in (True, False):
        t.append(Prog(E(Bin("&&", B(l), Code(m(), E(B(True))))), m(), E(Bin("||", B(l), Code(m(), E(B(False)))))))
        t.append(Prog(E(Bin("&&", Un("!", B(l)), Code(m(), E(Un("!", B(l)))))), m(), E(Bin("||", Un("!", B(l)), Code(m(), E(Un("!", B(l))))))))
    inner = Bin("&&", x_gt(3), Code(m(Var("_x")), E(Un("!", x_gt(4)))))
    t.append(Prog(E(Bin("select", arr, Code(E(Bin("||", Bin("<", Var("_x"), N(2)), Code(m(Var("_x")), E(inner)))))))))
    return t


def keyword_spelling_cases():
    """every template in every style of writing its operator names"""
    out = []
    for t in keyword_templates():
        seen = set()
        for _, f in STYLES:
            p = respell(t, f)
            if p not in seen:
                seen.add(p)
                out.append(p)
    return out


def limit_cases(rng, thorough):
    """while loops in unscheduled code that reach the iteration limit L (configuration max_loop_iterations_in_unscheduled, 10000 unless
    the host sets it): a round is one evaluation of the condition followed by one run of the body; the loop is left after the L-th
    round and yields what its last body yielded. The condition counts and reports its evaluations (a side effect), the body reports
    its runs; K is where the condition turns false by itself (K >= L: the limit cuts the loop).
    -> (program, L, expected markers, expected value or None when the reference semantics is asked instead)"""
    out = []
    Ls = [1, 2, 3, 5, 8] + ([13, 64, 10000] if thorough else [10000])
    for L in Ls:
        for K in sorted(set([L - 1, L, L + 1, L + 7, 99999]) - set([0, -1])):
            if L == 10000 and K not in (L, 99999):
                continue
            for shape in ("plain", "bodyless", "call", "foreach", "twice"):
                cond = Code(Asg("_c", Bin("+", Var("_c"), N(1))), E(Un("diag_log", Var("_c"))), E(Bin("<=", Var("_c"), N(K))))
                body = Code() if shape == "bodyless" else Code(E(Un("diag_log", Un("-", Var("_c")))), E(Bin("*", Var("_c"), N(2))))
                loop = Bin("do", Un("while", cond), body)
                rounds = min(K, L)
                evals = rounds if K >= L else K + 1
                one = []
                for i in range(1, rounds + 1):
                    one.append(str(i))
                    if shape != "bodyless":
                        one.append(str(-i))
                if evals > rounds:
                    one.append(str(evals))
                cut = K >= L
                val = (str(2 * rounds) if shape != "bodyless" else None) if cut else None
                if shape in ("plain", "bodyless"):
                    prog, marks = Prog(Asg("_c", N(0)), E(loop)), one
                elif shape == "call":
                    prog, marks = Prog(Asg("_c", N(0)), E(Un("call", Code(E(Un("diag_log", S("in"))), E(loop))))), ["in"] + one
                elif shape == "foreach":
                    if L == 10000:
                        continue
                    prog = Prog(E(Bin("foreach", Code(Asg("_c", N(0)), E(loop)), Arr(N(1), N(2)))), E(Un("diag_log", S("end"))))
                    marks, val = one + one + ["end"], None
                else:
                    if L == 10000:
                        continue
                    prog = Prog(Asg("_c", N(0)), E(loop), Asg("_c", N(0)), E(loop))
                    marks = one + one
                if shape == "bodyless" and not cut:
                    val = None
                out.append((prog, L, marks, val, cut))
    return out


def split_events(ev):
    """the event list of a final observation: 'l:c,' items and 'M<text>,' items (text may contain commas)"""
    out, i = [], 0
    while i < len(ev):
        if ev.startswith("M<", i):
            j = ev.find(">,", i)
            if j < 0:
                out.append(ev[i:]); break
            out.append(ev[i:j + 1]); i = j + 2
        else:
            j = ev.find(",", i)
            if j < 0:
                out.append(ev[i:]); break
            out.append(ev[i:j]); i = j + 1
    return out


def norm_impl(final):
    """(class, markers, value) from the harness' final observation"""
    f = final.split(":", 2)
    if len(f) < 3:
        return ("BAD", [], None)
    res, state, ev = f
    marks, value, err = [], None, False
    for tok in split_events(ev):
        if tok.startswith("M<VALUE "):
            value = tok[8:-1]
        elif tok.startswith("M<"):
            marks.append(tok[2:-1])
        else:
            lc = tok.split(":")
            if len(lc) == 2 and lc[0] in ("0", "1"):
                err = True
    cls = "ERR" if (res == "2" or err) else ("OK" if res in ("-1", "0") else "BAD")
    return (cls, marks, value)


def norm_ref(obs):
    if obs.startswith("OK:"):
        body = obs[3:]
        i = body.rfind("V<")
        marks = [m[2:] for m in body[:i].split(">,") if m.startswith("M<")]
        return ("OK", marks, body[i + 2:-1])
    if obs.startswith("ERR:") or obs.startswith("BREAK:"):
        body = obs.split(":", 1)[1]
        return (obs.split(":")[0], [m[2:] for m in body.split(">,") if m.startswith("M<")], None)
    return (obs.split(" ")[0], [], None)


def main(replay=None):
    run = V.Run(PID, "proof")
    rng = run.rng
    thorough = run.tier == "thorough"
    problems = run.prove()
    himpl, drv = M.build()
    rdrv = V.ocaml_driver("ref")
    g = Gen2(rng)
    cases = []
    if replay:
        if "limit" not in json.load(open(replay))["replay"]:
            cases.append(("replay", json.load(open(replay))["replay"]["prog"]))
    else:
        cdir = os.path.join(V.VERIF, "corpus", PID)
        if os.path.isdir(cdir):
            for fn in sorted(os.listdir(cdir)):
                cases.append(("corpus:" + fn, json.load(open(os.path.join(cdir, fn)))["prog"]))
        # the operators in every spelling (synonyms, letter cases): small programs first, their replays are the shortest
        for p in lazy_spelling_cases():
            cases.append(("lazy-spelling", p))
        for p in keyword_spelling_cases():
            cases.append(("keyword-spelling", p))
        styles = [f for _, f in STYLES if f not in (style_syn, style_syn_upper)]
        for _ in range(40000 if thorough else 4000):
            p = g.program(depth=rng.choice([2, 3, 3, 4]), length=rng.choice([2, 3, 5]))
            if rng.random() < 0.15:
                # the whole program with its operator names in other letters, each name in a style of its own
                cases.append(("random-respelled", respell(p, lambda a, n: rng.choice(styles)(a, n))))
            else:
                cases.append(("random", p))
    progs = [c[1] for c in cases]
    res = M.run_programs(himpl, drv, progs)
    rc, rout, err = V.run_lines_parallel([rdrv], ["4000\t" + for_reference(p) for p in progs], timeout=3000)
    kinds, distinct, samples, nref_unsup, ndis, nvm_unsup = {}, set(), [], 0, 0, 0
    constructs, nnot = {}, 0
    for (kind, prog), d, ro in zip(cases, res, rout):
        kinds[kind.split(":")[0]] = kinds.get(kind.split(":")[0], 0) + 1
        rf = ro.split("\t")
        if d.get("text") is None or len(rf) != 2:
            run.violation("driver failed on a generated program (machinery)", {"prog": prog, "ref_raw": ro[:200]}, found_input=False)
            continue
        robs = rf[1]
        rep = {"kind": kind, "prog": prog, "text": d["text"], "impl_final": d["i_final"][:800], "ref": robs[:800], "model_final": d["m_final"][:800]}
        icls, imarks, ival = norm_impl(d["i_final"])
        if d["i_final"].startswith(("CRASH", "TIMEOUT", "OOM", "EXCEPTION")):
            run.violation("implementation crashed or hung: " + d["i_final"][:80], rep)
            continue
        # ---- the property: implementation vs reference semantics
        rcls, rmarks, rval = norm_ref(robs)
        if rcls == "BREAK":
            rcls = "ERR"             # breakOut to a scope that does not exist: an error at that statement
        if rcls in ("UNSUPPORTED", "FUEL"):
            nref_unsup += 1          # outside the reference fragment (e.g. breakOut to a scope that does not exist)
        else:
            for w in ("foreach", "for ", "while", "count", "apply", "select", "findif", "switch", "exitwith", "breakout", "try", "call", "&&", "||", " and ", " or ",
                      "(not ", "then"):
                if w in d["text"].lower():
                    constructs[w.strip(" (")] = constructs.get(w.strip(" ("), 0) + 1
            distinct.add(d["text"])
            if len(samples) < 4:
                samples.append({"text": d["text"][:400], "impl": d["i_final"][:300], "ref": robs[:300]})
            bad = None
            if icls != rcls:
                bad = "outcome class: implementation %s, reference %s" % (icls, rcls)
            elif imarks != rmarks:
                bad = "the sequence of executed statements differs: implementation %s, reference %s" % (imarks[:30], rmarks[:30])
            elif rcls == "OK" and ival is not None and rval != ival:
                bad = "value of the program: implementation %s, reference %s" % (ival, rval)
            elif rcls == "OK" and ival is None and rval not in ("-",):
                bad = "the program yields no value, the reference yields %s" % rval
            if bad:
                run.violation("control structures do not follow the reference semantics: " + bad, rep)
                continue
        # ---- correspondence: VM model vs implementation
        if "(not " in d["text"].lower():
            nnot += 1                # the VM model has `!` but not its synonym `not`: judged against the reference semantics only (above)
            continue
        if "UNSUPPORTED" in d["m_trace"] or "UNSUPPORTED" in d["m_final"]:
            nvm_unsup += 1
            continue
        diffs = [k for k in ("listing", "trace", "final") if d["m_" + k] != d["i_" + k]]
        if diffs:
            ndis += 1
            rep["broken"] = "correspondence VM model (VmDefs.v/VmExec.v) vs implementation: " + ",".join(diffs)
            run.violation("implementation and VM model disagree (%s); the reference semantics is met on this input" % ",".join(diffs), rep, found_input=False)
    # ---- while loops against the iteration limit of unscheduled code (the reference semantics has no limit: a loop the limit does not
    # cut is asked of it as well, a loop that is cut has its rounds counted here)
    nlimit = 0
    if not replay or "limit" in json.load(open(replay))["replay"]:
        lcases = limit_cases(rng, thorough)
        if replay:
            r0 = json.load(open(replay))["replay"]
            lcases = [(r0["prog"], r0["limit"], r0["expected_markers"], r0["expected_value"], r0["cut"])]
        byL = {}
        for c in lcases:
            byL.setdefault(c[1], []).append(c)
        for L, cs in sorted(byL.items()):
            lres = M.run_programs(himpl, drv, [c[0] for c in cs], max_loop=L)
            rc, lref, err = V.run_lines_parallel([rdrv], ["400000\t" + c[0] for c in cs if not c[4]], timeout=3000)
            lref = iter(lref)
            for (prog, L_, marks, val, cut), d in zip(cs, lres):
                nlimit += 1
                if d.get("text") is None:
                    run.violation("driver failed on a limit program (machinery)", {"prog": prog}, found_input=False)
                    continue
                icls, imarks, ival = norm_impl(d["i_final"])
                rep = {"kind": "limit", "prog": prog, "text": d["text"], "limit": L, "expected_markers": marks, "expected_value": val, "cut": cut,
                       "impl_final": d["i_final"][:600] + " ... " + d["i_final"][-300:]}
                if d["i_final"].startswith(("CRASH", "TIMEOUT", "OOM", "EXCEPTION")):
                    run.violation("implementation crashed or hung: " + d["i_final"][:80], rep)
                    continue
                bad = None
                if not cut:
                    rcls, rmarks, rval = norm_ref(next(lref).split("\t")[-1])
                    if rcls != "OK" or rmarks != marks:
                        run.violation("the round counter of the check and the reference semantics disagree on a loop the limit does not cut (machinery)",
                                      dict(rep, ref=(rcls, rmarks[:20])), found_input=False)
                        continue
                    val = rval if rval != "-" else None
                if icls != "OK":
                    bad = "outcome class %s" % icls
                elif imarks != marks:
                    i = next((k for k, (x, y) in enumerate(zip(imarks, marks)) if x != y), min(len(imarks), len(marks)))
                    bad = ("the sequence of executed statements differs at event %d of %d (expected %d): implementation ...%s, expected ...%s"
                           % (i, len(imarks), len(marks), imarks[max(0, i - 2):i + 3], marks[max(0, i - 2):i + 3]))
                elif val is not None and ival != val:
                    bad = "value of the loop: implementation %s, expected %s (what its last body yielded)" % (ival, val)
                if bad:
                    run.violation("while loop with iteration limit %d (%s): %s" % (L, "cut by the limit" if cut else "ends by itself", bad), rep)
                    continue
                diffs = [k for k in ("listing", "trace", "final") if d["m_" + k] != d["i_" + k]]
                if diffs and "UNSUPPORTED" not in d["m_trace"] and "UNSUPPORTED" not in d["m_final"]:
                    rep["broken"] = "correspondence VM model (VmDefs.v/VmExec.v) vs implementation: " + ",".join(diffs)
                    run.violation("implementation and VM model disagree (%s) on a loop at its iteration limit" % ",".join(diffs), rep, found_input=False)
    kinds["limit"] = nlimit
    for p in problems:
        run.violation("proof obligation not discharged: " + p, {"broken": p, "theorems": run.cov["theorems"]}, found_input=False)
    run.cov["evaluations"] = len(cases) + nlimit
    run.cov["distinct_nontrivial"] = len(distinct)
    run.cov["rule"] = ("random programs nesting if/then/else, exitWith, while, for (incl. negative step), forEach, count/select/apply/findIf with code, "
                       "switch (fall-through, default), call, try/catch/throw, scopeName/breakOut (with and without value), lazy &&/|| to depth 2-4, "
                       "with early exits placed inside loop bodies, nested scopes and handlers; each program runs on the implementation and through "
                       "the extracted reference semantics RefSem.run_ref; compared: outcome class, the sequence of diag_log markers, the value of the "
                       "program; non-trivial = inside the reference fragment, distinct by program text; plus while loops against the iteration limit of "
                       "unscheduled code (limits 1..8 and the default 10000, the condition turning false before / at / after the limit, plain, without body, "
                       "in call, in forEach, twice in a row): rounds and evaluations of the condition counted, value = what the last body yielded"
                       "; plus the spellings of the operators (each synonym is a table entry of its own, names are matched without regard to letter "
                       "case): lazy-spelling = BOOL op BOOL / BOOL op CODE for op in && / || / every letter case of `and` / `or` (14 spellings), each truth "
                       "value on the left, on the right a boolean or a block that reports its run and yields true / false / a comparison / a number / "
                       "nothing, as a value and as the condition of if-then-else, exitWith, throw, while, count, select, findIf, apply, forEach; nested "
                       "in the right block and chained on the left with && / and / || / or; under ! and every letter case of `not`; keyword-spelling = "
                       "one program per construct of the property with all its operator names as documented / lower / UPPER / Capitalised / "
                       "alternating / synonyms; random-respelled = 15 % of the random programs with every operator name in a letter case of its own, "
                       "and the conditions of all random programs write the lazy operators as symbol or word. Oracle of these families: the extracted "
                       "reference semantics RefSem.run_ref on the same program (it lower-cases names and has `and` / `or`; a `not` is put to it as `!` - "
                       "for that synonym the oracle is the rule 'a synonym means the same', the VM model does not have it and those programs are not "
                       "compared with the VM model)")
    run.cov["input_distribution"] = kinds
    run.cov["constructs_exercised"] = constructs
    run.cov["outside_reference_fragment"] = nref_unsup
    run.cov["unsupported_by_vm_model"] = nvm_unsup
    run.cov["spelled_not_judged_by_reference_only"] = nnot
    run.cov["operator_spellings"] = {"&&": LAZY_AND, "||": LAZY_OR, "!": NOTS, "styles": [n for n, _ in STYLES]}
    run.cov["disagreements_checked"] = ndis
    run.cov["samples"] = samples
    run.cov["trusted_base"] = ["Coq 8.16.1 kernel", "ExtrOcamlBasic extraction + ocaml/ref_driver.ml, ocaml/vm_driver.ml", "harness/h_vm.cpp",
                               "checks/vmcommon.py generator", "the reference semantics RefSem.v is the reading of the property text (DESIGN.md Appendix A for silent cases)"]
    return run.finish()
