"""C05 - operand stack partitioned per scope; a scope yields exactly one value."""
import json, os
import vcommon as V
import vmcommon as M
import schedcommon as SC
from vmcommon import N, B, S, Var, Arr, Code, Nul, Un, Bin, E, Asg, Loc, Prog

PID = "C05"


class Gen5(M.Gen):
    """programs that embed a construct in a half-built array / binary operand, so that a leaked, stolen or
    missing operand changes a printed value"""

    def inner(self, depth):
        r = self.rng
        k = r.randint(0, 19)
        blk = lambda *ss: Code(*ss)
        # an operand expression that yields NO value: a unary operator on nil only warns and pushes nothing
        void = lambda: Un(r.choice(["str", "count"]), Var("_undef%d" % r.randint(1, 3)))
        if k == 12:  # a called block whose own array literal is short of 1..3 operands, while the caller holds pending ones
            m = r.randint(1, 3)
            els = [void() for _ in range(m)] + [N(7)] * r.randint(0, 1)
            r.shuffle(els)
            return Un("call", blk(E(Arr(*els))))
        if k == 13:  # the same inside other scope kinds
            short = blk(E(Arr(void(), void())), *( [E(N(3))] if r.random() < 0.3 else [] ))
            return r.choice([Bin("then", Un("if", B(True)), short), Bin("apply", Arr(N(1), N(2)), short),
                             Bin("call", N(1), short), Bin("catch", Un("try", short), blk(E(N(0))))])
        if k == 14:  # a binary / unary operator inside a called block that finds no operand in its own scope
            return Un("call", blk(E(r.choice([Bin("+", void(), void()), Bin("+", N(1), void()), Un("count", void())]))))
        if k == 17:   # a try block left by a throw that crosses a scope, with an EMPTY handler: one value (nil), pending operands intact
            thrower = Un("call", blk(E(N(2)), E(Un("throw", N(5)))))
            return Bin("catch", Un("try", blk(E(Arr(N(1), thrower)) if r.random() < 0.5 else E(Bin("+", N(40), thrower)))), blk())
        if k == 18:   # loops with an EMPTY body that go round more than once, used as an operand
            n = r.randint(2, 4)
            return r.choice([Bin("forEach", blk(), Arr(*[N(i) for i in range(n)])),
                             Bin("do", Bin("to", Bin("from", Un("for", S("_q")), N(0)), N(n)), blk()),
                             Bin("count", blk(), Arr(*[N(i) for i in range(n)])),
                             Bin("apply", Arr(*[N(i) for i in range(n)]), blk())])
        if k == 19:   # other empty blocks: then {}, exitWith {}, call {}, an empty except__ handler
            return r.choice([Bin("then", Un("if", B(True)), blk()), Un("call", blk()), Bin("call", N(1), blk()),
                             Un("call", blk(E(Bin("exitWith", Un("if", B(True)), blk())), E(N(5)))),
                             Bin("except__", blk(E(Arr(N(1), Bin("select", Arr(), N(3))))), blk()),
                             Bin("then", Un("if", B(False)), Bin("else", blk(E(N(1))), blk()))])
        if k in (15, 16):   # a while loop whose body ends in a value (the loop itself yields nil); k == 16: a statement of the condition is short
            # of an operand, so that a value left over from the body's last round would be taken for it
            lim = r.randint(1, 3)
            cond = [E(Bin("<", Var("_w"), N(lim)))]
            if k == 16:
                cond = [Loc("_p", void()), E(Un("diag_log", Arr(S("p"), Var("_p"))))] + cond
            loop = Bin("do", Un("while", blk(*cond)), blk(Asg("_w", Bin("+", Var("_w"), N(1))), E(Arr(Var("_w"), N(9)))))
            return Un("call", blk(Loc("_w", N(0)), E(loop)))
        if k == 0:   # block leaving extra values, last statement an expression
            return Un("call", blk(E(Arr(N(8), N(9))), E(N(r.randint(0, 9)))))
        if k == 1:   # block ending in an assignment: yields nil
            return Un("call", blk(Asg("ga", N(1)), Asg("gb", N(2))))
        if k == 2:   # exitWith inside the called block
            return Un("call", blk(E(Bin("exitWith", Un("if", B(r.random() < 0.7)), blk(E(N(4))))), E(N(5))))
        if k == 3:   # breakOut with value across two scopes, with pending operands in the abandoned scopes
            return Un("call", blk(E(Un("scopeName", S("s"))), E(Arr(N(2), Un("call", blk(E(Arr(N(6), Bin("breakOut", N(7), S("s")))))))), E(N(0))))
        if k == 4:   # breakOut without value
            return Un("call", blk(E(Un("scopeName", S("s"))), E(Arr(N(2), Un("breakOut", S("s")))), E(N(0))))
        if k == 5:   # throw caught inside, pending operands in the thrower
            thrower = Un("call", blk(E(N(2)), E(Un("throw", N(5)))))
            return Bin("catch", Un("try", blk(E(Arr(N(1), thrower)))), blk(E(Var("_exception"))))
        if k == 6:   # runtime error caught inside
            return Bin("except__", blk(E(Arr(N(1), Bin("select", Arr(), N(3))))), blk(E(N(6))))
        if k == 7:   # iteration constructs
            return Bin(r.choice(["apply", "select"]), Arr(N(1), N(2), N(3)),
                       blk(E(Arr(N(9), Var("_x"))), E(Bin("<", Var("_x"), N(3))) if r.random() < 0.5 else E(Bin("*", Var("_x"), N(2)))))
        if k == 8:
            return Bin("count", blk(E(Arr(N(9), N(9))), E(Bin(">", Var("_x"), N(1)))), Arr(N(1), N(2), N(3)))
        if k == 9:   # if-then-else with blocks of different shapes
            return Bin("then", Un("if", B(r.random() < 0.5)), Bin("else", blk(E(N(1)), E(N(2))), blk(Asg("ga", N(3)))))
        if k == 10:  # switch
            return Bin("do", Un("switch", N(r.randint(1, 3))), blk(E(Bin(":", Un("case", N(1)), blk(E(Arr(N(5))), E(N(11))))),
                                                                       E(Un("default", blk(E(N(12)))))))
        return self.construct_value(depth)

    def valued(self):
        """a construct whose one contributed value the property names: a guarded block that fails (runtime error or throw) zero, one
        or two scopes below its own, with operands pending in every abandoned scope, and a handler that is empty, ends in an assignment
        (both: nil) or ends in a value"""
        r = self.rng
        blk = lambda *ss: Code(*ss)
        thrown = r.random() < 0.4
        fault = Un("throw", N(5)) if thrown else r.choice([Bin("select", Arr(), N(3)), Bin("+", N(1), S("a"))])
        depth = r.randint(0, 2)
        e = fault
        for lvl in range(depth):
            pend = N(300 - 100 * lvl)
            e = Un("call", blk(E(N(2)), E(Arr(pend, e)) if r.random() < 0.5 else E(Bin("+", pend, e))))
        body = blk(E(Arr(N(1), e)) if r.random() < 0.5 else E(Bin("+", N(100), e)))
        hk = r.randint(0, 3)
        if hk == 0: handler, val = blk(), ""           # diag_log prints nil inside an array as nothing
        elif hk == 1: handler, val = blk(Asg("ga", N(1))), ""
        elif hk == 2: handler, val = blk(E(N(6))), "6"
        else: handler, val = blk(E(Arr(N(8), N(9))), E(N(7))), "7"
        if thrown:
            return Bin("catch", Un("try", body), handler), val
        return Bin("except__", body, handler), val

    def embedded(self, depth=2):
        r = self.rng
        a, b = r.randint(10, 19), r.randint(20, 29)
        k = r.random()
        if r.random() < 0.12:
            inner, val = self.valued()
            return ("array3v", (a, b, val), Prog(E(Un("diag_log", Arr(N(a), inner, N(b))))))
        inner = self.inner(depth)
        if k < 0.6:
            st = E(Un("diag_log", Arr(N(a), inner, N(b))))
            if r.random() < 0.25:   # the same in a scheduled script (some behaviours take another path when the script can suspend)
                return ("array3", (a, b), Prog(E(Bin("spawn", N(0), Code(st))), E(N(0))))
            return ("array3", (a, b), Prog(st))
        if k < 0.8:   # nested: the construct sits in an inner array inside an outer one
            return ("array3n", (a, b), Prog(E(Un("diag_log", Arr(N(a), Arr(N(1), inner), N(b))))))
        # pending left operand of a binary operator
        return ("sum", (a,), Prog(E(Un("diag_log", Arr(Bin("+", N(a), Un("count", Arr(inner, N(0)))))))))

    def valueless_block(self, nmin=2, nmax=4, xvar=False):
        """the statements of a block of nmin..nmax statements whose LAST statement leaves no value (an assignment, a private
        assignment); the earlier ones are of any kind: markers, assignments, expressions that leave one or several values (also `true`,
        which the construct would accept - the separator has dropped it)"""
        r = self.rng
        ss = []
        for _ in range(r.randint(nmin, nmax) - 1):
            k = r.randint(0, 5)
            if k == 0: ss.append(self.mark())
            elif k == 1: ss.append(Asg(r.choice(["gv", "_y"]), N(r.randint(0, 9))))
            elif k == 2: ss.append(E(Arr(N(8), N(9))))
            elif k == 3: ss.append(E(N(r.randint(0, 9))))
            elif k == 4: ss.append(E(B(True)))
            else: ss.append(Loc("_p", Arr(N(3))))
        ss.append(r.choice([Asg("gw", N(r.randint(0, 9))), Asg("_z", Var("_x") if xvar else N(1)), Loc("_q", N(2))]))
        return ss

    def pending(self, inner):
        """the construct as one operand of a half-built expression; (a, b, program): printed as [a, <value>, b]"""
        r = self.rng
        a, b = r.randint(10, 19), r.randint(20, 29)
        k = r.random()
        if k < 0.2:
            st = E(Un("diag_log", Arr(N(a), Un("call", Code(E(Arr(N(1), N(2))), E(inner))), N(b))))
        else:
            st = E(Un("diag_log", Arr(N(a), inner, N(b))))
        if 0.2 <= k < 0.4:
            return a, b, [E(Bin("spawn", N(0), Code(st))), E(N(0))]
        return a, b, [st]

    CONFIG_TEXT = "class R { class A {}; class B { class C {}; }; class D {}; };"
    CONFIG_CONDS = ["gv = 1; gw = 2", "diag_log 5; _z = _x", "true; private _q = 2", "[8, 9]; gv = 3; gw = 4", "_y = configName _x; _z = 1"]

    def noval(self):
        """a block of several statements whose last statement leaves no value, as the body a construct with an exit behaviour takes a
        value from (isNil, apply, count, select, findIf, the condition of while, waitUntil, configClasses, configProperties) or merely
        ends (forEach), inside pending operands.  The property names the value the construct sees: nil.  The oracle is the same program
        with an explicit `nil` as last statement of that block (info[2]): both must behave alike."""
        r = self.rng
        k = r.randint(0, 10)
        arr = Arr(*[N(i) for i in range(1, r.randint(1, 3) + 1)])
        pre = []
        if k >= 9:
            src = r.choice(self.CONFIG_CONDS)
            cfg = Bin(">>", Nul("configFile"), S("R"))
            pre = [E(Un("configparse__", S(self.CONFIG_TEXT)))]
            if k == 9: mk = lambda t: Bin("configClasses", S(t), cfg)
            else: mk = lambda t: Un("configProperties", Arr(cfg, S(t)))
            subj, twin = mk(src), mk(src + "; nil")
        else:
            ss = self.valueless_block(xvar=k in (1, 2, 3, 4, 5))
            if k == 0: mk = lambda blk: Un("isNil", blk)
            elif k == 1: mk = lambda blk: Bin("apply", arr, blk)
            elif k == 2: mk = lambda blk: Bin("count", blk, arr)
            elif k == 3: mk = lambda blk: Bin("select", arr, blk)
            elif k == 4: mk = lambda blk: Bin("findIf", arr, blk)
            elif k == 5: mk = lambda blk: Bin("forEach", blk, arr)
            elif k == 6: mk = lambda blk: Bin("do", Un("while", blk), Code(self.mark(S("body"))))
            elif k == 7: mk = lambda blk: Un("waitUntil", blk)
            else:        # the body of a loop that goes round, and whose last round decides: the value-less block is the inner one
                mk = lambda blk: Bin("apply", arr, Code(E(Un("isNil", blk))))
            subj, twin = mk(Code(*ss)), mk(Code(*(ss + [E(Nul("nil"))])))
        st = self.rng.getstate()
        a, b, body = self.pending(subj)
        self.rng.setstate(st)
        _, _, tbody = self.pending(twin)
        # the config operators are outside the modelled fragment (the model knows no configparse__): implementation and twin only
        return ("novalcfg" if pre else "noval", (a, b, Prog(*(pre + tbody))), Prog(*(pre + body)))

    def leftover(self):
        """a handler / case block / exitWith block of 2-4 statements that ends in a value-less statement (the construct contributes
        nil) or in a value, entered while the frame that runs it - or the frames abandoned on the way - still hold 2-3 operands of the
        abandoned expression: none of them may surface as the block's value, whatever the separators of the block do"""
        r = self.rng
        blk = lambda *ss: Code(*ss)
        hs = self.valueless_block()
        val = ""
        if r.random() < 0.3:
            val = str(r.randint(30, 39)); hs = hs + [E(N(int(val)))]
        H = blk(*hs)
        pend = [N(p) for p in r.sample([111, 222, 333], r.randint(2, 3))]
        def hold(e):      # e as the last operand of an expression that has 2-3 operands pending when e runs
            if r.random() < 0.6:
                return Arr(*(pend + [e]))
            x = e
            for p in reversed(pend):
                x = Bin("+", p, x)
            return x
        k = r.randint(0, 4)
        if k == 0:      # throw from a nested frame (1-2 calls deep, the intermediate scope with pending operands of its own or not)
            t = Un("throw", S("x"))
            for lvl in range(r.randint(1, 2)):
                t = Un("call", blk(E(t))) if r.random() < 0.6 else Un("call", blk(E(N(2)), E(Arr(N(444), t))))
            inner = Bin("catch", Un("try", blk(E(hold(t)))), H)
        elif k == 1:    # a case label evaluated inside an expression of the switch body
            inner = Bin("do", Un("switch", N(1)), blk(E(hold(Bin(":", Un("case", N(1)), H)))))
        elif k == 2:    # exitWith inside an expression of a called block
            inner = Un("call", blk(E(hold(Bin("exitWith", Un("if", B(True)), H))), E(N(5))))
        elif k == 3:    # a runtime error 0-1 scopes below the guarded block
            f = Bin("select", Arr(N(1)), N(7))
            if r.random() < 0.5: f = Un("call", blk(E(f)))
            inner = Bin("except__", blk(E(hold(f))), H)
        else:           # throw directly in the try block
            inner = Bin("catch", Un("try", blk(E(hold(Un("throw", S("x")))))), H)
        a, b, body = self.pending(inner)
        return ("array3v", (a, b, val), Prog(*body))

    def looping(self):
        r = self.rng
        n = r.choice([40, 120, 300])
        k = r.randint(0, 3)
        body = Code(E(Arr(Var("_i"), N(1), N(2))), Asg("ga", Bin("+", Var("_i"), N(1))))
        if k == 0:
            return Prog(E(Bin("do", Bin("to", Bin("from", Un("for", S("_i")), N(0)), N(n)), body)))
        if k == 1:
            return Prog(Loc("_i", N(0)), E(Bin("do", Un("while", Code(E(Bin("<", Var("_i"), N(n))))),
                                             Code(E(Arr(N(1), N(2))), Asg("_i", Bin("+", Var("_i"), N(1)))))))
        if k == 2:
            return Prog(E(Bin("forEach", Code(E(Arr(Var("_x"), N(1))), E(Arr(N(2)))), Arr(*[N(i % 7) for i in range(min(n, 120))]))))
        return Prog(E(Bin("count", Code(E(Arr(N(1), N(2))), E(B(True))), Arr(*[N(i % 7) for i in range(min(n, 120))]))))


def split_top(s):
    """top-level comma split of '[a,b,c]' -> list of element texts (None if not an array text)"""
    if not (s.startswith("[") and s.endswith("]")):
        return None
    out, depth, cur = [], 0, ""
    inner = s[1:-1]
    if inner == "":
        return []
    for ch in inner:     # diag_log prints strings raw; the generator's strings hold no commas or brackets
        if ch == "[":
            depth += 1
        elif ch == "]":
            depth -= 1
        elif ch == "," and depth == 0:
            out.append(cur); cur = ""; continue
        cur += ch
    out.append(cur)
    return out


def trace_invariant(trace):
    """the partition invariant evaluated on the implementation's own stack after every assembly_step"""
    mx = 0
    for n, ob in enumerate(trace.split("|")):
        f = ob.split(":")
        if len(f) != 4 or f[2] == "-":
            continue
        try:
            height = int(f[2])
        except ValueError:
            continue
        frames = [x for x in f[3].split(",") if x]
        bases = []
        for fr in frames:
            p = fr.split("/")
            if len(p) == 2:
                bases.append(int(p[1]))
        if len(bases) >= 2:
            mx = max(mx, height - bases[0])      # size of the current inner scope's region
        if bases and bases[0] > height:
            return "step %d: base of the current scope (%d) above the stack height (%d)" % (n, bases[0], height), mx
        for x, y in zip(bases, bases[1:]):
            if y > x:
                return "step %d: frame bases increase downwards %s" % (n, bases), mx
    return None, mx



# ---------------------------------------------------------------- a terminated script yields no value
def _dl(x):
    return M.E(M.Un("diag_log", x))


def _wait(d):
    """call { sleep d; 0 } - the script goes to sleep inside a nested scope"""
    return M.Un("call", M.Code(M.E(M.Un("sleep", M.N(d))), M.E(M.N(0))))


def victim_bodies():
    """name -> (statements of the victim, operands that are pending in enclosing scopes when it sleeps).
    Marker 101 is logged before the sleep, 199 would be logged after it (never, the script is terminated)."""
    N, Bin, Un, Code, E, Asg, Arr = M.N, M.Bin, M.Un, M.Code, M.E, M.Asg, M.Arr
    b = {}
    b["statement_level"] = ([_dl(N(101)), E(_wait(5)), _dl(N(199))], [])
    b["sum_depth1"] = ([_dl(N(101)), Asg("_s", Bin("+", Bin("+", N(4040), N(2)), _wait(5))), _dl(N(199))], [4042])
    b["sum_depth2"] = ([_dl(N(101)), Asg("_s", Bin("+", N(4100), Un("call", Code(E(Bin("+", N(4200), _wait(5))))))), _dl(N(199))], [4100, 4200])
    b["array_depth3"] = ([_dl(N(101)), Asg("_s", Arr(N(4301), Un("call", Code(E(Arr(N(4302), Un("call", Code(E(Bin("+", N(4303), _wait(5))))))))))),
                          _dl(N(199))], [4301, 4302, 4303])
    b["if_then"] = ([_dl(N(101)), E(Bin("then", Un("if", M.B(True)), Code(Asg("_s", Bin("+", N(4400), _wait(5)))))), _dl(N(199))], [4400])
    b["foreach"] = ([_dl(N(101)), E(Bin("forEach", Code(Asg("_t", Bin("+", Bin("+", M.Var("_x"), N(4500)), _wait(5)))), Arr(N(7)))), _dl(N(199))], [4507])
    b["array_two_pending"] = ([_dl(N(101)), Asg("_s", Arr(N(4601), N(4602), _wait(5))), _dl(N(199))], [4601, 4602])
    b["fnc_in_global"] = ([_dl(N(101)), Asg("_s", Bin("+", Bin("+", N(4740), N(2)), Un("call", M.Var("fnc_wait")))), _dl(N(199))], [4742])
    return b


def terminated_cases():
    """histories: the victim is spawned and sleeps inside nested scopes with pending operands; another spawned script (after a
    sleep of 1 or 2 s) or the main script (in its second slice) terminates it; a bystander runs to its end with a value of its own.
    Expected: the scripts that ran to their end report their value once, the victim reports none and logs nothing after its sleep."""
    N, Bin, Un, Code, E, Asg = M.N, M.Bin, M.Un, M.Code, M.E, M.Asg
    out = []
    for name, (body, pending) in sorted(victim_bodies().items()):
        for killer in ("script_after_1s", "script_after_2s", "main_second_slice", "victim_itself_then_sleep"):
            stmts = [Asg("fnc_wait", Code(E(Un("sleep", N(5))), E(N(0))))]
            expect = []
            if killer == "victim_itself_then_sleep":
                vb = [E(Un("terminate", M.Var("_thisScript")))] + body
            else:
                vb = body
            stmts.append(Asg("hv", Bin("spawn", N(0), Code(*vb))))
            stmts.append(E(Bin("spawn", N(0), Code(_dl(N(801)), E(Un("sleep", N(1))), _dl(N(802)), E(N(33))))))    # bystander
            expect.append("33")
            if killer.startswith("script_after"):
                d = 1 if killer.endswith("1s") else 2
                stmts.append(E(Bin("spawn", N(0), Code(E(Un("sleep", N(d))), E(Un("terminate", M.Var("hv"))), _dl(N(901)), E(N(55))))))
                expect.append("55")
            elif killer == "main_second_slice":
                stmts += [_dl(N(1000 + k)) for k in range(60)]      # more than one slice of the main script
                stmts.append(E(Un("terminate", M.Var("hv"))))
            stmts.append(E(N(0)))
            expect.append("0")
            out.append(("terminated:%s:%s" % (name, killer), [("L", M.Prog(*stmts)), ("S",)], sorted(expect), pending, False))
    # the failure path of evaluate_expression (the preprocessor's __EVAL): operands of enclosing scopes are pending when the
    # expression fails; nothing of it may be reported when the scheduler collects the evaluation context in the next run
    for name, text, pending in (("sum", "4801 + (call { 4802 + ([1] select 7) })", [4801, 4802]),
                                ("array", "[4811, call { [4812, [1] select 7] }]", [4811, 4812])):
        out.append(("eval_fails:" + name, [("E", text), ("L", M.Prog(_dl(N(601)), E(N(66)))), ("S",)], ["66"], pending, True))
    return out


def dropped_values(obs):
    return sorted(m[len("VALUE "):] for m in SC.markers(obs) if m.startswith("VALUE "))


def main(replay=None):
    run = V.Run(PID, "proof")
    rng = run.rng
    thorough = run.tier == "thorough"
    problems = run.prove()
    himpl, drv = M.build()
    g = Gen5(rng)
    cases = []   # (kind, info, prog)
    if replay:
        r = json.load(open(replay))["replay"]
        cases.append((r.get("kind", "replay"), tuple(r.get("info", ())), r["prog"]))
    else:
        cdir = os.path.join(V.VERIF, "corpus", PID)
        if os.path.isdir(cdir):
            for fn in sorted(os.listdir(cdir)):
                r = json.load(open(os.path.join(cdir, fn)))
                cases.append((r["kind"], tuple(r.get("info", ())), r["prog"]))
        for _ in range(12000 if thorough else 1500):
            cases.append(g.embedded())
        for _ in range(6000 if thorough else 800):
            cases.append(("random", (), g.program()))
        for _ in range(60 if thorough else 12):
            cases.append(("loop", (), g.looping()))
        for _ in range(4000 if thorough else 260):
            cases.append(g.noval())
        for _ in range(4000 if thorough else 260):
            cases.append(g.leftover())
    res = M.run_programs(himpl, drv, [c[2] for c in cases])
    twin_progs = sorted(set(c[1][2] for c in cases if c[0].startswith("noval") and len(c[1]) == 3))
    twins = dict(zip(twin_progs, M.run_programs(himpl, drv, twin_progs))) if twin_progs else {}
    kinds, distinct, samples, nunsup, ndis = {}, set(), [], 0, 0
    for (kind, info, prog), d in zip(cases, res):
        kinds[kind] = kinds.get(kind, 0) + 1
        if d.get("text") is None:
            run.violation("model driver failed on a generated program (machinery)", {"kind": kind, "prog": prog, "raw": d.get("model_raw", "")[:300]}, found_input=False)
            continue
        rep = {"kind": kind, "info": list(info), "prog": prog, "text": d["text"], "impl_final": d["i_final"][:600], "model_final": d["m_final"][:600]}
        if len(samples) < 5 and kind not in [s["kind"] for s in samples]:
            samples.append({"kind": kind, "text": d["text"][:300], "impl_final": d["i_final"][:200], "steps": d["i_trace"].count("|") + 1})
        # ---- property oracle 1: the invariant on the real stack, at every instruction boundary
        why, mx = trace_invariant(d["i_trace"])
        if why:
            run.violation("partition invariant broken on the implementation: " + why, rep)
            continue
        if d["i_trace"].startswith(("CRASH", "TIMEOUT", "OOM", "EXCEPTION")) or d["i_final"].startswith(("CRASH", "TIMEOUT", "OOM", "EXCEPTION")):
            run.violation("implementation crashed or hung: " + d["i_final"][:80], rep)
            continue
        # ---- property oracle 1a: a block whose last statement leaves no value yields nil to the construct that ends it - the same
        # program with an explicit `nil` as the block's last statement is the reference
        if kind.startswith("noval"):
            tw = twins.get(info[2]) if len(info) == 3 else None
            if tw is None or tw.get("text") is None:
                run.violation("the twin of a value-less block was not run (machinery)", rep, found_input=False)
                continue
            rep["twin_text"], rep["twin_impl_final"] = tw["text"], tw["i_final"][:600]
            if tw["i_final"].startswith(("CRASH", "TIMEOUT", "OOM", "EXCEPTION")):
                run.violation("implementation crashed or hung: " + tw["i_final"][:80], dict(rep, text=tw["text"]))
                continue
            if d["i_final"] != tw["i_final"]:
                run.violation("a finished block whose last statement leaves no value does not contribute nil: the construct that takes the "
                              "block's value behaves differently when `nil` is written out as the block's last statement (twin_text): "
                              "%s, with the explicit nil %s" % (d["i_final"][:120], tw["i_final"][:120]), rep)
                continue
        # ---- property oracle 2: the enclosing expression's pending operands are intact, one value contributed
        marks = [m[2:-1] for m in d["i_final"].split(",M<")[1:]] if ",M<" in d["i_final"] else []
        marks = [m.split(">,")[0] if ">," in m else m.rstrip(">") for m in d["i_final"].split("M<")[1:]]
        # a statement of a loop condition that is short of an operand (`private _p = <nothing>`) must find NONE: what it prints as
        # ["p", _p] is [p,] in every round - a value there was left behind by the body's previous round
        stale = [m for m in marks if m.startswith("[p,") and m != "[p,]"]
        if stale and not (d["i_final"].startswith("2:") and d["m_final"].startswith("2:")):
            run.violation("operands survive the restart of a loop iteration: a statement short of an operand took %s, left by the body's "
                          "previous round" % stale[0], rep)
            continue
        marks = [m for m in marks if not m.startswith("VALUE ")][-1:]      # the enclosing expression is printed last
        if d["i_final"].startswith("2:") and d["m_final"].startswith("2:"):
            marks = []      # the program ends in a runtime error (a generated operand faults): the enclosing expression is never printed
        if kind.startswith("noval") and (d["i_final"].startswith("2:") or not marks or split_top(marks[0]) is None or len(split_top(marks[0])) != 3
                                or not marks[0].startswith("[%d," % info[0])):
            marks = []      # ended in the error a nil condition raises (as the twin did), or the enclosing array is not what was printed last
        if kind in ("array3", "array3n", "array3v", "noval", "novalcfg") and marks:
            first = marks[0]
            parts = split_top(first)
            a, b = info[0], info[1]
            bad = None
            if parts is None or len(parts) != 3:
                bad = "the enclosing array does not have exactly 3 elements: %s" % first
            elif parts[0] != str(a) or parts[2] != str(b):
                bad = "pending operands of the enclosing array changed: %s (expected %d .. %d)" % (first, a, b)
            elif kind == "array3v" and parts[1] != info[2]:
                bad = ("the construct contributes the value of the last statement of the block that ran last - the handler of a guarded block that "
                       "failed, the chosen case block, the exitWith block - and nil if that statement leaves none: %s, expected %s in the middle"
                       % (first, info[2] or "nil (printed as nothing)"))
            elif kind == "array3n":
                inner = split_top(parts[1])
                if inner is None or len(inner) != 2 or inner[0] != "1":
                    bad = "the inner array does not hold exactly its pending operand and one value: %s" % first
            if bad:
                run.violation(bad, rep)
                continue
        if kind == "sum" and marks:
            (a,) = info
            if marks[0] != "[%d]" % (a + 2):
                run.violation("pending left operand lost or extra operands consumed: %s (expected [%d])" % (marks[0], a + 2), rep)
                continue
        if kind == "loop" and mx > 6:
            run.violation("operands accumulate across iterations: the loop body's region reached %d operands" % mx, rep)
            continue
        # ---- correspondence with the model
        if "UNSUPPORTED" in d["m_trace"] or "UNSUPPORTED" in d["m_final"] or kind == "novalcfg":
            nunsup += 1
            continue
        distinct.add(d["text"])
        diffs = [k for k in ("listing", "trace", "final") if d["m_" + k] != d["i_" + k]]
        if diffs:
            ndis += 1
            rep["broken"] = "correspondence VM model (VmDefs.v/VmExec.v) vs implementation: " + ",".join(diffs)
            fd = M.first_diff(d["m_trace"], d["i_trace"])
            rep["first_trace_diff"] = list(fd) if fd else None
            run.violation("implementation and VM model disagree (%s); the property oracles hold on this input" % ",".join(diffs), rep, found_input=False)
    # ---- scheduled scripts: a terminated script yields no value (h_sched: implementation and scheduler model under the virtual clock)
    nterm = 0
    if not replay or json.load(open(replay))["replay"].get("kind", "").startswith(("terminated", "eval_fails")):
        hs, drv_s, consts = SC.build(thorough)
        fam_cases = terminated_cases()
        if replay:
            want = json.load(open(replay))["replay"]["kind"]
            fam_cases = [c for c in fam_cases if c[0] == want]
        res_f = SC.run_histories(hs, drv_s, [c[1] for c in fam_cases], defects=[], max_runtime_ms=0, tick_us=100000,
                                 max_loop=consts["default_max_loop"], slice_=consts["slice_length"])
        for (name, hist, expect, pending, impl_only), d in zip(fam_cases, res_f):
            nterm += 1
            kinds[name.split(":")[0]] = kinds.get(name.split(":")[0], 0) + 1
            i_run = d["i_obs"][-1]
            rep = {"kind": name, "hist": [list(h) for h in hist], "texts": d.get("texts"), "impl": [o[:1500] for o in d["i_obs"]],
                   "model": [o[:1500] for o in d["m_obs"]], "expected_dropped_values": expect, "pending_operands": pending}
            pr = SC.parse_run(i_run)
            if pr is None:
                run.violation("scheduled scripts: the run did not come back (%s)" % i_run[:80], rep)
                continue
            vals = dropped_values(pr["events"])
            stale = [v for v in vals if v.isdigit() and int(v) in pending]
            marks = [m for m in SC.markers(pr["events"]) if not m.startswith("VALUE ")]
            if stale:
                run.violation("a script whose work was dropped (terminated / failed evaluation) is reported with the value %s - an operand that an "
                              "enclosing scope still had pending; it has no value to yield" % stale[0], rep)
                continue
            if [v for v in vals if v != "nil"] != [v for v in expect]:
                run.violation("values reported for the finished scripts: %s, expected %s (one per script that ran to its end, none for the "
                              "terminated one)" % (vals, expect), rep)
                continue
            if "199" in marks:
                run.violation("the terminated script went on after its sleep (marker 199)", rep)
                continue
            if not impl_only and not SC.same_obs(d["m_obs"], d["i_obs"]):
                rep["broken"] = "correspondence scheduler model (SchedDefs.run_history) vs implementation on a terminate history"
                run.violation("implementation and scheduler model disagree on a history with a terminated script (the value oracle holds)", rep, found_input=False)
    for p in problems:
        run.violation("proof obligation not discharged: " + p, {"broken": p, "theorems": run.cov["theorems"]}, found_input=False)
    run.cov["evaluations"] = len(cases) + nterm
    run.cov["distinct_nontrivial"] = len(distinct)
    run.cov["rule"] = ("programs that embed a control structure (call with extra values / ending in an assignment, exitWith, breakOut with and "
                       "without value across scopes with pending operands, throw and runtime errors caught inside, iteration constructs, switch, "
                       "if-else) inside a half-built array or as operand of +, random programs of the shared generator, long loops; "
                       "every program is stepped with assembly_step on the implementation (stack height and every frame's base observed after each "
                       "instruction) and run to completion; non-trivial = inside the modelled fragment (compared with the model on listing, "
                       "per-step trace and final observation), distinct by program text; plus histories of scheduled scripts (harness/h_sched.cpp, virtual "
                       "clock): a spawned script sleeps inside 1-3 nested scopes that hold pending operands (sums, arrays, if, forEach, a function in "
                       "a global) and is terminated by another script, by the main script or by itself, and failing evaluate_expression calls: the "
                       "dropped work must not surface as the script's value; plus two families judged by the property alone: blocks of 2-4 "
                       "statements whose last statement leaves no value as bodies of isNil / apply / count / select / findIf / forEach / the condition "
                       "of while / waitUntil / configClasses / configProperties inside pending operands (the construct must see nil: same "
                       "observation as the twin program with `nil` written out as the block's last statement), and handlers / case blocks / "
                       "exitWith blocks of 2-4 statements entered while 2-3 operands of the abandoned expression are still on the stack (the "
                       "enclosing array shows nil, or the block's last value, in the middle)")
    run.cov["terminate_histories"] = nterm
    run.cov["input_distribution"] = kinds
    run.cov["unsupported_by_model"] = nunsup
    run.cov["disagreements_checked"] = ndis
    run.cov["samples"] = samples
    run.cov["trusted_base"] = ["Coq 8.16.1 kernel (vm_compute in the two refuted-before-repair theorems and the Example)",
                               "ExtrOcamlBasic extraction + ocaml/vm_driver.ml", "harness/h_vm.cpp (public members only; fork per case)",
                               "translators/diag.py and translators/overloads.py (diagnostic levels, registered overloads)",
                               "checks/vmcommon.py generator; the VM model is hand-written and tied to the C++ by this differential run"]
    return run.finish()
