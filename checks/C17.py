"""C17 - PBO archives are read faithfully; damaged ones are rejected safely."""
import json, os, struct, sys
import vcommon as V

PID = "C17"


# ---------------------------------------------------------------- independent packer (Python)
def hdr(name, method, orig, ts, size):
    return name + b"\0" + struct.pack("<IIIII", method, orig, 0, ts, size)


VERS = 0x56657273


def pack(props, entries):
    out = hdr(b"", VERS, 0, 0, 0)
    for k, v in props:
        out += k + b"\0" + v + b"\0"
    out += b"\0"
    for n, d, ts in entries:
        out += hdr(n, 0, len(d), ts, len(d))
    out += hdr(b"", 0, 0, 0, 0)
    for n, d, ts in entries:
        out += d
    return out


def expected(props, entries, name):
    """Spec: what a faithful reader reports for pack(props, entries)."""
    ats = ";".join(V.hx(k) + "=" + V.hx(v) for k, v in props)
    fs = ";".join("%s:n:%d" % (V.hx(n), len(d)) for n, d, ts in entries)
    pre = "NONE"
    for k, v in props:
        if k == b"prefix":
            pre = "S" + V.hx(v); break
    def rd(name):
        for n, d, ts in entries:
            if n == name:
                return "S" + V.hx(d)
        return "NONE"
    return "OK\t%s\t%s\t%s\t%s\t%s" % (ats, fs, pre, rd(name), ";".join(rd(n) for n, d, ts in entries))


def rand_name(rng):
    alphabet = b"abcXYZ019_.- \\/?"
    while True:
        n = bytes(rng.choice(alphabet) for _ in range(rng.randint(1, 12)))
        if rng.random() < 0.1:
            n += bytes([rng.randint(1, 255)])
        if not all(c == 63 for c in n):   # all-'?' names are the reader's "invalidated" marker
            return n


def plain_name(rng):
    """path of 1-3 plain segments (letters, digits, _ - .): such entries are also read back through the virtual file system"""
    segs = []
    for _ in range(rng.choice([1, 1, 2, 3])):
        while True:
            sg = bytes(rng.choice(b"abcABCxyz019_-.") for _ in range(rng.randint(1, 6)))
            if sg not in (b".", b".."):
                break
        segs.append(sg)
    return b"\\".join(segs)


def rand_archive(rng, big=False):
    props = []
    plain = rng.random() < 0.5
    if plain:
        props.append((b"prefix", plain_name(rng)))
    elif rng.random() < 0.8:
        props.append((b"prefix", rand_name(rng).replace(b"/", b"\\")))
    seen = {b"prefix"}
    for _ in range(rng.choice([0, 0, 1, 2, 5])):
        k = rand_name(rng)
        if k in seen:
            continue
        seen.add(k)
        props.append((k, bytes(rng.randint(1, 255) for _ in range(rng.choice([0, 1, 3, 20])))))
    rng.shuffle(props)
    entries = []
    for _ in range(rng.choice([0, 1, 2, 3, 6])):
        n = plain_name(rng) if plain and rng.random() < 0.8 else rand_name(rng)
        ln = rng.choice([0, 0, 1, 2, 5, 17, 255, 256, 257, 300] + ([5000, 70000] if big else []))
        d = bytes(rng.randint(0, 255) for _ in range(ln))
        entries.append((n, d, rng.choice([0, 1, 0x7fffffff, 0xffffffff])))
    if entries and rng.random() < 0.15:
        entries.append((entries[0][0], b"dup", 0))   # duplicate name: first wins
    if entries and rng.random() < 0.3:
        # names that differ only in letter case are different entries; each keeps its own bytes
        n0 = rng.choice(entries)[0]
        for v in {n0.swapcase(), n0.upper(), n0.lower()} - {n for n, d, t in entries}:
            entries.insert(rng.randint(0, len(entries)), (v, b"case:" + v + bytes(rng.randint(0, 255) for _ in range(rng.choice([0, 3, 40]))), 0))
    return props, entries


def small_archive(rng):
    props = [(b"prefix", b"x\\y")] if rng.random() < 0.7 else []
    if rng.random() < 0.3:
        props.append((b"k", b""))
    entries = []
    for i in range(rng.choice([1, 2, 3])):
        entries.append((bytes([97 + i]) + rng.choice([b"", b".sqf", b"\\c"]), bytes(rng.randint(0, 255) for _ in range(rng.choice([0, 1, 4, 9]))), 0))
    return props, entries


def intact_oracle(filebytes, impl, orig=None):
    """Property oracle on arbitrary bytes: no crash/hang/oom/exception, no FS change,
    and an exposed entry's bytes are a slice of the file (never anything else)."""
    f = impl.split("\t")
    if f[-1] != "FS:same":
        return "a file was created or modified"
    if f[0] in ("CRASH", "TIMEOUT", "OOM", "EXCEPTION", "EXIT", "HARNESS-LOST"):
        return "reader outcome " + " ".join(f[:-1])
    if f[0] == "FAIL":
        return None
    if f[0] == "OK" and len(f) == 7:
        listed = [x.split(":") for x in f[2].split(";")] if f[2] else []
        reads = f[5].split(";") if f[5] else []
        if len(listed) != len(reads):
            return "listing and reads differ in length"
        total = 0
        for (n, m, sz), rd in zip(listed, reads + [f[4]]):
            total += int(sz)
            if rd.startswith("S"):
                data = V.unhx(rd[1:])
                if data not in filebytes:
                    return "a listed entry's bytes are not a block of the file (entry %s, advertised size %s)" % (n, sz)
                if orig is not None and V.unhx(n) in orig and data != orig[V.unhx(n)]:
                    return "a truncated archive exposes entry %s with bytes that differ from the stored ones" % n
        if total > len(filebytes):
            return "listed entries advertise %d bytes, the file has %d" % (total, len(filebytes))
        if f[4].startswith("S") and V.unhx(f[4][1:]) not in filebytes:
            return "read returned bytes that are not a block of the file"
        return None
    return "unparseable harness output"


def main(replay=None):
    run = V.Run(PID, "proof")
    rng = run.rng
    thorough = run.tier == "thorough"
    problems = run.prove()
    himpl = V.build_harness("h_pbo", "asan" if thorough else "plain")
    drv = V.ocaml_driver("pbo")

    cases = []   # (kind, filebytes or None, name, expected-or-None)

    def add(kind, fb, name, exp=None):
        cases.append((kind, fb, name, exp))

    if replay:
        r = json.load(open(replay))["replay"]
        fb = None if r.get("file_hex") == "ABSENT" else V.unhx(r["file_hex"])
        add(r.get("kind", "replay"), fb, V.unhx(r["name_hex"]), r.get("expected"))
    else:
        # corpus first
        cdir = os.path.join(V.VERIF, "corpus", PID)
        if os.path.isdir(cdir):
            for fn in sorted(os.listdir(cdir)):
                r = json.load(open(os.path.join(cdir, fn)))
                fb = None if r.get("file_hex") == "ABSENT" else V.unhx(r["file_hex"])
                add("corpus:" + fn, fb, V.unhx(r["name_hex"]), r.get("expected"))
        add("absent", None, b"x")
        nwf = 2000 if thorough else 250
        for i in range(nwf):
            props, entries = rand_archive(rng, big=(i % 25 == 0))
            fb = pack(props, entries)
            names = [n for n, d, t in entries] + [b"missing.sqf", b"config.cpp"]
            for nm in rng.sample(names, min(len(names), 2)):
                add("wellformed", fb, nm, expected(props, entries, nm))
        # free sections: header entries whose name is made of '?' only (what a writer leaves behind when an entry is rewritten in place) are
        # no entries - but each still owns its bytes of the data area, wherever it stands in the table
        for i in range(600 if thorough else 120):
            props, entries = rand_archive(rng)
            entries = [e for e in entries if e[0] != b""]
            for _ in range(rng.choice([1, 1, 2, 3])):
                fn_ = b"?" * rng.choice([1, 1, 3, 8])
                fd = bytes(rng.randint(0, 255) for _ in range(rng.choice([0, 1, 7, 64, 300])))
                entries.insert(rng.randint(0, len(entries)), (fn_, fd, 0))
            if not any(set(n) != {63} for n, d, t in entries):
                entries.insert(rng.randint(0, len(entries)), (plain_name(rng), b"payload" + bytes(rng.randint(0, 255) for _ in range(9)), 0))
            fb = pack(props, entries)
            visible = [e for e in entries if set(e[0]) != {63}]
            names = [n for n, d, t in visible] + [b"?", b"???"]
            for nm in rng.sample(names, min(len(names), 2)):
                add("free-sections", fb, nm, expected(props, visible, nm))
        # bytes behind the data area (checksum trailer, padding, garbage): theorems C17_trailing_bytes_ignored / _reads say that the
        # reader reports what it reports without them - for a packed archive exactly the stored content
        for i in range(400 if thorough else 80):
            props, entries = rand_archive(rng)
            fb = pack(props, entries)
            k = rng.choice([1, 1, 2, 20, 21, 21, 22, 64, 300])
            style = rng.random()
            if style < 0.4:
                tail = bytes(rng.randint(0, 255) for _ in range(k))
            elif style < 0.7:
                tail = b"\0" + bytes(rng.randint(0, 255) for _ in range(k - 1))     # the usual trailer: NUL + SHA-1
            else:
                tail = bytes([rng.choice([0, 63, 255])]) * k
            names = [n for n, d, t in entries] + [b"missing.sqf"]
            for nm in rng.sample(names, min(len(names), 2)):
                add("trailer", fb + tail, nm, expected(props, entries, nm))
        # corruption confined to the data area (theorem C17_data_corruption_keeps_table): properties, names, sizes and positions are
        # those of the undamaged archive, every entry reads back as the bytes that now stand at its place
        for i in range(300 if thorough else 60):
            props, entries = rand_archive(rng)
            total = sum(len(d) for n, d, t in entries)
            if total == 0:
                continue
            fb = pack(props, entries)
            data = bytearray(fb[len(fb) - total:])
            for _ in range(rng.choice([1, 1, 2, 5, total])):
                data[rng.randrange(total)] = rng.randint(0, 255)
            fb2 = fb[:len(fb) - total] + bytes(data)
            ents2, off = [], 0
            for n, d, t in entries:
                ents2.append((n, bytes(data[off:off + len(d)]), t)); off += len(d)
            names = [n for n, d, t in entries]
            for nm in rng.sample(names, min(len(names), 2)):
                add("corrupt-data", fb2, nm, expected(props, ents2, nm))
        # every truncation point and every single-byte corruption of small archives
        nsmall = 40 if thorough else 6
        for i in range(nsmall):
            props, entries = small_archive(rng)
            fb = pack(props, entries)
            nm = entries[0][0]
            for cut in range(len(fb)):
                add("truncate", fb[:cut], nm, "INTACT:" + ";".join(V.hx(n) + "=" + V.hx(d) for n, d, t in reversed(entries)))
            for pos in range(len(fb)):
                for val in ([0, 255, fb[pos] ^ 1, 63] if thorough else [rng.choice([0, 255, fb[pos] ^ 1])]):
                    if val != fb[pos]:
                        add("corrupt-byte", fb[:pos] + bytes([val]) + fb[pos + 1:], nm)
            # length-field corruption: every u32 field of every header
            off = 0
            # locate header fields: scan as the packer wrote them
            pos = 1 + 20
            for k, v in props:
                pos += len(k) + 1 + len(v) + 1
            pos += 1
            for n, d, ts in entries + [(b"", b"", 0)]:
                base = pos + len(n) + 1
                for fld in range(5):
                    for val in (0xffffffff, 0x7fffffff, 0x80000000, len(fb), len(fb) + 1, len(d) + 1, 1 << 20):
                        add("corrupt-len", fb[:base + 4 * fld] + struct.pack("<I", val) + fb[base + 4 * fld + 4:], nm)
                pos = base + 20
        for i in range(400 if thorough else 60):
            ln = rng.choice([0, 1, 2, 20, 21, 22, 43, 64, 255, 256, 257, 512, 600])
            kind = rng.random()
            if kind < 0.5:
                fb = bytes(rng.randint(0, 255) for _ in range(ln))
            elif kind < 0.75:
                fb = bytes(rng.choice([0, 0, 0, 1, 65]) for _ in range(ln))
            else:
                fb = bytes(rng.randint(1, 255) for _ in range(ln))      # no NUL at all
            add("random", fb, b"a")

    lines = ["%s\t%s" % ("ABSENT" if fb is None else V.hx(fb), V.hx(nm)) for k, fb, nm, e in cases]
    rc, impl, err = V.run_lines_parallel([himpl], lines, timeout=3000)
    mlines = [l for l, c in zip(lines, cases) if c[1] is not None]
    rc2, model, err2 = V.run_lines_parallel([drv], mlines, timeout=3000)
    mit = iter(model)
    kinds, distinct, samples = {}, set(), []
    ndis = 0
    n_vfs = 0
    vfs_kinds = {}
    for (kind, fb, nm, exp), il in zip(cases, impl):
        kinds[kind.split(":")[0]] = kinds.get(kind.split(":")[0], 0) + 1
        f = il.split("\t")
        vfs = None
        if len(f) >= 2 and f[-2].startswith("VFS:"):
            vfs = f[-2][4:]
            del f[-2]
            il = "\t".join(f)
        body = "\t".join(f[:-1])
        if fb is None:
            # absent archive: loading must fail and must not create the file
            why = None
            if f[-1] != "FS:same":
                why = "loading an absent archive created/modified a file"
            elif f[0] != "FAIL":
                why = "loading an absent archive did not fail: " + body
            if why:
                key = "absent-created"
                if run.known.has(PID, key) and f[-1] == "FS:changed" and f[0] in ("OK", "FAIL"):
                    run.known_finding(key)
                else:
                    run.violation(why, {"kind": kind, "file_hex": "ABSENT", "name_hex": V.hx(nm), "impl": il})
            continue
        ml = next(mit)
        nontrivial = ml != "FAIL"
        distinct.add((hash(fb), nm, nontrivial))
        if len(samples) < 6 and (kind, ) not in [(s["kind"],) for s in samples]:
            samples.append({"kind": kind, "file_hex": V.hx(fb)[:400], "name_hex": V.hx(nm), "impl": il[:300], "model": ml[:300]})
        rep = {"kind": kind, "file_hex": V.hx(fb), "name_hex": V.hx(nm), "impl": il, "model": ml, "expected": exp}
        # 1. spec on well-formed archives: model and implementation must both report the stored content
        orig = None
        if exp is not None and exp.startswith("INTACT:"):
            # truncation of a known archive: whatever is still exposed must be the original bytes
            orig = dict((V.unhx(a.split("=")[0]), V.unhx(a.split("=")[1])) for a in exp[7:].split(";") if a)
        elif exp is not None:
            if ml != exp:
                run.violation("MODEL disagrees with the packer's specification (machinery bug)", rep, found_input=False)
            if body != exp:
                run.violation("well-formed archive not read back faithfully", rep)
                continue
        # 2. property oracle on any input
        why = intact_oracle(fb, il, orig)
        if why:
            run.violation(why, rep)
            continue
        # 2b. the route scripts take: a plainly named entry read through the virtual file system (under the prefix) has the
        #     bytes the archive reader itself hands out for it (first entry of that name; paths are not case sensitive there)
        if vfs not in (None, "-") and f[0] == "OK" and len(f) == 7:
            n_vfs += 1
            vfs_kinds[kind.split(':')[0]] = vfs_kinds.get(kind.split(':')[0], 0) + 1
            listed = [x.split(":")[0] for x in f[2].split(";")] if f[2] else []
            reads = f[5].split(";") if f[5] else []
            direct = {}
            for n, rd in zip(listed, reads):
                direct.setdefault(n, rd)
            lows = [V.unhx(n).lower() for n in listed]
            bad = None
            for item in [x for x in vfs.split(";") if x]:
                n, got = item.split("=")
                if lows.count(V.unhx(n).lower()) != 1:
                    continue
                want = direct.get(n, "NONE")
                if got == "MISSING":
                    if kind == "wellformed":
                        bad = "entry %s of a well-formed archive is not found under the archive's prefix" % n
                elif want.startswith("S") and got != want[1:]:
                    bad = ("entry %s read through the virtual file system has %d bytes, the archive holds %d for it (or other bytes)"
                           % (n, len(got) // 2, len(want[1:]) // 2))
                if bad:
                    break
            if bad:
                rep["vfs"] = vfs[:2000]
                run.violation(bad, rep)
                continue
        # 3. correspondence model <-> implementation
        if body != ml:
            ndis += 1
            rep["broken"] = "correspondence PboDefs.open/files/attributes/read_entry vs rvutils::pbo::pbofile"
            run.violation("implementation and model disagree (property oracle satisfied on this input)", rep, found_input=False)
    # ---- the extracted model against the kernel: a sample of this run's cases is evaluated inside Coq (vm_compute) and must give
    #      exactly what the OCaml driver printed for them (ties extraction + ocaml/pbo_driver.ml to the definitions the theorems are about)
    def zl(b):
        return "[" + ";".join(str(x) for x in b) + "]"

    def gallina_of(ml):
        if ml == "FAIL":
            return "None"
        f = ml.split("\t")
        ats = "[" + ";".join("(%s,%s)" % (zl(V.unhx(a.split("=")[0])), zl(V.unhx(a.split("=")[1]))) for a in f[1].split(";") if a) + "]"
        meth = {"n": "MNone", "e": "MEncrypted", "c": "MCompressed", "v": "MVersion"}
        fs = "[" + ";".join("(%s,%s,%s)" % (zl(V.unhx(x.split(":")[0])), meth[x.split(":")[1]], x.split(":")[2]) for x in f[2].split(";") if x) + "]"
        rd = "None" if f[4] == "NONE" else "Some " + zl(V.unhx(f[4][1:]))
        return "Some (%s, %s, %s)" % (ats, fs, rd)

    pairs = [(c, m) for c, m in zip([c for c in cases if c[1] is not None], model) if len(c[1]) <= 400]
    sample = rng.sample(pairs, min(len(pairs), 60 if thorough else 25)) if pairs else []
    sample += [pm for pm in pairs if pm[1] != "FAIL"][:10]
    body = ["Definition probe (c : list Z * list Z) :=",
            "  match open (fst c) with None => None | Some p => Some (attributes p, files p, read_entry (fst c) p (snd c)) end."]
    for i, ((kind, fb, nm, exp), ml) in enumerate(sample):
        body.append("Example k%d : probe (%s, %s) = %s. Proof. vm_compute. reflexivity. Qed." % (i, zl(fb), zl(nm), gallina_of(ml)))
    okk, msg = V.kernel_crosscheck("C17", "From Coq Require Import ZArith List. Import ListNotations.\nFrom SqfVerif Require Import PBO.PboDefs.\nLocal Open Scope Z_scope.", "\n".join(body))
    run.cov["kernel_crosscheck"] = {"cases": len(sample), "agree": okk,
                                    "what": "PboDefs.open / attributes / files / read_entry evaluated by vm_compute inside Coq = output of the extracted OCaml driver on the same archives"}
    if not okk:
        run.violation("the extracted model and the kernel's evaluation of the same definitions disagree (or the kernel file does not compile)",
                      {"broken": "extraction / ocaml/pbo_driver.ml vs PBO/PboDefs.v", "coqc": msg}, found_input=False)
    for p in problems:
        run.violation("proof obligation not discharged: " + p, {"broken": p, "theorems": run.cov["theorems"]}, found_input=False)
    run.cov["evaluations"] = len(cases)
    run.cov["distinct_nontrivial"] = len([d for d in distinct if d[2]])
    run.cov["rule"] = ("archives from an independent Python packer (random props/entries, names with backslashes, empty and binary "
                       "content, duplicate names, names that differ only in letter case), every truncation point, single-byte and u32-field corruptions of small archives, "
                       "bytes appended behind the data area, corruption confined to the data area, random bytes, an absent path; a case is non-trivial when the model accepts the archive (open = Some); "
                       "distinct by (file bytes, name)")
    run.cov["input_distribution"] = kinds
    run.cov["samples"] = samples
    run.cov["disagreements_checked"] = ndis
    run.cov["archives_read_back_through_the_vfs"] = n_vfs
    run.cov["read_back_through_the_vfs_by_kind"] = vfs_kinds
    run.cov["trusted_base"] = ["Coq 8.16.1 kernel (vm_compute used in Examples only)", "ExtrOcamlBasic extraction + ocaml/pbo_driver.ml",
                               "harness/h_pbo.cpp + fork/rlimit plumbing", "Python packer/generator in checks/C17.py",
                               "model PBO/PboDefs.v is hand-written; tied to pbofile.hpp only by this differential run"]
    return run.finish()
