"""C14 - diagnostics name the true source file and line (and column) of the culprit."""
import json, os, re, sys
import vcommon as V
import ppgen

PID = "C14"

# Conventions read off the binary (probes of 2026-09, recorded in the evidence):
#   line 1-based, column 0-based byte offset;  runtime error (60076 unknown input combination): the operator token;
#   parse error (30015): the unexpected token;  undefined variable (60070, warning): the identifier;
#   stack trace (60001, fatal): text entries "[L<line>|C<col>|<file>]", innermost first, the caller's entry is its 'call';
#   diag_log (60019): "[DIAG_LOG] <value>".
CODE = {"parse": 30015, "error": 60076, "undef": 60070, "trace": 60001, "log": 60019}
KEY_NL = "multiline-define-newlines"
KEY_COMMENT = "comment-shifts-column"
KEY_DQ = "doubled-quote-column"


def enc_files(files):
    return ";".join(V.hx(n) + "=" + V.hx(c) for n, c in sorted(files.items()))


def parse_msgs(field):
    msgs = []
    if field and field != "-":
        for m in field.split(";"):
            p = m.split(":")
            if len(p) != 6:
                continue
            lv, code, fl, l, col, t = p
            msgs.append({"level": int(lv), "code": int(code), "file": V.unhx(fl).decode("latin-1") if fl != "-" else None,
                         "line": int(l) if l != "-" else None, "col": int(col) if col != "-" else None,
                         "text": V.unhx(t).decode("latin-1")})
    return msgs


def observed(msgs, what):
    """(file, line, col) the implementation reported for expectation kind [what], or None"""
    if what == "parse":
        g = [m for m in msgs if m["code"] == CODE["parse"]]
    elif what == "error":
        g = [m for m in msgs if m["code"] == CODE["error"]]
    elif what == "undef":
        g = [m for m in msgs if m["code"] == CODE["undef"] and "zzundef" in m["text"]]
    elif what in ("trace1", "trace2"):
        g = [m for m in msgs if m["code"] == CODE["trace"]]
        if not g:
            return None
        ents = re.findall(r"\[L(\d+)\|C(\d+)\|([^\]]*)\]", g[0]["text"])[1:]   # the first is the prefix of the message itself
        k = 0 if what == "trace1" else 1
        return (ents[k][2], int(ents[k][0]), int(ents[k][1])) if len(ents) > k else None
    else:
        return None
    return (g[0]["file"], g[0]["line"], g[0]["col"]) if g else None


def main(replay=None):
    run = V.Run(PID, "proof")
    rng = run.rng
    thorough = run.tier == "thorough"
    problems = run.prove()
    himpl = V.build_harness("h_pp", "asan" if thorough else "plain")
    drv0 = V.ocaml_driver("pp")
    drv = ["sh", "-c", "ulimit -s 2000000 2>/dev/null; exec %s" % drv0]

    cases = []
    if replay:
        r = json.load(open(replay))["replay"]
        cases.append({"kind": r["kind"], "main": r["main"], "files": {k: V.unhx(v).decode("latin-1") for k, v in r["files_hex"].items()},
                      "fault_file": r["fault_file"], "expect": [tuple(e) for e in r["expect"]], "col_exact": r["col_exact"],
                      "comment_before": r.get("comment_before", False), "features": r.get("features", []), "nlines": 0})
    else:
        cdir = os.path.join(V.VERIF, "corpus", PID)
        if os.path.isdir(cdir):
            for fn in sorted(os.listdir(cdir)):
                r = json.load(open(os.path.join(cdir, fn)))
                cases.append({"kind": r["kind"], "main": r["main"], "files": {k: V.unhx(v).decode("latin-1") for k, v in r["files_hex"].items()},
                              "fault_file": r["fault_file"], "expect": [tuple(e) for e in r["expect"]], "col_exact": r["col_exact"],
                              "comment_before": r.get("comment_before", False), "features": r.get("features", ["corpus"]), "nlines": 0})
        for i in range(40000 if thorough else 6000):
            cases.append(ppgen.c14_case(rng))

    def fenc(c):
        return enc_files({k: v.encode("latin-1") for k, v in c["files"].items()})
    runl = ["RUN\t%s\t%s" % (V.hx(c["main"]), fenc(c)) for c in cases]
    ppl = ["PP\t%s\t%s" % (V.hx(c["main"]), fenc(c)) for c in cases]
    locl = ["LOC\t%s\t%s\t%s" % (V.hx(c["main"]), fenc(c),
                                ";".join("%s:%d:%d" % (V.hx("/T/" + c["fault_file"]), l, col if col is not None else 0) for (w, l, col) in c["expect"]))
            for c in cases]
    rc, irun, e1 = V.run_lines_parallel([himpl], runl, timeout=3000)
    rc, ipp, e2 = V.run_lines_parallel([himpl], ppl, timeout=3000)
    rc, mloc, e3 = V.run_lines_parallel(drv, locl, timeout=3000)

    kinds, feats, samples, distinct = {}, {}, [], set()
    stats = {"recognises_true": 0, "hidden_flag": 0, "column_demanded": 0, "column_not_demanded_macro_on_line": 0}
    for c, ir, ip, ml in zip(cases, irun, ipp, mloc):
        kinds[c["kind"]] = kinds.get(c["kind"], 0) + 1
        for f in c["features"]:
            feats[f] = feats.get(f, 0) + 1
        rep = {"kind": c["kind"], "main": c["main"], "files_hex": {k: V.hx(v.encode("latin-1")) for k, v in c["files"].items()},
               "files_text": c["files"], "fault_file": c["fault_file"], "expect": c["expect"], "col_exact": c["col_exact"],
               "comment_before": c["comment_before"], "features": c["features"], "impl_run": ir[:3000], "impl_pp": ip[:200], "model": ml[:3000]}
        fr = ir.split("\t")
        if fr[0] in ("CRASH", "TIMEOUT", "OOM", "EXCEPTION", "EXIT", "HARNESS-LOST", "BADLINE") or ip.split("\t")[0] != "OK":
            run.violation("a layout of valid statements does not preprocess/run: %s / %s" % (" ".join(fr[:2]), ip[:60]), rep)
            continue
        msgs = parse_msgs(fr[1] if len(fr) > 1 else "-")
        mf = ml.split("\t")
        if len(mf) < 3 or not mf[0].startswith("R=OK"):
            rep["broken"] = "reference expander rejects a generated layout"
            run.violation("model cannot process a generated layout (machinery)", rep, found_input=False)
            continue
        r_out, r_hidden = mf[0][2:].split(":")[1], mf[0][2:].split(":")[2]
        a_out = mf[1][2:].split(":")[1] if mf[1].startswith("A=OK") else None
        rec = mf[2]
        q = mf[3:]
        impl_out = ip.split("\t")[1]
        exp_file = "/T/" + c["fault_file"]
        distinct.add(hash(tuple(sorted(c["files"].items()))))
        if len(samples) < 5 and c["kind"] not in [s["kind"] for s in samples]:
            samples.append({"kind": c["kind"], "expect": c["expect"], "fault_file": c["fault_file"],
                            "main_text": c["files"][c["main"]][:400], "impl": ir[:300]})
        stats["hidden_flag"] += r_hidden == "1"
        # which emission rule does the implementation follow on this case?
        follows = "R" if impl_out == r_out else ("A" if impl_out == a_out else None)
        text_differs = follows is None
        if text_differs:
            rep["reference_output"] = V.unhx(r_out).decode("latin-1")[:3000]
            rep["impl_output"] = V.unhx(impl_out).decode("latin-1")[:3000]
        elif rec[4:5] == "1" and follows == "R":
            stats["recognises_true"] += 1
        elif follows == "R":
            rep["broken"] = "hypothesis 'recognises' of C14_line_sync is false on a generated layout"
            run.violation("the tokenizer model does not recognise the emitted #line texts", rep, found_input=False)
            continue
        oracle_failed = False
        for idx, (what, line, col) in enumerate(c["expect"]):
            if what == "linefile":
                g = [m for m in msgs if m["code"] == CODE["log"]]
                mm = re.search(r"\[(\d+),(.*)\]", g[0]["text"]) if g else None
                if not mm or int(mm.group(1)) != line or mm.group(2) != exp_file:
                    run.violation("__LINE__/__FILE__ expand to %s, written at line %d of %s" % (g[0]["text"] if g else "nothing", line, exp_file), rep)
                    oracle_failed = True
                continue
            got = observed(msgs, what)
            mr = q[2 * idx][2:] if len(q) > 2 * idx else "NOPROV"
            ma = q[2 * idx + 1][2:] if len(q) > 2 * idx + 1 else "NOPROV"
            def pos(x):
                if x == "NOPROV":
                    return None
                f, l, cc, ub = x.split(":")
                return (V.unhx(f).decode("latin-1"), int(l), int(cc))
            pr, pa = pos(mr), pos(ma)
            if got is None:
                run.violation("no %s diagnostic for the injected fault (stage %s)" % (what, fr[0]), rep)
                oracle_failed = True
                break
            want_col = col if (col is not None and c["col_exact"]) else None
            if want_col is None:
                stats["column_not_demanded_macro_on_line"] += 1
            else:
                stats["column_demanded"] += 1
            line_ok = (got[0], got[1]) == (exp_file, line)
            col_ok = want_col is None or got[2] == want_col
            if line_ok and col_ok:
                # oracle satisfied: the tokenizer model must say the same
                pm = None if text_differs else (pr if follows == "R" else pa)
                if pm is not None and pm != got:
                    rep["broken"] = "correspondence PP/Tracker.v vs tokenizer.hpp (model %s, implementation %s)" % (pm, got)
                    run.violation("tokenizer model and implementation disagree on a position (the property's oracle is satisfied)", rep, found_input=False)
                    oracle_failed = True
                    break
                continue
            # ---- the reported position is wrong: attribute it
            what_txt = "%s diagnostic reported at %s:%d:%d, the culprit is at %s:%d:%s" % (what, got[0], got[1], got[2], exp_file, line, col)
            if not line_ok:
                # known defect: newlines swallowed by continuations are not answered (multi-line #define)
                if follows == "A" and pa == got and pr is not None and pr[:2] == (exp_file, line) and run.known.has(PID, KEY_NL):
                    run.known_finding(KEY_NL)
                    continue
                run.violation(what_txt, rep)
                oracle_failed = True
                break
            # line right, column wrong
            if c["comment_before"] and pr is not None and (pr == got or pa == got) and run.known.has(PID, KEY_COMMENT):
                run.known_finding(KEY_COMMENT)
                continue
            if pa == got and pr is not None and pr == (exp_file, line, want_col) and follows == "A" and run.known.has(PID, KEY_DQ):
                run.known_finding(KEY_DQ)
                continue
            run.violation(what_txt, rep)
            oracle_failed = True
            break
        if text_differs and not oracle_failed:
            rep["broken"] = "correspondence: preprocessed text vs emission model (neither repaired nor as_is)"
            run.violation("preprocessed text differs from the emission model (every reported position is right on this input)", rep, found_input=False)
    for p in problems:
        run.violation("proof obligation not discharged: " + p, {"broken": p, "theorems": run.cov["theorems"]}, found_input=False)
    run.cov["evaluations"] = len(cases)
    run.cov["distinct_nontrivial"] = len(distinct)
    run.cov["rule"] = ("layouts from checks/ppgen.py:Layout (comment blocks, single- and multi-line defines, active/inactive conditional "
                       "sections with else, includes nested up to depth 3 entering and returning, CRLF per file, <= 60 lines) of statements that "
                       "run without diagnostics, followed by one injected fault at a generated file/line/column: parse error, runtime error, "
                       "undefined variable inside call, two-level stack trace, diag_log [__LINE__, __FILE__]; optionally behind an inline block "
                       "comment, a string with a doubled quote, or a macro use (then no column is demanded). Oracle: the generator's position. "
                       "Correspondence: preprocessed text vs the emission model, reported position vs the tokenizer model, 'recognises' evaluated. "
                       "Every case is non-trivial (a fault is always injected); distinct by file contents")
    run.cov["input_distribution"] = kinds
    run.cov["layout_features"] = feats
    run.cov["samples"] = samples
    run.cov["outcomes"] = stats
    run.cov["conventions_observed"] = ("lines 1-based; columns 0-based byte offsets (tab = 1, CR not counted); runtime error 60076 and its stack "
                                       "trace entry point at the operator token, parse error 30015 at the unexpected token, 60070 at the identifier; "
                                       "the caller's stack-trace entry points at its 'call'; '#line N \"f\"' sets the NEXT line to N+1")
    run.cov["trusted_base"] = ["Coq 8.16.1 kernel (vm_compute in witnesses/Examples only)", "ExtrOcamlBasic extraction + ocaml/pp_driver.ml",
                               "harness/h_pp.cpp + harness/sqfrt.hpp (RecLogger reads location() of every message) + fork/rlimit plumbing",
                               "layout generator in checks/ppgen.py",
                               "models PP/Spec.v (emission rules) and PP/Tracker.v (tokenizer bookkeeping) are hand-written; tied to default.cpp / "
                               "tokenizer.hpp only by this differential run; the parser's use of token positions (sqf_parser.cpp) and the runtime's "
                               "use of diag_info (frame.h, logging.cpp) are observed end to end, not modelled"]
    return run.finish()
