"""C14 - diagnostics name the true source file and line (and column) of the culprit."""
import json, os, re, sys
import vcommon as V
import ppgen
import c14exit

PID = "C14"

# Conventions read off the binary (probes of 2026-09, recorded in the evidence):
#   line 1-based, column 0-based byte offset;  runtime error (60076 unknown input combination): the operator token;
#   parse error (30015): the unexpected token;  undefined variable (60070, warning): the identifier;
#   stack trace (60001, fatal): text entries "[L<line>|C<col>|<file>]", innermost first, the caller's entry is its 'call';
#   diag_log (60019): "[DIAG_LOG] <value>".
CODE = {"parse": 30015, "error": 60076, "undef": 60070, "trace": 60001, "log": 60019}
KEY_NL = "multiline-define-newlines"
KEY_COMMENT = "comment-shifts-column"
KEY_DQ = "doubled-quote-column"


def enc_files(files):
    return ";".join(V.hx(n) + "=" + V.hx(c) for n, c in sorted(files.items()))


def parse_msgs(field):
    msgs = []
    if field and field != "-":
        for m in field.split(";"):
            p = m.split(":")
            if len(p) != 6:
                continue
            lv, code, fl, l, col, t = p
            msgs.append({"level": int(lv), "code": int(code), "file": V.unhx(fl).decode("latin-1") if fl != "-" else None,
                         "line": int(l) if l != "-" else None, "col": int(col) if col != "-" else None,
                         "text": V.unhx(t).decode("latin-1")})
    return msgs


def observed(msgs, what):
    """(file, line, col) the implementation reported for expectation kind [what], or None"""
    if what == "parse":
        g = [m for m in msgs if m["code"] == CODE["parse"]]
    elif what == "error":
        g = [m for m in msgs if m["code"] == CODE["error"]]
    elif what == "undef":
        g = [m for m in msgs if m["code"] == CODE["undef"] and "zzundef" in m["text"]]
    elif what in ("trace1", "trace2"):
        g = [m for m in msgs if m["code"] == CODE["trace"]]
        if not g:
            return None
        ents = re.findall(r"\[L(\d+)\|C(\d+)\|([^\]]*)\]", g[0]["text"])[1:]   # the first is the prefix of the message itself
        k = 0 if what == "trace1" else 1
        return (ents[k][2], int(ents[k][0]), int(ents[k][1])) if len(ents) > k else None
    else:
        return None
    return (g[0]["file"], g[0]["line"], g[0]["col"]) if g else None


def lm_norm(s):
    """blanks are not what the line-macro family is about: runs of blanks count as one, none next to brackets, commas, '=' and ';'"""
    s = re.sub(r"[ \t\r]+", " ", s).strip()
    return re.sub(r" ?([\[\],;=]) ?", r"\1", s)


def judge_linemacro(run, himpl, lm_cases):
    """Family 'linemacro' (checks/ppgen.py:LineMacros): __LINE__/__FILE__ reach the text through macros in every position (operand of
    '##' / '#', aliases, calls in bodies, arguments; defines in the same file, in headers, behind conditionals, continued, re-defined)
    and must give the line / file of the macro use written in the source; preprocessor diagnostics of an expansion (EmptyArgument,
    RecursiveMacro) must name the same place.  The expected text of every use is computed by the generator (no model involved)."""
    def fenc(c):
        return enc_files({k: v.encode("latin-1") for k, v in c["files"].items()})
    ppl = ["PP\t%s\t%s" % (V.hx(c["main"]), fenc(c)) for c in lm_cases]
    runl = ["RUN\t%s\t%s" % (V.hx(c["main"]), fenc(c)) for c in lm_cases]
    rc, ipp, e1 = V.run_lines_parallel([himpl], ppl, timeout=3000)
    rc, irun, e2 = V.run_lines_parallel([himpl], runl, timeout=3000)
    st = {"cases": len(lm_cases), "kinds": {}, "features": {}, "uses_checked": 0, "uses_through_macros": 0, "uses_in_included_files": 0,
          "uses_more_than_6_lines_from_or_in_another_file_than_every_define_they_go_through": 0, "diagnostics_checked": 0, "distinct": 0, "samples": []}
    distinct = set()
    for c, ip, ir in zip(lm_cases, ipp, irun):
        st["kinds"][c["kind"]] = st["kinds"].get(c["kind"], 0) + 1
        for f in c["features"]:
            st["features"][f] = st["features"].get(f, 0) + 1
        distinct.add(hash(tuple(sorted(c["files"].items()))))
        rep = {"kind": c["kind"], "main": c["main"], "files_hex": {k: V.hx(v.encode("latin-1")) for k, v in c["files"].items()},
               "files_text": c["files"], "uses": c["uses"], "diags": c["diags"], "features": c["features"],
               "impl_pp": ip[:200], "impl_run": ir[:3000]}
        fp, fr = ip.split("\t"), ir.split("\t")
        recursive = any(d[0] == 10014 for d in c["diags"])
        if fr[0] in ("CRASH", "TIMEOUT", "OOM", "EXCEPTION", "EXIT", "HARNESS-LOST", "BADLINE") or fp[0] not in ("OK", "FAIL") \
           or (fp[0] == "FAIL") != recursive:
            run.violation("a layout of macro definitions and uses %s: %s / %s" %
                          ("with a macro that uses itself is preprocessed without an error" if recursive else "does not preprocess",
                           " ".join(fr[:1]), ip[:60]), rep)
            continue
        bad = False
        if fp[0] == "OK":
            out = V.unhx(fp[1]).decode("latin-1")
            rep["impl_output"] = out[:4000]
            olines = [lm_norm(l) for l in out.split("\n")]
            for marker, fn, line, exp, nmac, away in c["uses"]:
                st["uses_checked"] += 1
                st["uses_through_macros"] += nmac > 0
                st["uses_in_included_files"] += fn != c["main"]
                st["uses_more_than_6_lines_from_or_in_another_file_than_every_define_they_go_through"] += bool(away)
                got = [l for l in olines if l.startswith(marker + "=")]
                if len(got) != 1 or got[0] != lm_norm(exp):
                    run.violation("__LINE__/__FILE__ of the macro uses written at line %d of /T/%s expand to  %s  - expected  %s" %
                                  (line, fn, got[0] if got else "(line %s not in the output)" % marker, lm_norm(exp)), rep)
                    bad = True
                    break
        if bad:
            continue
        # preprocessor diagnostics raised while a macro use is expanded name the line and file of that use
        msgs = parse_msgs(fr[1] if len(fr) > 1 else "-")
        got = sorted(set((m["code"], m["file"], m["line"]) for m in msgs if m["code"] in (10013, 10014)))
        want = sorted(set((d[0], d[1], d[2]) for d in c["diags"]))
        st["diagnostics_checked"] += len(want)
        if got != want:
            run.violation("preprocessor diagnostics of macro expansions (10013 EmptyArgument / 10014 RecursiveMacro) reported at %s, the uses "
                          "that raise them are written at %s" % (got, want), rep)
            continue
        if len(st["samples"]) < 2:
            st["samples"].append({"kind": c["kind"], "files": {k: v[:500] for k, v in c["files"].items()}, "uses": c["uses"][:6], "diags": c["diags"]})
    st["distinct"] = len(distinct)
    return st


def main(replay=None):
    run = V.Run(PID, "proof")
    rng = run.rng
    thorough = run.tier == "thorough"
    problems = run.prove()
    himpl = V.build_harness("h_pp", "asan" if thorough else "plain")
    drv0 = V.ocaml_driver("pp")
    drv = ["sh", "-c", "ulimit -s 2000000 2>/dev/null; exec %s" % drv0]

    cases = []
    lm_cases = []
    ex_cases = []
    fr_cases = []
    if replay and str(json.load(open(replay))["replay"].get("kind", "")) == "framepos":
        fr_cases.append({"kind": "framepos", "text": json.load(open(replay))["replay"]["text"]})
    elif replay and str(json.load(open(replay))["replay"].get("kind", "")).startswith("exitdiag"):
        ex_cases.append(c14exit.from_replay(json.load(open(replay))["replay"]))
    elif replay and str(json.load(open(replay))["replay"].get("kind", "")).startswith("linemacro"):
        r = json.load(open(replay))["replay"]
        lm_cases.append({"kind": r["kind"], "main": r["main"], "files": {k: V.unhx(v).decode("latin-1") for k, v in r["files_hex"].items()},
                         "uses": r["uses"], "diags": r["diags"], "features": r.get("features", [])})
    elif replay:
        r = json.load(open(replay))["replay"]
        cases.append({"kind": r["kind"], "main": r["main"], "files": {k: V.unhx(v).decode("latin-1") for k, v in r["files_hex"].items()},
                      "fault_file": r["fault_file"], "expect": [tuple(e) for e in r["expect"]], "col_exact": r["col_exact"],
                      "comment_before": r.get("comment_before", False), "features": r.get("features", []), "nlines": 0})
    else:
        cdir = os.path.join(V.VERIF, "corpus", PID)
        if os.path.isdir(cdir):
            for fn in sorted(os.listdir(cdir)):
                r = json.load(open(os.path.join(cdir, fn)))
                if str(r.get("kind", "")).startswith("exitdiag"):
                    ex_cases.append(c14exit.from_replay(r))
                    continue
                cases.append({"kind": r["kind"], "main": r["main"], "files": {k: V.unhx(v).decode("latin-1") for k, v in r["files_hex"].items()},
                              "fault_file": r["fault_file"], "expect": [tuple(e) for e in r["expect"]], "col_exact": r["col_exact"],
                              "comment_before": r.get("comment_before", False), "features": r.get("features", ["corpus"]), "nlines": 0})
        for i in range(40000 if thorough else 6000):
            cases.append(ppgen.c14_case(rng))
        # drawn behind the layouts: the stream of layout cases of a seed stays what it was
        for i in range(10000 if thorough else 1500):
            lm_cases.append(ppgen.linemacro_case(rng))
        # family 'exitdiag' (checks/c14exit.py): every construct x outcome and every way of leaving a scope twice, then drawn
        forced = c14exit.CONSTRUCTS * 2 + [("leftscope", w) for w in c14exit.LEFT_WRAPS] * 2
        for i in range(8000 if thorough else 900):
            ex_cases.append(c14exit.exit_case(rng, forced[i] if i < len(forced) else None))
        for i in range(3000 if thorough else 400):
            fr_cases.append(c14exit.frame_case(rng))

    def fenc(c):
        return enc_files({k: v.encode("latin-1") for k, v in c["files"].items()})
    runl = ["RUN\t%s\t%s" % (V.hx(c["main"]), fenc(c)) for c in cases]
    ppl = ["PP\t%s\t%s" % (V.hx(c["main"]), fenc(c)) for c in cases]
    locl = ["LOC\t%s\t%s\t%s" % (V.hx(c["main"]), fenc(c),
                                ";".join("%s:%d:%d" % (V.hx("/T/" + c["fault_file"]), l, col if col is not None else 0) for (w, l, col) in c["expect"]))
            for c in cases]
    rc, irun, e1 = V.run_lines_parallel([himpl], runl, timeout=3000)
    rc, ipp, e2 = V.run_lines_parallel([himpl], ppl, timeout=3000)
    rc, mloc, e3 = V.run_lines_parallel(drv, locl, timeout=3000)

    kinds, feats, samples, distinct = {}, {}, [], set()
    stats = {"recognises_true": 0, "hidden_flag": 0, "column_demanded": 0, "column_not_demanded_macro_on_line": 0}
    for c, ir, ip, ml in zip(cases, irun, ipp, mloc):
        kinds[c["kind"]] = kinds.get(c["kind"], 0) + 1
        for f in c["features"]:
            feats[f] = feats.get(f, 0) + 1
        rep = {"kind": c["kind"], "main": c["main"], "files_hex": {k: V.hx(v.encode("latin-1")) for k, v in c["files"].items()},
               "files_text": c["files"], "fault_file": c["fault_file"], "expect": c["expect"], "col_exact": c["col_exact"],
               "comment_before": c["comment_before"], "features": c["features"], "impl_run": ir[:3000], "impl_pp": ip[:200], "model": ml[:3000]}
        fr = ir.split("\t")
        if fr[0] in ("CRASH", "TIMEOUT", "OOM", "EXCEPTION", "EXIT", "HARNESS-LOST", "BADLINE") or ip.split("\t")[0] != "OK":
            run.violation("a layout of valid statements does not preprocess/run: %s / %s" % (" ".join(fr[:2]), ip[:60]), rep)
            continue
        msgs = parse_msgs(fr[1] if len(fr) > 1 else "-")
        mf = ml.split("\t")
        if len(mf) < 3 or not mf[0].startswith("R=OK"):
            rep["broken"] = "reference expander rejects a generated layout"
            run.violation("model cannot process a generated layout (machinery)", rep, found_input=False)
            continue
        r_out, r_hidden = mf[0][2:].split(":")[1], mf[0][2:].split(":")[2]
        a_out = mf[1][2:].split(":")[1] if mf[1].startswith("A=OK") else None
        rec = mf[2]
        q = mf[3:]
        impl_out = ip.split("\t")[1]
        exp_file = "/T/" + c["fault_file"]
        distinct.add(hash(tuple(sorted(c["files"].items()))))
        if len(samples) < 5 and c["kind"] not in [s["kind"] for s in samples]:
            samples.append({"kind": c["kind"], "expect": c["expect"], "fault_file": c["fault_file"],
                            "main_text": c["files"][c["main"]][:400], "impl": ir[:300]})
        stats["hidden_flag"] += r_hidden == "1"
        # which emission rule does the implementation follow on this case?
        follows = "R" if impl_out == r_out else ("A" if impl_out == a_out else None)
        text_differs = follows is None
        if text_differs:
            rep["reference_output"] = V.unhx(r_out).decode("latin-1")[:3000]
            rep["impl_output"] = V.unhx(impl_out).decode("latin-1")[:3000]
        elif rec[4:5] == "1" and follows == "R":
            stats["recognises_true"] += 1
        elif follows == "R":
            rep["broken"] = "hypothesis 'recognises' of C14_line_sync is false on a generated layout"
            run.violation("the tokenizer model does not recognise the emitted #line texts", rep, found_input=False)
            continue
        oracle_failed = False
        for idx, (what, line, col) in enumerate(c["expect"]):
            if what == "linefile":
                g = [m for m in msgs if m["code"] == CODE["log"]]
                mm = re.search(r"\[(\d+),(.*)\]", g[0]["text"]) if g else None
                if not mm or int(mm.group(1)) != line or mm.group(2) != exp_file:
                    run.violation("__LINE__/__FILE__ expand to %s, written at line %d of %s" % (g[0]["text"] if g else "nothing", line, exp_file), rep)
                    oracle_failed = True
                continue
            got = observed(msgs, what)
            mr = q[2 * idx][2:] if len(q) > 2 * idx else "NOPROV"
            ma = q[2 * idx + 1][2:] if len(q) > 2 * idx + 1 else "NOPROV"
            def pos(x):
                if x == "NOPROV":
                    return None
                f, l, cc, ub = x.split(":")
                return (V.unhx(f).decode("latin-1"), int(l), int(cc))
            pr, pa = pos(mr), pos(ma)
            if got is None:
                run.violation("no %s diagnostic for the injected fault (stage %s)" % (what, fr[0]), rep)
                oracle_failed = True
                break
            want_col = col if (col is not None and c["col_exact"]) else None
            if want_col is None:
                stats["column_not_demanded_macro_on_line"] += 1
            else:
                stats["column_demanded"] += 1
            line_ok = (got[0], got[1]) == (exp_file, line)
            col_ok = want_col is None or got[2] == want_col
            if line_ok and col_ok:
                # oracle satisfied: the tokenizer model must say the same
                pm = None if text_differs else (pr if follows == "R" else pa)
                if pm is not None and pm != got:
                    rep["broken"] = "correspondence PP/Tracker.v vs tokenizer.hpp (model %s, implementation %s)" % (pm, got)
                    run.violation("tokenizer model and implementation disagree on a position (the property's oracle is satisfied)", rep, found_input=False)
                    oracle_failed = True
                    break
                continue
            # ---- the reported position is wrong: attribute it
            what_txt = "%s diagnostic reported at %s:%d:%d, the culprit is at %s:%d:%s" % (what, got[0], got[1], got[2], exp_file, line, col)
            if not line_ok:
                # known defect: newlines swallowed by continuations are not answered (multi-line #define)
                if follows == "A" and pa == got and pr is not None and pr[:2] == (exp_file, line) and run.known.has(PID, KEY_NL):
                    run.known_finding(KEY_NL)
                    continue
                run.violation(what_txt, rep)
                oracle_failed = True
                break
            # line right, column wrong
            if c["comment_before"] and pr is not None and (pr == got or pa == got) and run.known.has(PID, KEY_COMMENT):
                run.known_finding(KEY_COMMENT)
                continue
            if pa == got and pr is not None and pr == (exp_file, line, want_col) and follows == "A" and run.known.has(PID, KEY_DQ):
                run.known_finding(KEY_DQ)
                continue
            run.violation(what_txt, rep)
            oracle_failed = True
            break
        if text_differs and not oracle_failed:
            rep["broken"] = "correspondence: preprocessed text vs emission model (neither repaired nor as_is)"
            run.violation("preprocessed text differs from the emission model (every reported position is right on this input)", rep, found_input=False)
    lm = judge_linemacro(run, himpl, lm_cases)
    for k, n in lm["kinds"].items():
        kinds[k] = kinds.get(k, 0) + n
    ex = c14exit.judge(run, himpl, ex_cases, parse_msgs, enc_files)
    for k, n in ex["kinds"].items():
        kinds[k] = kinds.get(k, 0) + n
    frs = c14exit.judge_frames(run, himpl, drv, fr_cases)
    if fr_cases:
        kinds["framepos"] = len(fr_cases)
    for p in problems:
        run.violation("proof obligation not discharged: " + p, {"broken": p, "theorems": run.cov["theorems"]}, found_input=False)
    run.cov["evaluations"] = len(cases) + len(lm_cases) + len(ex_cases) + len(fr_cases)
    run.cov["distinct_nontrivial"] = len(distinct) + lm["distinct"] + ex["distinct"] + frs["distinct"]
    run.cov["rule"] = ("layouts from checks/ppgen.py:Layout (comment blocks, single- and multi-line defines, active/inactive conditional "
                       "sections with else, includes nested up to depth 3 entering and returning, CRLF per file, <= 60 lines) of statements that "
                       "run without diagnostics, followed by one injected fault at a generated file/line/column: parse error, runtime error, "
                       "undefined variable inside call, two-level stack trace, diag_log [__LINE__, __FILE__]; optionally behind an inline block "
                       "comment, a string with a doubled quote, or a macro use (then no column is demanded). Oracle: the generator's position. "
                       "Correspondence: preprocessed text vs the emission model, reported position vs the tokenizer model, 'recognises' evaluated. "
                       "Every case is non-trivial (a fault is always injected); distinct by file contents. "
                       "Family 'linemacro' (checks/ppgen.py:LineMacros, implementation-only oracle): files of generated #defines and uses in which "
                       "__LINE__/__FILE__ reach the text through macros in every position - plain in a body, left / right / middle operand of '##', "
                       "operand of '#', through object-like aliases and aliases of aliases, through calls of other macros in a body (plain, pasted, "
                       "stringified), as argument of a call in the text or in a body, nested calls - with the #define in the same file at any "
                       "distance, in an included file, behind a conditional (decoy in the dead branch), continued over several lines, re-defined "
                       "after #undef, and the use in the main file or an included file, several per line, LF/CRLF, between the layout elements of "
                       "the layout family; every use line must come out as the text the generator computes from 'the line and file where the "
                       "use is written' (blanks next to brackets/commas ignored), and the preprocessor diagnostics of an expansion (10013 empty "
                       "argument in the text or in a body, 10014 macro using itself: directly, through a second macro, plain / pasted / "
                       "stringified, object- and function-like) must be located at exactly the uses that raise them (file and line). "
                       "Family 'exitdiag' (checks/c14exit.py, implementation-only oracle: the generator's positions): diagnostics whose "
                       "location comes from a frame that is not executing an instruction - raised by the exit behaviour of a scope after its "
                       "block has finished (while / waitUntil condition, count / select / findIf predicate: value of the wrong type 60068, nil or "
                       "a block ending in an assignment 60069 / 60068, 'found no value' 60081 where a tree raises it; for: loop variable "
                       "overwritten 60084; forEach / apply: array resized 60088; whichever of these a case raises is judged) - over blocks of 1-4 statements on several lines with the layout elements of the layout family between "
                       "the statements, the head or the tail of the block in an included file, the closing brace / comments / directives "
                       "behind the last statement, the construct nested in call / then / a function called later / spawn or hosted in an "
                       "included file, arrays of 1-3 elements with the rejected element at any index, a condition that fails in a later "
                       "round; every message must name file, line and column (no column when a macro is used on that line) of the root token "
                       "of the block's last statement, the header and the innermost entry of the stack trace the same token, the next entries "
                       "the operator of the construct and the call / then around it; sub-family 'leftscope': an error inside the block of "
                       "exitWith (scope = file, call, then, function, apply / forEach / while / for body), the entry of the scope that was "
                       "left must name the exitWith token. "
                       "Family 'framepos' (correspondence with the extracted model coq/PP/FramePos.v): blocks of 1-5 such statements are "
                       "parsed by the real parser, a frame over the instructions is moved by frame::next() 0 .. len+3 times and asked for "
                       "diag_info_from_position() each time; it must be the diag_info of the instruction the model names (not started: the "
                       "first, standing on instruction k: k, behind the last one: the last)")
    run.cov["line_macro_family"] = {k: v for k, v in lm.items() if k != "samples"}
    run.cov["exit_diag_family"] = {k: v for k, v in ex.items() if k != "samples"}
    run.cov["frame_position_family"] = frs
    run.cov["input_distribution"] = kinds
    run.cov["layout_features"] = feats
    run.cov["samples"] = samples + lm["samples"] + ex["samples"]
    run.cov["outcomes"] = stats
    run.cov["conventions_observed"] = ("lines 1-based; columns 0-based byte offsets (tab = 1, CR not counted); runtime error 60076 and its stack "
                                       "trace entry point at the operator token, parse error 30015 at the unexpected token, 60070 at the identifier; "
                                       "the caller's stack-trace entry points at its 'call'; '#line N \"f\"' sets the NEXT line to N+1; root token of a "
                                       "statement = the last instruction it compiles to: binary / unary operator token, '=' of an assignment, the name "
                                       "behind 'private', '[' of an array literal, the literal or identifier itself")
    run.cov["trusted_base"] = ["Coq 8.16.1 kernel (vm_compute in witnesses/Examples only)", "ExtrOcamlBasic extraction + ocaml/pp_driver.ml",
                               "harness/h_pp.cpp + harness/sqfrt.hpp (RecLogger reads location() of every message) + fork/rlimit plumbing",
                               "layout generator in checks/ppgen.py (for the linemacro family also its expected-text evaluator LineMacros.ev)",
                               "checks/c14exit.py: generator of the exitdiag family and its bookkeeping of marked token positions",
                               "models PP/Spec.v (emission rules) and PP/Tracker.v (tokenizer bookkeeping) are hand-written; tied to default.cpp / "
                               "tokenizer.hpp only by this differential run; the parser's use of token positions (sqf_parser.cpp) and the runtime's "
                               "use of diag_info (logging.cpp, the exit behaviours of the operators) are observed end to end, not modelled; "
                               "frame::next / diag_info_from_position (frame.h) are modelled in PP/FramePos.v and tied by the framepos run"]
    return run.finish()
