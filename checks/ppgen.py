"""Source-text generators shared by checks/C13.py and checks/C14.py (area pp).

The C13 grammar (the property's quantifier): directives (#define object-/function-like, #undef,
#ifdef/#ifndef/#else/#endif nested, #include through a file tree), macro uses (nested calls, empty
arguments, brackets and strings inside arguments, the name of a function-like macro without
parentheses, names as prefixes/suffixes of other identifiers), # and ## in bodies, strings
(containing macro names, comment markers, '#', commas, brackets), comments everywhere (line, block,
multi-line, between and inside words, directly in front of strings, inside arguments), backslash
continuations (multi-line defines, between tokens, inside words, inside strings), plain tokens.

While it writes the text the generator keeps the little state the *property* gives meaning to
without any expander: which names are defined and whether the current position is in an active
branch. That yields oracles that do not depend on the Coq model:
  must_have   marker texts written in active plain text (string literals with comment markers and
              macro names inside, identifiers that merely contain a macro name) - must appear verbatim
  must_not    marker texts written in inactive branches / names defined only in inactive branches
Deliberately outside the grammar (documented in coq/PP/Spec.v): unbalanced quotes or brackets inside
arguments and directive lines, '#' at a line start that is no directive, malformed parameter lists,
text between a directive name and the end of an #ifdef/#undef line, self- or mutually recursive
macros (own small stream), the built-in macros other than __LINE__/__FILE__.
"""

import re

WORDCH = "abcdefghijklmnopqrstuvwxyzABCDEFGHIJKLMNOPQRSTUVWXYZ0123456789_"
MACRO_NAMES = ["A", "B", "FOO", "M1", "GV", "x", "ab", "Q", "CAT", "STR", "FN", "W2", "e", "T_"]
PARAMS = ["X", "Y", "Z", "ARG1", "p"]
PLAIN_WORDS = ["foo", "bar", "_x", "player", "select", "count", "if", "then", "1", "23", "0x1F", "1e5", "call", "private"]
PUNCT = ["+", "-", "*", " ", " ", " ", ";", "=", "==", ">", "<", "!", ":", ".", "&&", "%", "^"]


class Gen:
    def __init__(self, rng, nfiles=0, depth=0, crlf=False):
        self.rng = rng
        self.macros = {}        # name -> (params or None, index) for names currently defined (in the generator's view)
        self.index = {}         # name -> creation index (a body only refers to smaller indices: no recursion)
        self.next_index = 0
        self.files = {}
        self.must_have = []
        self.must_not = []
        self.uid = 0
        self.features = set()
        self.nl = "\r\n" if crlf else "\n"
        self.last_bare = False

    def fresh(self):
        self.uid += 1
        return self.uid

    # ---------------------------------------------------------------- small pieces
    def string(self, active_plain=False):
        r = self.rng
        parts = []
        for _ in range(r.randint(0, 4)):
            k = r.random()
            if k < 0.25 and self.macros:
                parts.append(r.choice(sorted(self.macros)))
            elif k < 0.4:
                parts.append(r.choice(["//", "/*", "*/", "/* c */", "// x"]))
            elif k < 0.5:
                parts.append(r.choice(["#", "#define A 9", "##", "#X"]))
            elif k < 0.65:
                parts.append(r.choice([",", "(", ")", "[", "]", "{", "}", "(,)"]))
            elif k < 0.7:
                parts.append(r.choice(["\\", "\\a3\\x", "'"]))
            else:
                parts.append(r.choice(PLAIN_WORDS + [" ", "  "]))
        body = r.choice(["", " "]).join(parts)
        if active_plain:
            body = "S%d %s" % (self.fresh(), body)
            self.features.add("string-with-markers")
        s = '"' + body + '"'
        return s

    def comment(self, inline_only=False):
        r = self.rng
        txt = r.choice(["c", " note ", "A B FOO", "#define Z 1", " x, y ", "'", "***", "/ /", ""])
        if not inline_only and r.random() < 0.25:
            self.features.add("multi-line-comment")
            return "/*" + txt + self.nl + r.choice([" more ", "#endif", "*", ""]) + self.nl * r.randint(0, 1) + "*/"
        self.features.add("block-comment")
        return "/*" + txt + "*/"

    def decoy_ident(self):
        """an identifier that contains a macro name as a proper part"""
        r = self.rng
        if not self.macros:
            return "zq%dz" % self.fresh()
        n = r.choice(sorted(self.macros))
        k = r.random()
        u = "%d" % self.fresh()
        if k < 0.34:
            w = n + "_k" + u + "z"
        elif k < 0.67:
            w = "k" + u + "z_" + n
        else:
            w = "k" + u + "z" + n + "z"
        self.features.add("macro-name-inside-identifier")
        return w

    def plain_token(self, in_body=False):
        r = self.rng
        k = r.random()
        if k < 0.35:
            return r.choice(PLAIN_WORDS)
        if k < 0.7:
            return r.choice(PUNCT)
        if k < 0.8:
            return r.choice(["(", ")", "[", "]", "{", "}", ","])
        if k < 0.9:
            return r.choice(["a # b", "arr # 0", "_a#1"])
        if not in_body and self.macros and r.random() < 0.5:
            self.features.add("macro-name-in-single-quotes")
            return "'" + r.choice(sorted(self.macros)) + "'"
        return r.choice(["'q'", "'zq w'", "5", "0.5"])

    # ---------------------------------------------------------------- macro uses
    def arg(self, depth, params, names=None):
        r = self.rng
        n = r.choice([0, 1, 1, 1, 2, 3])
        if n == 0:
            self.features.add("empty-argument")
            return r.choice(["", "", " "])
        out = []
        for _ in range(n):
            k = r.random()
            if k < 0.2 and params:
                out.append(r.choice(params))
            elif k < 0.45 and self.macros and depth < 2:
                out.append(self.use(depth + 1, params, names))
                self.features.add("macro-in-argument")
            elif k < 0.55:
                self.features.add("brackets-in-argument")
                out.append(r.choice(["(1,2)", "[a,b]", "{x;y,z}", "[(1,2),{3,4}]", "((,))", "[]"]))
            elif k < 0.68:
                self.features.add("string-in-argument")
                out.append(r.choice(['"a,b"', '"(x"', '")"', '"]"', '"A"', '"//"', '"/* */"']) if r.random() < 0.7 else self.string())
            elif k < 0.73:
                self.features.add("comment-in-argument")
                out.append(self.comment(inline_only=True))
            else:
                out.append(r.choice(PLAIN_WORDS + ["+", "-", " ", "_x", "something-1"]))
        sep = r.choice(["", "", " "])
        return sep.join(out)

    def use(self, depth=0, params=(), names=None):
        """text of one macro use (or of the bare name)"""
        r = self.rng
        pool = sorted(names if names is not None else self.macros)
        if not pool:
            return r.choice(PLAIN_WORDS)
        n = r.choice(pool)
        ps = self.macros[n][0] if n in self.macros else None
        if ps is None:
            self.features.add("object-like-use")
            return n
        k = r.random()
        if k < 0.08:
            self.features.add("function-like-name-without-call")
            self.last_bare = True
            return n
        if k < 0.11:
            self.features.add("function-like-name-blank-paren")
            return n + " (" + self.arg(depth, params, names) + ")"
        self.features.add("function-like-call")
        if depth > 0:
            self.features.add("nested-call")
        args = [self.arg(depth, list(params), names) for _ in ps]
        if not ps:
            return n + "()"
        return n + "(" + ",".join(args) + ")"

    # ---------------------------------------------------------------- definitions
    def body(self, params, idx):
        r = self.rng
        usable = [m for m in self.macros if self.index.get(m, 10 ** 9) < idx]
        out = []
        puses, calls = 0, 0
        for _ in range(r.randint(0, 6)):
            k = r.random()
            # at most 3 parameter uses and 2 calls per body: nested calls multiply the size of the expansion
            if k < 0.5 and params and puses >= 3:
                k = 0.9
            if 0.5 <= k < 0.67 and calls >= 2:
                k = 0.9
            if k < 0.5 and params:
                puses += 2 if 0.4 <= k else 1
            if 0.5 <= k < 0.67 and usable:
                calls += 1
            if k < 0.3 and params:
                out.append(r.choice(params))
            elif k < 0.4 and params:
                self.features.add("stringify")
                out.append(r.choice(["#", "# "]) + r.choice(params))
            elif k < 0.5 and params:
                self.features.add("concat")
                p, q = r.choice(params), r.choice(params)
                out.append(r.choice([p + "##" + q, "pre_##" + p, p + "##_suf", p + " ## " + q, "a##" + p + "##b", p + "##" + q + "##" + p]))
            elif k < 0.62 and usable:
                self.features.add("macro-in-body")
                out.append(self.use(1, params, usable))
            elif k < 0.67 and usable:
                self.features.add("hash-before-macro")
                out.append(r.choice(["#", "##"]) + r.choice(usable))
            elif k < 0.75:
                out.append(self.string())
            else:
                out.append(self.plain_token(in_body=True))
        return r.choice([" ", "", " "]).join(out)

    def define(self):
        r = self.rng
        n = r.choice(MACRO_NAMES)
        if n not in self.index:
            self.index[n] = self.next_index
            self.next_index += 1
        idx = self.index[n]
        kind = r.random()
        params = None
        if kind < 0.45:
            pool = PARAMS
            if r.random() < 0.3:
                # a parameter spelled like a macro (defined now, later or never): inside the body the PARAMETER is meant, the macro of that
                # name is shadowed - plain use, '#' and '##' alike (tenth seed round: one shared lookup asked the macro table first)
                pool = PARAMS + [m for m in MACRO_NAMES if m != n]
                self.features.add("parameter-named-like-a-macro")
            params = r.sample(pool, r.choice([0, 1, 1, 2, 2, 3]))
        body = self.body(params or [], idx) if r.random() < 0.9 else ""
        head = "#" + r.choice(["define", "define", "define", "DEFINE", "Define"]) + r.choice([" ", " ", "  ", "\t"]) + n
        if params is not None:
            self.features.add("function-like-define")
            head += "(" + r.choice([",", ", ", " , "]).join(params) + ")"
        else:
            self.features.add("object-like-define")
        line = head + (r.choice([" ", " ", "  "]) + body if body else "")
        # multi-line form: break at blanks with backslash-newline
        if r.random() < 0.3 and " " in body:
            self.features.add("multi-line-define")
            pieces = line.split(" ")
            cut = sorted(set(r.sample(range(1, len(pieces)), min(len(pieces) - 1, r.randint(1, 3)))))
            new = []
            for i, p in enumerate(pieces):
                new.append(p)
                if i + 1 < len(pieces):
                    new.append((" \\" + self.nl) if (i + 1) in cut and p.count('"') % 2 == 0 and " ".join(pieces[:i + 1]).count('"') % 2 == 0 else " ")
            line = "".join(new)
        if r.random() < 0.15:
            self.features.add("comment-after-directive")
            line += " " + r.choice(["// trailing", "/* t */", "// A B"])
        return n, params, line

    # ---------------------------------------------------------------- lines
    def plain_line(self, active):
        r = self.rng
        out = []
        for _ in range(r.randint(0, 7)):
            k = r.random()
            if k < 0.3 and self.macros:
                self.last_bare = False
                u = self.use()
                # a bare function-like name must not meet a '(' by accident (that would be a call)
                out.append(u + " ;" if self.last_bare else u)
            elif k < 0.42:
                s = self.string(active_plain=True)
                (self.must_have if active else self.must_not).append(s)
                out.append(s)
            elif k < 0.5:
                w = self.decoy_ident()
                (self.must_have if active else self.must_not).append(w)
                out.append(w)
            elif k < 0.58:
                out.append(self.comment())
            elif k < 0.62 and not active:
                w = "INACTIVE_%d_" % self.fresh()
                self.must_not.append(w)
                out.append(w)
            else:
                out.append(self.plain_token())
        seps = []
        for i in range(len(out)):
            k = r.random()
            if k < 0.55:
                seps.append(" ")
            elif k < 0.9:
                seps.append("")
            elif k < 0.95:
                self.features.add("continuation-in-plain-text")
                seps.append("\\" + self.nl)
            else:
                self.features.add("comment-between-tokens")
                seps.append("/**/")
        line = "".join(a + b for a, b in zip(out, seps))
        # a string directly behind a block comment / a word directly in front of a string
        if r.random() < 0.05:
            self.features.add("string-directly-after-comment")
            s = self.string(active_plain=True)
            (self.must_have if active else self.must_not).append(s)
            line += "/* c */" + s
        if r.random() < 0.1 and self.macros:
            self.features.add("word-directly-before-string")
            # also strings that begin like an argument list: a function-like name glued to such a string is still no call
            fl = sorted(n for n in self.macros if self.macros[n][0] is not None)
            name = r.choice(fl) if fl and r.random() < 0.6 else r.choice(sorted(self.macros))
            st = r.choice(['"w"', '"(c) w%d"', '"(1,2) tail%d"', '"()%d"', '"(x%d"', '"(a)(b)%d"'])
            if "%d" in st:
                st = st % self.fresh()
            if st != '"w"':
                self.features.add("name-glued-to-string-that-begins-like-arguments")
                (self.must_have if active else self.must_not).append(st)
            line += " " + name + st
        if r.random() < 0.04:
            self.features.add("continuation-inside-string")
            s = '"S%d a\\%sb"' % (self.fresh(), self.nl)
            (self.must_have if active else self.must_not).append(s.replace("\r", ""))
            line += " " + s
        if r.random() < 0.04:
            self.features.add("continuation-inside-word")
            line += " fo\\" + self.nl + "o"
        if r.random() < 0.12:
            self.features.add("line-comment")
            line += r.choice([" ", ""]) + "//" + r.choice([" c", " A B", ' "', " /*", " \\"])
        indent = r.choice(["", "", "", " ", "\t", "  "])
        return indent + line

    def block(self, nlines, active, depth, inc_depth, names_for_include):
        """lines of a file section; returns text. Keeps self.macros in step with the active directives."""
        r = self.rng
        out = []
        for _ in range(nlines):
            k = r.random()
            if k < 0.22:
                n, params, line = self.define()
                if active:
                    self.macros[n] = (params, self.index[n])
                out.append(line)
            elif k < 0.27 and (self.macros or r.random() < 0.3):
                n = r.choice(sorted(self.macros)) if self.macros and r.random() < 0.8 else r.choice(MACRO_NAMES)
                self.features.add("undef")
                out.append("#undef " + n + r.choice(["", " ", " // gone"]))
                if active:
                    self.macros.pop(n, None)
            elif k < 0.37 and depth < 3:
                n = r.choice(MACRO_NAMES + ["NOPE", "UNDEFINED_1"])
                neg = r.random() < 0.4
                self.features.add("conditional")
                if depth > 0:
                    self.features.add("nested-conditional")
                cond = (n in self.macros) != neg
                out.append(("#ifndef " if neg else "#ifdef ") + n + r.choice(["", " ", " // why"]))
                saved = dict(self.macros)
                if not (active and cond):
                    self.features.add("inactive-branch")
                t = self.block(r.randint(0, 4), active and cond, depth + 1, inc_depth, names_for_include)
                if t:
                    out.append(t)
                if not (active and cond):
                    self.macros = saved
                if r.random() < 0.5:
                    self.features.add("else")
                    out.append("#else" + r.choice(["", " // other"]))
                    saved = dict(self.macros)
                    if not (active and not cond):
                        self.features.add("inactive-branch")
                    t = self.block(r.randint(0, 3), active and not cond, depth + 1, inc_depth, names_for_include)
                    if t:
                        out.append(t)
                    if not (active and not cond):
                        self.macros = saved
                out.append("#endif" + r.choice(["", "", " // end"]))
            elif k < 0.43 and names_for_include and inc_depth < 3:
                name = names_for_include.pop(0)
                self.features.add("include")
                if inc_depth > 0:
                    self.features.add("nested-include")
                out.append('#include "/v/%s"' % name)
                if active:
                    self.files[name] = self.file_text(r.randint(0, 5), inc_depth + 1, names_for_include)
                else:
                    # an include in an inactive branch has no effect; the file exists all the same
                    self.files[name] = "LEAKED_%d_\n" % self.fresh()
                    self.must_not.append(self.files[name].strip())
            elif k < 0.46:
                # a definition that only exists in an inactive branch must stay without effect
                if not active:
                    w = "LEAK%d_" % self.fresh()
                    self.features.add("define-in-inactive-branch")
                    out.append("#define %s leaked_value" % w)
                    self.must_not.append("leaked_value")
                else:
                    out.append(self.plain_line(active))
            elif k < 0.49 and active:
                self.features.add("line-file-macro")
                out.append(r.choice(["__LINE__", "x = __FILE__;", "[__LINE__, __FILE__]", "__LINE__ __LINE__"]))
            else:
                out.append(self.plain_line(active))
        return self.nl.join(out)

    def file_text(self, nlines, inc_depth, names_for_include):
        t = self.block(nlines, True, 0, inc_depth, names_for_include)
        if self.rng.random() < 0.7:
            t += self.nl
        return t


def c13_case(rng, size=None):
    g = Gen(rng)
    names = ["inc%d.sqf" % i for i in range(1, 4)]
    main = g.file_text(size if size is not None else rng.choice([1, 2, 4, 8, 12, 20]), 0, names)
    files = {"m.sqf": main}
    files.update(g.files)
    # every decoy / marker that has later been *defined* by accident cannot happen (unique numbering)
    return {"main": "m.sqf", "files": files, "must_have": g.must_have, "must_not": g.must_not, "features": sorted(g.features)}


def passthrough_case(rng):
    """text with no directive, macro name, comment or continuation: must come out byte for byte"""
    alphabet = list("abcxyz_019 \t\n;=+-*<>!(){}[],.:'%^&|#\"") + ["foo", "bar", "_x", " ", " ", "\n", '"str // x"', '"/* */"', '"a\\b"', "a # b", "/ 2", "* /"]
    n = rng.choice([0, 1, 5, 20, 60])
    out = []
    for _ in range(n):
        out.append(rng.choice(alphabet))
    t = "".join(out)
    # remove what the premise excludes
    t = t.replace("//", "/ /").replace("/*", "/ *").replace("\\\n", "\\ \n")
    t = t.replace("__LINE__", "x").replace("__FILE__", "x")
    lines = []
    for ln in t.split("\n"):
        s = ln.lstrip(" \t")
        if s.startswith("#"):
            ln = "x" + ln
        lines.append(ln)
    t = "\n".join(lines)
    if t.count('"') % 2 == 1:
        t += '"'
    # a '#' preceded on its line only by blanks and strings is a directive for the implementation (S4)
    # (a string may have begun on an earlier line: what counts is what stands on the '#' line itself)
    out, in_str, only = [], False, True
    for ch in t:
        if ch == "\n":
            only = True
            out.append(ch)
            continue
        if in_str:
            if ch == '"':
                in_str = False
            out.append(ch)
            continue
        if ch == '"':
            in_str = True
        elif ch == "#" and only:
            out.append("x ")
            only = False
        elif ch not in " \t":
            only = False
        out.append(ch)
    return "".join(out)


RECURSIVE = [
    "#define A A\nA\n",
    "#define A B\n#define B A\nA\n",
    "#define F(X) F(X)\nF(1)\n",
    "#define A 1 + B\n#define B 2 + C\n#define C 3 + A\nx = A;\n",
    "#define F(X) G(X)\n#define G(X) F(X)\nF(2)\n",
    "#define A B\n#define B 5\nA\n",          # not recursive: control
    "#define F(X) X\nF(F(1))\n",              # the same macro inside its own argument is no recursion
]


def present(marker, text):
    """oracle helper: markers carry a unique number bracketed by non-digits, plain containment decides"""
    return marker in text


# =====================================================================================
# C14: source layouts with an injected fault

class Layout:
    """Builds files out of layout elements (comment blocks, single- and multi-line defines, inactive and
    active conditional sections, includes entering and returning, CRLF) made of statements that run
    without any diagnostic, and injects exactly one fault at a chosen file, line and column."""

    def __init__(self, rng):
        self.rng = rng
        self.files = {}
        self.features = set()
        self.v = 0
        self.defined = []       # object-like macros usable in code lines: name -> value text
        self.funcs = []         # function-like macros F(X,Y) usable in code lines

    def var(self):
        self.v += 1
        return "v%d" % self.v

    def stmt(self):
        r = self.rng
        k = r.random()
        if k < 0.3:
            return "%s = %d;" % (self.var(), r.randint(0, 99))
        if k < 0.45:
            return '%s = "s%d";' % (self.var(), r.randint(0, 9))
        if k < 0.55:
            self.features.add("string-with-doubled-quote")
            return '%s = "a""b";' % self.var()
        if k < 0.7:
            return "%s = [1, 2] select 0;" % self.var()
        if k < 0.8 and self.defined:
            self.features.add("macro-use-in-code")
            return "%s = %s;" % (self.var(), r.choice(self.defined))
        if k < 0.9:
            return "%s = 1 + 2; %s = 3;" % (self.var(), self.var())
        return ""

    def code_line(self):
        r = self.rng
        line = r.choice(["", "", " ", "\t", "    "]) + self.stmt()
        if r.random() < 0.2:
            self.features.add("trailing-line-comment")
            line += " // " + r.choice(["note", "x = 1 + \"a\";", "#define Q", "\""])
        if r.random() < 0.1:
            self.features.add("inline-block-comment")
            line += " /* c */"
        return [line]

    def string_lines(self):
        """a string literal that spans several lines, with doubled quotes before / behind its line breaks, in either quote style"""
        r = self.rng
        self.features.add("string-literal-over-several-lines")
        q = r.choice(['"', '"', "'"])
        n = r.choice([2, 2, 3, 4])
        parts = []
        for i in range(n):
            words = [r.choice(["alpha", "beta", "x1", "", "  ", "1 + 2;"]) for _ in range(r.randint(0, 3))]
            if r.random() < 0.5:
                self.features.add("doubled-quote-in-multi-line-string")
                words.insert(r.randint(0, len(words)), q + q)
            if r.random() < 0.15:
                words.append(q + q)
            parts.append(" ".join(words))
        lines = parts[:]
        lines[0] = r.choice(["", " ", "\t"]) + "%s = %s%s" % (self.var(), q, parts[0])
        lines[-1] = parts[-1] + q + ";" + r.choice(["", " %s = 1;" % self.var(), " // c"])
        return lines

    def call_lines(self):
        """a call of a function-like macro whose argument list is spread over several lines"""
        r = self.rng
        self.features.add("macro-call-over-several-lines")
        fn = r.choice(self.funcs)
        a, b = str(r.randint(0, 99)), r.choice(["2", "5", "(3 - 1)", "([4] select 0)"])
        ind = r.choice(["", "  ", "\t"])
        shape = r.randrange(5)
        head = "%s = %s(" % (self.var(), fn)
        if shape == 0:
            return [head + a + ",", ind + b + ");"]
        if shape == 1:
            return [head, ind + a + ",", ind + b, ind + ");"]
        if shape == 2:
            return [head + a, ind + ",", ind + b + ");"]
        if shape == 3:
            return [head, ind + a + ", " + b + ");"]
        return [head + a + ",", "", ind + b, ");"]

    def element(self, depth, inc_depth, names):
        r = self.rng
        k = r.random()
        if k < 0.08 and self.funcs:
            return self.call_lines()
        if k < 0.14:
            return self.string_lines()
        if k < 0.3:
            return self.code_line()
        if k < 0.4:
            self.features.add("comment-block")
            n = r.randint(1, 4)
            body = ["/* comment" ] + [r.choice([" * text", "   x = 1 + \"a\";", " #define Z 1", "", " \"", " // inner"]) for _ in range(n - 1)]
            body[-1] = body[-1] + " */" if n > 1 else "/* comment */"
            return body
        if k < 0.46:
            self.features.add("line-comment-block")
            return ["// " + r.choice(["line", "#include \"/v/none\"", "/* open"]) for _ in range(r.randint(1, 3))]
        if k < 0.56:
            self.features.add("single-line-define")
            n = "K%d" % len(self.defined)
            if r.random() < 0.6:
                self.defined.append(n)
                return ["#define %s %d" % (n, r.randint(0, 9))]
            fn = "F%d" % r.randint(0, 9)
            if fn not in self.funcs:
                self.funcs.append(fn)
            return ["#define %s(X,Y) (X + Y)" % fn]
        if k < 0.6:
            # a #define continued with backslash-newline INSIDE a string literal (once or twice)
            self.features.add("define-continued-inside-string")
            n = "S%d" % r.randint(0, 99)
            head = "#define %s%s " % (n, r.choice(["", "(X)"]))
            if r.random() < 0.7:
                return [head + '"first half, \\', 'second half"' + r.choice(["", " + \"x\""])]
            return [head + '"one, \\', 'two, \\', 'three"']
        if k < 0.7:
            self.features.add("multi-line-define")
            kk = r.randint(2, 5)
            n = "M%d" % r.randint(0, 99)
            lines = ["#define %s(X) \\" % n if r.random() < 0.5 else "#define %s \\" % n]
            for i in range(kk - 1):
                last = i == kk - 2
                lines.append("    " + r.choice(["X + 1", "[1, 2]", "call {}", "\"s\"", ""]) + ("" if last else " \\"))
            return lines
        if k < 0.8 and depth < 2:
            active = r.random() < 0.5
            self.features.add("active-branch" if active else "inactive-branch")
            head = ("#ifndef NOT_DEFINED_%d" if active else "#ifdef NOT_DEFINED_%d") % r.randint(0, 9)
            saved, savedf = list(self.defined), list(self.funcs)
            inner = []
            for _ in range(r.randint(0, 3)):
                if active:
                    inner += self.element(depth + 1, inc_depth, names)
                else:
                    inner += [r.choice(["garbage ) ( +", "x = 1 + \"a\";", "#define LEAK 1", "#include \"/v/none.sqf\"", "\"str #endif\"", "", "/* c */ y"])]
            out = [head] + inner
            if not active:
                self.defined, self.funcs = saved, savedf
            if r.random() < 0.4:
                self.features.add("else-branch")
                out.append("#else")
                saved, savedf = list(self.defined), list(self.funcs)
                for _ in range(r.randint(0, 2)):
                    if not active:
                        out += self.element(depth + 1, inc_depth, names)
                    else:
                        out += [r.choice(["garbage ] [", "z = ;", "#define LEAK2 1"])]
                if active:
                    self.defined, self.funcs = saved, savedf
            out.append("#endif")
            return out
        if k < 0.9 and names and inc_depth < 3:
            name = names.pop(0)
            self.features.add("include")
            if inc_depth > 0:
                self.features.add("nested-include")
            self.build_file(name, r.randint(0, 6), inc_depth + 1, names)
            return ['#include "/v/%s"' % name]
        return self.code_line()

    def build_file(self, name, nelems, inc_depth, names):
        lines = []
        for _ in range(nelems):
            lines += self.element(0, inc_depth, names)
        self.files[name] = lines
        return lines


FAULTS = ["parse", "runtime", "undefvar", "stack", "linefile", "inexpr"]


def c14_case(rng):
    lay = Layout(rng)
    names = ["inc%d.sqf" % i for i in range(1, 5)]
    lay.build_file("m.sqf", rng.choice([0, 1, 3, 6, 10]), 0, names)
    # where: any file, after any line of it (at the end of an included file the parent continues)
    fname = rng.choice(sorted(lay.files))
    lines = lay.files[fname]
    # the fault goes to the top level of that file: after a complete element; find the safe positions
    # (the generator appends elements as whole groups, so we insert between groups: recompute groups)
    # simplest: append at the end of the file, then add trailing elements behind it
    kind = rng.choice(FAULTS)
    indent = rng.choice(["", " ", "    ", "\t", "  \t"])
    pre = ""
    col_exact = True
    preknd = rng.random()
    if preknd < 0.12:
        lay.features.add("fault-after-inline-comment")
        pre = "/* c%d */ " % rng.randint(0, 99)
    elif preknd < 0.22 and lay.defined and kind != "parse" and fname == "m.sqf":
        lay.features.add("fault-after-macro-use")
        pre = "%s = %s; " % (lay.var(), rng.choice(lay.defined))
        col_exact = False
    elif preknd < 0.32:
        lay.features.add("fault-after-doubled-quote-string")
        pre = '%s = "q""r"; ' % lay.var()
    elif preknd < 0.40:
        pre = "%s = 5; " % lay.var()
    elif preknd < 0.50:
        # the fault stands behind the END of a comment that began on an earlier line: it is on the line it is written on
        lay.features.add("fault-after-inline-comment")
        lay.features.add("fault-behind-the-end-of-a-multi-line-comment")
        lines += [indent + "/* c%d" % rng.randint(0, 99)] + [rng.choice([" * more", "", "   x = 1 + \"a\";"]) for _ in range(rng.randint(0, 2))]
        indent = ""
        pre = rng.choice([" */ ", "*/ ", "   end */ "])
    head = indent + pre
    fault_lines = []
    ffile = fpos = None
    expect = []       # (what, line offset within fault_lines, col)
    if kind == "parse":
        stmt = "pe = 1 +;"
        fault_lines = [head + stmt]
        expect = [("parse", 0, len(head) + len(stmt) - 1)]
    elif kind == "runtime":
        stmt = 're = 1 + "a";'
        fault_lines = [head + stmt]
        expect = [("error", 0, len(head) + 7)]
    elif kind == "inexpr":
        # an #include in the middle of ONE statement (a list pulled into an array literal); the fault is a token written in the
        # included file: diagnostics and stack trace must name that file and its line
        inc = "lst%d.sqf" % rng.randint(0, 9)
        pad = [rng.choice(["", " ", "\t"]) + str(rng.randint(0, 9)) + "," for _ in range(rng.randint(0, 3))]
        ind2 = rng.choice(["", "  ", "\t"])
        lay.files[inc] = pad + [ind2 + '(1 + "a")']
        lay.features.add("include-inside-a-statement")
        fault_lines = [head + "fa = [", '#include "/v/%s"' % inc, "];"]
        expect = [("error", len(pad), len(ind2) + 3)]
        ffile, fpos = inc, 0
    elif kind == "undefvar":
        stmt = "call { zzundef + 1 };"
        fault_lines = [head + stmt]
        expect = [("undef", 0, len(head) + 7)]
    elif kind == "stack":
        gap = ["" for _ in range(rng.randint(0, 2))]
        f1 = head + 'fn = { 1 + "a" };'
        ind2 = rng.choice(["", "  ", "\t"])
        f2 = ind2 + "call fn;"
        fault_lines = [f1] + gap + [f2]
        expect = [("error", 0, len(head) + 9), ("trace1", 0, len(head) + 9), ("trace2", len(gap) + 1, len(ind2))]
    else:
        # __LINE__ in front of a separator, or as the last thing on its line (LF or CRLF behind it), alone or through
        # an object-like macro whose body is __LINE__
        shape = rng.choice(["inline", "inline", "eol", "eol", "eol-macro"])
        if shape == "inline":
            fault_lines = [head + "diag_log [__LINE__, __FILE__];"]
            expect = [("linefile", 0, None)]
        elif shape == "eol":
            lay.features.add("line-macro-at-end-of-line")
            ind2 = rng.choice(["", "  ", "\t"])
            fault_lines = [head + "diag_log [", ind2 + "__LINE__", ind2 + ", __FILE__];"]
            expect = [("linefile", 1, None)]
        else:
            lay.features.add("line-macro-at-end-of-line")
            lay.features.add("line-macro-through-define")
            if "fault-behind-the-end-of-a-multi-line-comment" in lay.features:
                lines.insert(0, "#define HERE__ __LINE__")      # not inside the comment that ends on the fault's line
                fault_lines = [head + "diag_log [", "HERE__", ", __FILE__];"]
                expect = [("linefile", 1, None)]
            else:
                fault_lines = ["#define HERE__ __LINE__", head + "diag_log [", "HERE__", ", __FILE__];"]
                expect = [("linefile", 2, None)]
        col_exact = False
    pos = len(lines)            # 0-based line index of the first fault line
    lines += fault_lines
    if ffile is not None:       # the culprit is written in another file than the statement it belongs to
        fname, pos = ffile, fpos
    # trailing layout behind the fault (never executed for error kinds, but it is preprocessed)
    for _ in range(rng.randint(0, 2)):
        lines += lay.code_line()
    crlf = {n: rng.random() < 0.3 for n in lay.files}
    if any(crlf.values()):
        lay.features.add("crlf")
    files = {}
    for n, ls in lay.files.items():
        nl = "\r\n" if crlf[n] else "\n"
        files[n] = nl.join(ls) + (nl if rng.random() < 0.8 else "")
    # when the fault is in an included file that is never included (cannot happen: files are only built when included)
    nlines = max(len(ls) for ls in lay.files.values())
    return {"main": "m.sqf", "files": files, "fault_file": fname, "kind": kind,
            "expect": [(w, pos + off + 1, col) for (w, off, col) in expect],
            "col_exact": col_exact, "comment_before": "fault-after-inline-comment" in lay.features,
            "features": sorted(lay.features), "nlines": nlines}


# =====================================================================================
# C14, last clause: __LINE__ / __FILE__ in every position of a macro expansion
#
# "__LINE__ and __FILE__ expand to the line and file where they are written": for a __LINE__ / __FILE__ that reaches the text
# through macros that is the line / file of the outermost macro use written in the source text - whatever the route: plain in a
# body, operand of '##' (left, right, in the middle) or of '#', through object-like aliases (#define LN __LINE__, aliases of
# aliases), through a call of another macro in the body (plain, pasted, stringified), as an argument of a call (in the text or in a
# body), and wherever the #define stands (same file any distance above, a header, behind a conditional, continued over several
# lines, re-defined after #undef) and wherever the use stands (main file, included file, CRLF file, several uses on one line).
# The same position is what a preprocessor diagnostic raised during the expansion has to name (EmptyArgument 10013,
# RecursiveMacro 10014).
#
# The generator writes bodies as small trees and computes the expected text of every use itself (eval below): no expander, no
# model - substitution of parameters, '##' = gluing, '#' = quoting, __LINE__ -> line of the use, __FILE__ -> "file of the use".

class LineMacros:
    LITS = ["_v", "_w", "tag_", "x", "k1", "_t_", "q", "_n0", "7"]

    def __init__(self, rng):
        self.rng = rng
        self.lay = Layout(rng)          # layout noise (comment blocks, defines, conditionals, includes, strings over lines)
        self.noise_names = ["inc%d.sqf" % i for i in range(1, 4)]
        self.macros = {}                # name -> (params, items): the table at this point of the text, in the generator's view
        self.banned = set()             # names a body under construction must not refer to
        self.features = set()
        self.uses = []                  # [marker, file, line (1-based), expected text of the line, macros it goes through, away from their defines]
        self.where = {}                 # name -> (file, line) of its latest #define
        self.cur = ("m.sqf", 0)
        self.diags = []                 # [code, file, line]
        self.nfile = 0
        self.nmac = 0
        self.nuse = 0

    # ------------------------------------------------------------ expected text
    def ev(self, it, env, L, F, diags):
        t = it[0]
        if t == "lit":
            return it[1]
        if t == "par":
            return env[it[1]]
        if t == "line":
            return str(L)
        if t == "file":
            return '"' + F + '"'
        if t == "obj":
            return self.evbody(it[1], [], L, F, diags)
        if t == "call":
            args = []
            for a in it[2]:
                if not a:
                    diags.add((10013, F, L))        # an argument without text: EmptyArgument, named at the use
                args.append(" ".join(self.ev(x, env, L, F, diags) for x in a))
            return self.evbody(it[1], args, L, F, diags)
        if t == "paste":
            return "".join(self.ev(x, env, L, F, diags) for x in it[1])
        if t == "str":
            return '"' + self.ev(it[1], env, L, F, diags) + '"'
        raise ValueError(t)

    def evbody(self, name, args, L, F, diags):
        params, items, wrap = self.macros[name]
        env = dict(zip(params or [], args))
        txt = [self.ev(x, env, L, F, diags) for x in items]
        return "[ " + ", ".join(txt) + " ]" if wrap else " ".join(txt)

    # ------------------------------------------------------------ source text
    def src(self, it):
        t = it[0]
        if t in ("lit", "par"):
            return it[1]
        if t == "line":
            return "__LINE__"
        if t == "file":
            return "__FILE__"
        if t == "obj":
            return it[1]
        if t == "call":
            return it[1] + "(" + ",".join(" ".join(self.src(x) for x in a) for a in it[2]) + ")"
        if t == "paste":
            return "##".join(self.src(x) for x in it[1])
        if t == "str":
            return "#" + self.src(it[1])
        raise ValueError(t)

    # ------------------------------------------------------------ pieces
    def objs(self):
        return sorted(n for n, m in self.macros.items() if m[0] is None and n not in self.banned)

    def funs(self):
        return sorted(n for n, m in self.macros.items() if m[0] is not None and n not in self.banned)

    def refs(self, it):
        """names of the macros an item refers to"""
        t = it[0]
        if t == "obj":
            return {it[1]}
        if t == "call":
            return {it[1]}.union(*[self.refs(x) for a in it[2] for x in a])
        if t == "paste":
            return set().union(*[self.refs(x) for x in it[1]])
        if t == "str":
            return self.refs(it[1])
        return set()

    def reaches(self, name):
        """the macros whose expansion can get to [name] (a re-definition of [name] must not refer to them: no recursion)"""
        out, grew = {name}, True
        while grew:
            grew = False
            for n, m in self.macros.items():
                if n not in out and any(self.refs(x) & out for x in m[1]):
                    out.add(n)
                    grew = True
        return out

    def pos_atom(self, allow_file=True):
        """__LINE__ / __FILE__ directly or through an object-like macro"""
        r = self.rng
        k = r.random()
        o = self.objs()
        if k < 0.35 and o:
            self.features.add("through-object-like-alias")
            return ("obj", r.choice(o))
        if k < 0.5 and allow_file:
            return ("file",)
        return ("line",)

    def arg(self, params, in_body):
        """one argument of a call: a list of items (empty list = empty argument)"""
        r = self.rng
        k = r.random()
        if k < 0.3 and params:
            return [("par", r.choice(params))]
        if k < 0.55:
            self.features.add("line-macro-as-argument-in-a-body" if in_body else "line-macro-as-argument")
            return [self.pos_atom(allow_file=False)]
        if k < 0.62:
            self.features.add("empty-argument-in-a-body" if in_body else "empty-argument")
            return []
        f = self.funs()
        if k < 0.72 and f and not in_body:
            self.features.add("call-as-argument")
            n = r.choice(f)
            return [("call", n, [[("lit", r.choice(self.LITS))] for _ in self.macros[n][0]])]
        return [("lit", r.choice(self.LITS))]

    def call(self, params, in_body):
        r = self.rng
        n = r.choice(self.funs())
        return ("call", n, [self.arg(params, in_body) for _ in self.macros[n][0]])

    def operand(self, params):
        """operand of '##' / '#': a single word, or a macro name with its argument list"""
        r = self.rng
        k = r.random()
        if k < 0.3 and params:
            return ("par", r.choice(params))
        if k < 0.62:
            return self.pos_atom(allow_file=r.random() < 0.3)
        if k < 0.77 and self.funs():
            self.features.add("call-as-operand-of-hash")
            return self.call(params, True)
        return ("lit", r.choice(self.LITS))

    def body_item(self, params):
        r = self.rng
        k = r.random()
        if k < 0.34:
            n = r.choice([2, 2, 2, 3])
            ops = [self.operand(params) for _ in range(n)]
            # at least one operand is (or leads to) __LINE__/__FILE__ in most pastes: that is what the family is about
            if r.random() < 0.8 and not any(o[0] in ("line", "file", "obj", "call") for o in ops):
                ops[r.randrange(n)] = self.pos_atom(allow_file=False)
            for i, o in enumerate(ops):
                if o[0] in ("line", "file", "obj"):
                    self.features.add("line-macro-%s-of-paste" % ("left" if i == 0 else ("right" if i == n - 1 else "in-the-middle")))
            return ("paste", ops)
        if k < 0.48:
            o = self.operand(params)
            if o[0] in ("line", "file", "obj"):
                self.features.add("line-macro-operand-of-stringify")
            return ("str", o)
        if k < 0.62:
            self.features.add("line-macro-plain-in-body")
            return self.pos_atom()
        if k < 0.76 and self.funs():
            self.features.add("call-in-body")
            return self.call(params, True)
        if k < 0.9 and params:
            return ("par", r.choice(params))
        return ("lit", r.choice(self.LITS))

    def new_body(self, params):
        r = self.rng
        if params is None:
            k = r.random()
            o = self.objs()
            if k < 0.3:
                return [("line",)], False
            if k < 0.4:
                return [("file",)], False
            if k < 0.55 and o:
                self.features.add("alias-of-alias")
                return [("obj", r.choice(o))], False
            return [self.body_item([]) for _ in range(r.randint(1, 2))], r.random() < 0.4
        return [self.body_item(params) for _ in range(r.randint(1, 3))], r.random() < 0.5

    def define_lines(self, name=None):
        """lines of one #define (single line, continued over several lines, or behind a conditional with a decoy in the dead branch)"""
        r = self.rng
        if name is None:
            self.nmac += 1
            name = "Z%s%d" % (r.choice("UAQ"), self.nmac)
            params = None if r.random() < 0.35 else r.sample(["n", "a", "b"], r.choice([1, 1, 2]))
        else:
            params = self.macros[name][0]       # a re-definition keeps the kind and the arity
            if params is not None:
                params = list(params)
            self.banned = self.reaches(name)
        items, wrap = self.new_body(params)
        self.banned = set()
        head = "#define " + name + ("(" + ",".join(params) + ")" if params is not None else "")
        parts = [self.src(x) for x in items]
        if wrap:
            parts = ["["] + [p + "," for p in parts[:-1]] + [parts[-1], "]"]
        k = r.random()
        if k < 0.2 and len(parts) > 1:
            self.features.add("define-continued-over-several-lines")
            cut = r.randrange(1, len(parts))
            lines = [head + " " + " ".join(parts[:cut]) + " \\", r.choice(["  ", "\t", ""]) + " ".join(parts[cut:])]
            if r.random() < 0.4:
                lines = [head + " \\"] + ["    " + lines[0][len(head) + 1:], lines[1]]
        else:
            lines = [head + " " + " ".join(parts)]
        if k > 0.85:
            self.features.add("define-behind-a-conditional")
            decoy = head + " " + r.choice(["wrong_branch", "0", "n##_dead" if params and "n" in params else "dead"])
            if r.random() < 0.5:
                lines = ["#ifdef NOT_DEFINED_%d" % r.randint(0, 9), decoy, "#else"] + lines + ["#endif"]
            else:
                lines = ["#ifndef NOT_DEFINED_%d" % r.randint(0, 9)] + lines + ["#else", decoy, "#endif"]
        self.macros[name] = (params, items, wrap)
        self.where[name] = (self.cur[0], self.cur[1] + 1)
        return lines

    def use_line(self, fname, idx):
        """one line of text with uses of the macros defined so far; its expected text is computed here"""
        r = self.rng
        self.nuse += 1
        marker = "u%d" % self.nuse
        items = [("line",)]
        for _ in range(r.choice([1, 1, 2, 3])):
            k = r.random()
            if k < 0.55 and self.funs():
                items.append(self.call([], False))
            elif k < 0.8 and self.objs():
                items.append(("obj", r.choice(self.objs())))
            elif k < 0.9:
                items.append(("file",))
            else:
                items.append(("line",))
        if len(items) > 2:
            self.features.add("several-uses-on-one-line")
        F, L = "/T/" + fname, idx + 1
        d = set()
        exp = marker + " = [" + ", ".join(self.ev(x, {}, L, F, d) for x in items) + "];"
        for x in sorted(d):
            self.diags.append(list(x))
        names, grew = set().union(*[self.refs(x) for x in items]), True
        while grew:
            more = set().union(*[self.refs(x) for n in names for x in self.macros[n][1]]) - names
            names |= more
            grew = bool(more)
        away = bool(names) and all(self.where[n][0] != fname or abs(L - self.where[n][1]) > 6 for n in names)
        self.uses.append([marker, fname, L, exp, len(names), away])
        return r.choice(["", "", " ", "\t", "    "]) + marker + " = [" + ", ".join(self.src(x) for x in items) + "];" + r.choice(["", "", " // c", " /* c */"])

    def gen_file(self, name, nelems, depth):
        r = self.rng
        lines = []
        self.lay.files[name] = lines
        for _ in range(nelems):
            k = r.random()
            if k < 0.25:
                lines += self.lay.element(0, depth, self.noise_names)
            elif k < 0.5:
                self.cur = (name, len(lines))
                lines += self.define_lines()
            elif k < 0.56 and self.macros:
                self.features.add("re-definition-after-undef")
                n = r.choice(sorted(self.macros))
                lines.append("#undef " + n)
                self.cur = (name, len(lines))
                lines += self.define_lines(n)
            elif k < 0.66 and depth < 2 and self.nfile < 3:
                self.nfile += 1
                inc = "lm%d.hpp" % self.nfile
                self.features.add("defines-and-uses-in-an-included-file")
                lines.append('#include "/v/%s"' % inc)
                self.gen_file(inc, r.randint(1, 6), depth + 1)
            elif k < 0.72:
                lines += [""] * r.randint(1, 5)
            else:
                if depth > 0:
                    self.features.add("use-in-an-included-file")
                lines.append(self.use_line(name, len(lines)))
        return lines


def linemacro_case(rng):
    g = LineMacros(rng)
    main = g.gen_file("m.sqf", rng.choice([3, 6, 10, 16]), 0)
    # every case ends with a definition that has __LINE__ behind '##' or '#', some distance, and uses on two different lines
    while len([u for u in g.uses if u[1] == "m.sqf"]) < 2 or not g.funs():
        if not g.funs() or rng.random() < 0.3:
            g.cur = ("m.sqf", len(main))
            main += g.define_lines()
        main += [""] * rng.randint(0, 3)
        if g.funs():
            main.append(g.use_line("m.sqf", len(main)))
    kind = "linemacro"
    if rng.random() < 0.12:
        # a macro that uses itself (directly or through a second one; plain, pasted or stringified): RecursiveMacro is an error of
        # the use, named where the use is written
        kind = "linemacro-recursive"
        g.features.add("recursive-macro")
        shape = rng.randrange(5)
        fl = rng.random() < 0.5
        p, a = ("(n)", "(1)") if fl else ("", "")
        body = {0: "x##RX" + p, 1: "[RX%s]" % p, 2: "#RY" + p, 3: "RY" + p, 4: "q RX" + p}[shape]
        main += ["#define RX%s %s" % (p, body)]
        if shape in (2, 3):
            main += ["#define RY%s %s" % (p, rng.choice(["RX" + p, "k##RX" + p]))]
        main += [""] * rng.randint(0, 4)
        g.diags.append([10014, "/T/m.sqf", len(main) + 1])
        main.append(rng.choice(["", "  "]) + "r1 = " + rng.choice(["RX", "RY"] if shape in (2, 3) else ["RX"]) + a + ";")
    for _ in range(rng.randint(0, 2)):
        main += g.lay.code_line()
    crlf = {n: rng.random() < 0.25 for n in g.lay.files}
    if any(crlf.values()):
        g.features.add("crlf")
    files = {}
    for n, ls in g.lay.files.items():
        nl = "\r\n" if crlf[n] else "\n"
        files[n] = nl.join(ls) + (nl if rng.random() < 0.8 else "")
    return {"kind": kind, "main": "m.sqf", "files": files, "uses": g.uses, "diags": g.diags,
            "features": sorted(g.features | set("noise:" + f for f in g.lay.features))}
