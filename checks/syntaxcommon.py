"""Shared by checks/C01.py and checks/C06_code.py: build of the syntax harness and driver, the translators
(Gen/Registry.v, Gen/Grammar.v), the tree generator, the printers (minimal / redundant parentheses, random
whitespace and letter case), the property oracle (post-order of the documented reading) and canonicalisation."""
import os, re, struct, sys
import vcommon as V

sys.path.insert(0, os.path.join(V.VERIF, "translators"))
import registry as TR
import grammar as TG

SYMS = ["==", "<=", "<", ">=", ">>", ">", "+", "-", "/", "*", "%", "^", "!=", "!", ":", "#", "||", "&&"]
IDENT_RE = re.compile(r"[A-Za-z_][A-Za-z0-9_]*\Z")
KEYWORDS = ("true", "false", "private")


def hx(b):
    return V.hx(b)


def write_if_changed(path, producer):
    """run producer(tmp) and move the result over path only when the content differs (keeps .vo files fresh)"""
    tmp = path + ".tmp"
    info = producer(tmp)
    new = open(tmp).read()
    if not os.path.exists(path) or open(path).read() != new:
        os.replace(tmp, path)
    else:
        os.remove(tmp)
    return info


class Ctx:
    pass


def grammar_baseline(gen, e):
    """grammar.py reads the output of one bison version and the text of yylex with regular expressions: a regenerated parser.tab.cc, a renamed
    local of yylex stop it although the parser reads every text as before.  The table of translators/baseline/ then stands in (the layered
    grammar the parser model was proved against) and is tied to the tree by the differential runs of C01 / C06: tokens and instruction
    listings of every generated text, the real bison parser against the functional one.  Returns False when there is no baseline."""
    b = os.path.join(V.VERIF, "translators", "baseline", "Grammar.v")
    if not os.path.exists(b):
        return False
    txt = open(b).read()
    q = os.path.join(gen, "Grammar.v")
    if not os.path.exists(q) or open(q).read() != txt:
        open(q, "w").write(txt)
    V.TRANSLATOR_FALLBACK["grammar"] = "translator grammar.py no longer recognises the source: " + str(e)[:300].replace("\n", " ")
    return True


def setup(run, want_prove=True):
    """build harness (flavour by tier), dump the registry, regenerate Gen/*.v, build the driver.
    Returns ctx; ctx.problems lists broken ties of the translators."""
    ctx = Ctx()
    ctx.problems = []
    flavour = "asan" if run.tier == "thorough" else "plain"
    ctx.harness = V.build_harness("h_syntax", flavour)
    gen = os.path.join(V.COQ, "Gen")
    os.makedirs(gen, exist_ok=True)
    ctx.reg = None
    ctx.translated = {}
    with V.Lock("syntax-gen"):
        try:
            text = TR.dump(ctx.harness)
            ctx.reg = TR.read_dump(text)
            ctx.regfile = os.path.join(V.BUILD, "syntax-registry.txt")
            with open(ctx.regfile, "w") as f:
                f.write(text)
            ctx.translated["registry"] = write_if_changed(os.path.join(gen, "Registry.v"), lambda p: TR.translate(ctx.reg, p))
        except (TR.TranslateError, OSError, ValueError) as e:
            ctx.problems.append("translator registry.py: " + str(e)[:500])
        try:
            ctx.translated["grammar"] = write_if_changed(os.path.join(gen, "Grammar.v"), lambda p: TG.translate(V.REPO, p))
        except (TG.TranslateError, OSError, ValueError, IndexError, KeyError) as e:
            for stale in ("Grammar.v.tmp",):
                if os.path.exists(os.path.join(gen, stale)):
                    os.remove(os.path.join(gen, stale))
            if not grammar_baseline(gen, e):
                ctx.problems.append("translator grammar.py: " + str(e)[:800])
            else:
                ctx.translated["grammar"] = "baseline"
    ctx.driver = V.ocaml_driver("syntax")
    if ctx.reg is None:
        raise V.BuildError("registry of the built runtime could not be read: " + "; ".join(ctx.problems))
    ctx.pools = Pools(ctx.reg)
    return ctx


# ------------------------------------------------------------------------------------ registry pools
def lexable(name):
    return (IDENT_RE.match(name) is not None and name not in KEYWORDS) or name in SYMS


class Pools:
    def __init__(self, reg):
        self.B = [[] for _ in range(10)]; self.BU = [[] for _ in range(10)]
        self.BN = [[] for _ in range(10)]; self.BUN = [[] for _ in range(10)]
        self.U, self.N, self.UN = [], [], []
        self.real_UN = []
        self.opnames = set()
        self.unlexable = []
        self.badprec = []
        for nb, e in sorted(reg.items()):
            n = nb.decode("latin-1")
            self.opnames.add(n)
            if not lexable(n):
                if n not in KEYWORDS:
                    self.unlexable.append(n)
                continue
            b, u, nl = bool(e["precs"]), e["u"], e["n"]
            if b:
                p = e["precs"][0]
                if not (1 <= p <= 10):
                    self.badprec.append(n)
                    continue
                k = p - 1
                (self.BUN if u and nl else self.BU if u else self.BN if nl else self.B)[k].append(n)
            elif u and nl:
                self.UN.append(n)
                if not e["d"]:
                    self.real_UN.append(n)
            elif u:
                self.U.append(n)
            elif nl:
                self.N.append(n)
        self.all_binary = [(k, n) for k in range(10) for cls in (self.B, self.BU, self.BN, self.BUN) for n in cls[k]]
        self.all_unary = self.U + self.UN + [n for k in range(10) for n in self.BU[k] + self.BUN[k]]
        self.all_nular = self.N + [n for k in range(10) for n in self.BN[k]]

    def binary_at(self, rng, k):
        cands = self.B[k] + self.BU[k] + self.BN[k] + self.BUN[k]
        # weight the rarer classes up a little
        r = rng.random()
        if r < 0.15 and self.BU[k]:
            cands = self.BU[k]
        elif r < 0.25 and self.BN[k]:
            cands = self.BN[k]
        elif r < 0.35 and self.BUN[k]:
            cands = self.BUN[k]
        return rng.choice(cands)

    def unary(self, rng):
        r = rng.random()
        if r < 0.1:
            return "private"
        if r < 0.3:
            return rng.choice(["-", "+", "!"])
        if r < 0.4 and self.UN:
            return rng.choice(self.UN)
        return rng.choice(self.all_unary)

    def nular(self, rng):
        return rng.choice(self.all_nular)


# ------------------------------------------------------------------------------------ trees
NUMS = ["0", "1", "2", "5", "7", "10", "42", "123", "1000", "100000", "1.5", "0.25", ".5", "3.14159", "1e3", "2.5e-2", "1E+2", "12.75"]
HEXS = ["0x10", "$1F", "0xff", "$a", "0x0"]
STRS = ['"abc"', '""', '"a""b"', "'x'", "'it''s'", '"sp ace"', "'q\"uote'", '"{}[];,"', '"1+2"', "''"]
VARS = ["_x", "_foo", "a", "b", "bar1", "_i", "someVar", "f", "t", "p", "tru", "fals", "privat", "true1", "false_x", "private_y",
        "_true", "x_false", "trueish", "privateer", "e", "x", "_0"]


def recase(rng, s):
    if rng.random() < 0.5:
        return s
    return "".join(c.upper() if rng.random() < 0.5 else c.lower() for c in s)


class Gen:
    def __init__(self, rng, pools):
        self.rng, self.p = rng, pools
        self.vars = [v for v in VARS if v.lower() not in pools.opnames]

    def lit(self):
        r = self.rng.random()
        if r < 0.45:
            return ("num", self.rng.choice(NUMS))
        if r < 0.55:
            return ("hex", self.rng.choice(HEXS))
        if r < 0.8:
            return ("str", self.rng.choice(STRS))
        return ("true", recase(self.rng, "true")) if self.rng.random() < 0.5 else ("false", recase(self.rng, "false"))

    def var(self):
        return ("var", self.rng.choice(self.vars))

    def atom(self):
        r = self.rng.random()
        if r < 0.4:
            return self.lit()
        if r < 0.8:
            return self.var()
        return ("nul", recase(self.rng, self.p.nular(self.rng)))

    def expr(self, depth, allow_blocks=True):
        rng = self.rng
        if depth <= 0 or rng.random() < 0.15:
            return self.atom()
        r = rng.random()
        if r < 0.5:
            k = rng.randrange(10)
            return ("bin", k, recase(rng, self.p.binary_at(rng, k)), self.expr(depth - 1, allow_blocks), self.expr(depth - 1, allow_blocks))
        if r < 0.72:
            return ("un", recase(rng, self.p.unary(rng)), self.expr(depth - 1, allow_blocks))
        if r < 0.86 or not allow_blocks:
            return ("arr", [self.expr(depth - 1, allow_blocks) for _ in range(rng.choice([0, 1, 2, 3]))])
        return ("code", self.stmts(depth - 1, rng.choice([0, 1, 2, 3])))

    def stmt(self, depth):
        r = self.rng.random()
        if r < 0.6:
            return ("expr", self.expr(depth))
        if r < 0.8:
            return ("assign", self.rng.choice(self.vars), self.expr(depth))
        return ("local", self.rng.choice([v for v in self.vars if v.startswith("_")] or self.vars), self.expr(depth))

    def stmts(self, depth, n):
        return [self.stmt(depth) for _ in range(n)]


def tree_names(t, acc):
    """operator names (lower case) used by a tree, by role"""
    k = t[0]
    if k == "nul":
        acc.add(("n", t[1].lower()))
    elif k == "un":
        acc.add(("u", t[1].lower())); tree_names(t[2], acc)
    elif k == "bin":
        acc.add(("b", t[2].lower())); tree_names(t[3], acc); tree_names(t[4], acc)
    elif k == "arr":
        for e in t[1]:
            tree_names(e, acc)
    elif k == "code":
        for s in t[1]:
            tree_names(s[-1], acc)
    return acc


# ------------------------------------------------------------------------------------ literals
def f32(x):
    try:
        return struct.unpack("f", struct.pack("f", x))[0]
    except OverflowError:
        return float("inf") if x > 0 else float("-inf")


def canon_num(kind, text, neg):
    if kind == "N":
        m = re.match(r"(\d+\.?\d*|\.\d+)([eE][+-]?\d+)?", text)      # std::stod reads the longest valid prefix
        v = float(m.group(0))
    else:
        v = float(int(text.replace("$", "0x"), 16))
    v = f32(v)
    if neg:
        v = -v
    return "%g" % v


def unquote(s):
    if len(s) < 2 or s[0] not in "\"'":
        return ""
    q, out, i, body = s[0], [], 1, s
    while i < len(body) - 1:
        c = body[i]
        if c == q and i + 1 < len(body) and body[i + 1] == q:
            i += 1
        out.append(c)
        i += 1
    return "".join(out)


def requote(v):
    return '"' + v.replace('"', '""') + '"'


def canon_model_listing(l):
    """model listing -> the implementation's listing format (PL:neg:kind:hex -> PN/PS/PB)"""
    out = []
    pre = ""
    if l.startswith("OK\t"):
        pre, l = "OK\t", l[3:]
    for tok in l.split(" "):
        if tok.startswith("PL:"):
            _, neg, kind, h = tok.split(":")
            text = V.unhx(h).decode("latin-1")
            if kind in ("N", "H"):
                try:
                    out.append("PN:" + hx(canon_num(kind, text, neg == "1")))
                except (ValueError, OverflowError, AttributeError):
                    out.append("PN:?" + h)
            elif kind == "S":
                out.append("PS:" + hx(unquote(text)))
            else:
                out.append("PB:" + ("1" if kind == "T" else "0"))
        else:
            out.append(tok)
    return pre + " ".join(out)


MARK = re.compile(b"\x01([NHSTF])([^\x02]*)\x02")


def canon_model_text(b):
    """model text of `str code` with literals wrapped in \\x01 kind text \\x02 -> what the runtime prints"""
    def rep(m):
        kind, text = m.group(1).decode(), m.group(2).decode("latin-1")
        if kind in ("N", "H"):
            return canon_num(kind, text, False).encode()
        if kind == "S":
            return requote(unquote(text)).encode("latin-1")
        return b"true" if kind == "T" else b"false"
    return MARK.sub(rep, b)


def neg_text(t):
    return t[1:] if t.startswith("-") else "-" + t


def norm_fold(listing):
    """the sign fold is transparent to C01's oracle: PUSH v followed by unary - / + on a number literal is the
    negated / same PUSH (the reading and its value are unchanged either way)"""
    toks = [t for t in listing.split(" ") if t]
    out = []
    for t in toks:
        if t in ("U:2d", "U:2b") and out and out[-1].startswith("PN:"):
            if t == "U:2d":
                out[-1] = "PN:" + hx(neg_text(V.unhx(out[-1][3:]).decode("latin-1")))
        else:
            out.append(t)
    return " ".join(out)


# ------------------------------------------------------------------------------------ oracle: post-order of the reading
def unsigned(t):
    if t[0] in ("num", "hex"):
        return t
    if t[0] == "un" and t[1] == "+":
        return unsigned(t[2])
    return None


def post(t):
    k = t[0]
    if k == "num":
        return ["PN:" + hx(canon_num("N", t[1], False))]
    if k == "hex":
        return ["PN:" + hx(canon_num("H", t[1], False))]
    if k == "str":
        return ["PS:" + hx(unquote(t[1]))]
    if k == "true":
        return ["PB:1"]
    if k == "false":
        return ["PB:0"]
    if k == "var":
        return ["G:" + hx(t[1])]
    if k == "nul":
        return ["N:" + hx(t[1].lower())]
    if k == "un":
        u = unsigned(t[2])
        if u is not None and t[1] in ("+", "-"):
            return ["PN:" + hx(canon_num("N" if u[0] == "num" else "H", u[1], t[1] == "-"))]
        return post(t[2]) + ["U:" + hx(t[1].lower())]
    if k == "bin":
        return post(t[3]) + post(t[4]) + ["B:%s:%d" % (hx(t[2].lower()), t[1] + 1)]
    if k == "arr":
        return [x for e in t[1] for x in post(e)] + ["M:%d" % len(t[1])]
    if k == "code":
        return ["PC["] + post_block(t[1]) + ["]"]
    raise ValueError(k)


def post_stmt(s):
    if s[0] == "expr":
        return post(s[1])
    if s[0] == "assign":
        return post(s[2]) + ["A:" + hx(s[1])]
    return post(s[2]) + ["L:" + hx(s[1])]


def post_block(ss):
    out = []
    for i, s in enumerate(ss):
        if i:
            out.append("E")
        out += post_stmt(s)
    return out


def expected_listing(ss):
    return " ".join(post_block(ss)) + (" " if ss else "")


def tidy(listing):
    return " ".join(t for t in listing.split(" ") if t)


# ------------------------------------------------------------------------------------ printing
def tk(kind, text):
    return (kind, text)


def name_tok(n):
    return tk("w" if IDENT_RE.match(n) else "s", n)


def lvl(t):
    return t[1] if t[0] == "bin" else 10


def emit(t, k, rng, red):
    """tokens of t where the grammar expects exp_k; red = probability of a redundant pair of parentheses"""
    kind = t[0]
    if kind in ("num", "hex", "str", "true", "false", "var"):
        raw = [tk("w", t[1])]
    elif kind == "nul":
        raw = [name_tok(t[1])]
    elif kind == "un":
        raw = [name_tok(t[1])] + emit(t[2], 10, rng, red)
    elif kind == "bin":
        raw = emit(t[3], t[1], rng, red) + [name_tok(t[2])] + emit(t[4], t[1] + 1, rng, red)
    elif kind == "arr":
        raw = [tk("p", "[")]
        for i, e in enumerate(t[1]):
            if i:
                raw.append(tk("p", ","))
            raw += emit(e, 0, rng, red)
        raw.append(tk("p", "]"))
    elif kind == "code":
        raw = [tk("p", "{")] + emit_block(t[1], rng, red) + [tk("p", "}")]
    else:
        raise ValueError(kind)
    need = k > lvl(t)
    n = (1 if need else 0)
    while red > 0 and rng.random() < red and n < 3:
        n += 1
    return [tk("p", "(")] * n + raw + [tk("p", ")")] * n


def emit_stmt(s, rng, red):
    if s[0] == "expr":
        return emit(s[1], 0, rng, red)
    if s[0] == "assign":
        return [tk("w", s[1]), tk("p", "=")] + emit(s[2], 0, rng, red)
    return [tk("w", recase(rng, "private")), tk("w", s[1]), tk("p", "=")] + emit(s[2], 0, rng, red)


def seps(rng, lo):
    n = lo + (rng.choice([0, 0, 0, 1, 2]) if rng.random() < 0.3 else 0)
    return [tk("p", rng.choice(";;;,")) for _ in range(n)]


def emit_block(ss, rng, red, plain=False):
    out = [] if plain else seps(rng, 0)
    for i, s in enumerate(ss):
        if i:
            out += [tk("p", ";")] if plain else seps(rng, 1)
        out += emit_stmt(s, rng, red)
    return out + ([] if plain else seps(rng, 0))


WS = " \t\r\n"


def must_space(a, b):
    if a[0] == "p" or b[0] == "p":
        # `=` directly before an operator that starts with `=` would fuse
        return a[1] == "=" and b[1].startswith("=")
    if a[1] == "#":
        return True
    if a[0] != b[0]:
        return False            # word next to symbol never fuses (sign before digits is never one token)
    return True


COMMENTS = ["/* c */", "/** doc **/", "/***/", "/**/", "/**** banner ****/", "/* a * b / c */", "/* x **/", "/** y */", "/*\n * multi\n **/",
            "// line\n", "// a /* b\n", "/* // */"]


def join(toks, rng, tight, comments=0.0):
    """tight = probability of leaving out optional whitespace; comments = probability that a gap is a comment (a comment is blank
    space for the parser; the lexer model does not have comments, the post-order oracle does not care)"""
    out = []
    if rng.random() < 0.2:
        out.append("".join(rng.choice(WS) for _ in range(rng.randint(1, 2))))
    for i, t in enumerate(toks):
        if i:
            if comments and rng.random() < comments:
                # glued to its neighbours unless that would fuse with a `/` or `*` of the neighbour into another comment marker
                pre = " " if toks[i - 1][1][-1:] in "/*" else rng.choice(["", " "])
                post = " " if t[1][:1] in "/*" else rng.choice(["", " "])
                out.append(pre + rng.choice(COMMENTS) + post)
            elif must_space(toks[i - 1], t) or rng.random() >= tight:
                out.append("".join(rng.choice(WS) if rng.random() < 0.4 else " " for _ in range(rng.choice([1, 1, 1, 2, 3]))))
        out.append(t[1])
    if rng.random() < 0.2:
        out.append("".join(rng.choice(WS) for _ in range(rng.randint(1, 2))))
    return "".join(out)


def render(ss, rng, red=0.0, tight=0.3, plain=False, comments=0.0):
    return join(emit_block(ss, rng, red, plain), rng, tight, comments)


# ------------------------------------------------------------------------------------ running
def run_both(ctx, cases, timeout=3000):
    """cases: list of (mode, text bytes).  Returns (impl lines, model lines)."""
    lines = ["%s\t%s" % (m, hx(t)) for m, t in cases]
    rc, impl, err = V.run_lines_parallel([ctx.harness], lines, timeout=timeout)
    rc2, model, err2 = V.run_lines_parallel([ctx.driver, ctx.regfile], lines, timeout=timeout)
    return impl, model


def bad_outcome(line):
    f = line.split("\t")[0]
    return f in ("CRASH", "TIMEOUT", "OOM", "EXCEPTION", "EXIT", "HARNESS-LOST", "BADMODE", "BADLINE", "HARNESS")


def in_scope(text):
    """comments and #line directives are outside this model (C10/C14)"""
    low = text.lower()
    return b"//" not in low and b"/*" not in low and b"#line" not in low
