"""C16 - virtual file system: a script/#include path resolves to the file under the deepest mapped
prefix (first root containing it), relative paths against the current file, never outside the
mapped directories; plus the PBO route C17 relies on (entries readable under the archive's prefix)."""
import json, os, posixpath, random, re, struct, subprocess, sys, tempfile, shutil
import vcommon as V

PID = "C16"
B = "/tmp/@@"      # token for the scratch directory (harness substitutes, model takes it literally)


# ---------------------------------------------------------------- small helpers
def hx(s):
    return V.hx(s if isinstance(s, bytes) else s.encode("latin-1"))


def ident(path):
    """content of a plain file: SQF that records which file it is"""
    return "RES = '%s';" % path


def norm(p):
    """lexical normalisation of an absolute path ('..' above the root vanish, as for '/..')"""
    out = []
    for s in p.split("/"):
        if s in ("", "."):
            continue
        if s == "..":
            if out:
                out.pop()
            continue
        out.append(s)
    return "/" + "/".join(out)


class Tree:
    """directory tree of a case: path -> content (files), set of directories"""

    def __init__(self):
        self.files, self.dirs = {}, {"/tmp", B}

    def add_dir(self, p):
        p = norm(p)
        while p not in self.dirs and p not in ("/", ""):
            self.dirs.add(p)
            p = posixpath.dirname(p)

    def add_file(self, p, content=None):
        p = norm(p)
        self.add_dir(posixpath.dirname(p))
        self.files[p] = ident(p) if content is None else content

    def field(self):
        parts = ["D:" + hx(d) for d in sorted(self.dirs)]
        parts += ["F:%s:%s" % (hx(p), hx(c)) for p, c in sorted(self.files.items())]
        return ";".join(parts)

    def kind(self, p):
        """POSIX lookup of a path string (no symlinks); relative paths against B"""
        if p == "":
            return None
        cur = [] if p.startswith("/") else [s for s in B.split("/") if s]
        for s in p.split("/"):
            here = "/" + "/".join(cur)
            if here != "/" and here not in self.dirs:
                return None
            if s in ("", "."):
                continue
            if s == "..":
                if cur:
                    cur.pop()
                continue
            cur.append(s)
        here = "/" + "/".join(cur)
        if here == "/" or here in self.dirs:
            return ("D", here)
        if here in self.files:
            return ("F", here)
        return None


# ---------------------------------------------------------------- the property as an oracle (independent of the Coq model)
def cleanse(s):
    return s.replace("\\", "/").strip(" \t")


def vsegs(s):
    return [x for x in s.split("/") if x != ""]


class Spec:
    """The property, read literally, on a tree + mappings. Results are canonical file paths.
    Where the property is silent the answer is a set of acceptable outcomes or 'unspecified'."""

    def __init__(self, tree, maps, cwd=B):
        self.tree = tree
        self.cwd = cwd
        self.maps = []       # (virtual prefix as tuple of segments, lexically normal absolute root, root was given relative)
        for phys, virt in maps:
            p = cleanse_keep(phys)
            root = norm(p if p.startswith("/") else cwd + "/" + p)      # cwd: the working directory of the process (harness: B)
            self.maps.append((tuple(vsegs(virt.replace("\\", "/"))), root, not p.startswith("/")))

    def roots(self, pre):
        return [r for v, r, rel in self.maps if v == pre]

    def virtual(self, segs):
        """segs: absolute virtual path, lexically normal. -> canonical file path or None"""
        for k in range(len(segs), -1, -1):
            rs = self.roots(tuple(segs[:k]))
            if rs:
                for r in rs:
                    k2 = self.tree.kind(r + "".join("/" + s for s in segs[k:]))
                    if k2 and k2[0] == "F":
                        return k2[1]
                return None
        return None

    @staticmethod
    def lexical(segs):
        """apply '..' to the segment before it; None when the path climbs above the root"""
        out = []
        for s in segs:
            if s == "..":
                if not out:
                    return None
                out.pop()
            else:
                out.append(s)
        return out

    def physical(self, p):
        """p: absolute physical path (any spelling) -> (results through roots that must be recognised,
        results through roots that may be recognised: relative roots, the root itself)"""
        n = norm(p)
        must, may = [], []
        for v, r, rel in self.maps:
            if r != "/" and (n + "/").startswith(r + "/"):
                res = self.virtual(list(v) + vsegs(n[len(r):]))
                (may if (rel or n == r) else must).append(res)
        return must, may

    def accept(self, must, may):
        found = {x for x in must if x is not None}
        opt = {x for x in may if x is not None}
        if found:
            return found | opt
        return opt | {None}

    def resolve(self, req, curp="", curv=""):
        """-> set of acceptable outcomes (canonical files, None = not found), or 'unspecified'"""
        if any(".." in v for v, r, rel in self.maps):
            return "unspecified"      # a virtual prefix with a dir-up in it: the property has no reading of that
        c = cleanse(req)
        if c == "":
            return {None}
        if c.startswith("/"):
            L = self.lexical(vsegs(c))
            v = self.virtual(L) if L is not None else None
            if v is not None:
                return {v}
            return self.accept(*self.physical(c))
        # relative
        ck = self.tree.kind(curp) if curp else None
        if ck and ck[0] == "F" and (curv == "" or not self.is_node_path(curv)):
            sib = posixpath.dirname(curp if curp.startswith("/") else B + "/" + curp) + "/" + c
            acc = self.accept(*self.physical(sib))
            if acc != {None} or curv != "":
                if None in acc and curv == "":
                    L = self.lexical(vsegs(c))
                    acc = acc | {self.virtual(L) if L is not None else None}
                return acc
            # no sibling: the virtual root is the remaining candidate
        elif curp != "" or curv != "":
            return "unspecified"
        L = self.lexical(vsegs(c))
        v = self.virtual(L) if L is not None else None
        if v is None and any(rel for _, r, rel in self.maps):
            # a directory mapped by a path relative to the working directory: a request that spells the same relative path may be
            # recognised as a physical one (observed, not demanded: the 'may' part of physical(), as for absolute requests)
            must, may = self.physical(self.cwd + "/" + c)
            return {None} | {x for x in may if x is not None}
        return {v}

    def is_node_path(self, curv):
        segs = tuple(vsegs(curv))
        return any(v[:len(segs)] == segs for v, r, rel in self.maps)

    def inside(self, f):
        return any(r == "/" or (f + "/").startswith(r + "/") for v, r, rel in self.maps)


def cleanse_keep(s):
    return s.replace("\\", "/")


# ---------------------------------------------------------------- PBO packer (own; format as checks/C17.py documents it)
def pbo_pack(prefix, entries):
    def hdr(name, method, orig, ts, size):
        return name + b"\0" + struct.pack("<IIIII", method, orig, 0, ts, size)
    out = hdr(b"", 0x56657273, 0, 0, 0)
    if prefix is not None:
        out += b"prefix\0" + prefix + b"\0"
    out += b"\0"
    for n, dta in entries:
        out += hdr(n, 0, len(dta), 0, len(dta))
    out += hdr(b"", 0, 0, 0, 0)
    for n, dta in entries:
        out += dta
    return out


# ---------------------------------------------------------------- generators
POOL = ["a.sqf", "b.sqf", "c.sqf", "sub/a.sqf", "sub/b.sqf", "sub/deep/c.sqf", "y/a.sqf", "y/b.sqf", "y/z/w/a.sqf",
        "cba/x.sqf", "zz/a.sqf", "sub/y/a.sqf", "arch.pbo", "q/a.sqf", "x/a.sqf", "x/y/b.sqf",
        # names that differ from others only in letter case: different directories, different virtual prefixes
        "Sub/a.sqf", "X/a.sqf", "Y/b.sqf", "A.sqf"]
PHYS = [B + "/r1", B + "/r2", B + "/r3", B + "/r1/sub", B + "/r2/y", B + "/r1/", "\\tmp\\@@\\r2", B + "/r1/../r1", B + "//r2",
        "r1", "r3/", B, B + "/missing", B + "/r1/a.sqf", B + "/r2/./y", "./r2"]
VIRT = ["/x", "\\x", "x", "/x/", "/x/y", "\\x\\y\\", "/", "/x//y", "/x/y/z/w", "/q", "/x/../q", "", "/x/sub", "/cba/x", "\\",
        "/X", "/x/Y", "/X/y", "/Q", "/x/SUB", "/x/Sub"]


def rand_tree(rng):
    t = Tree()
    for r in ("r1", "r2", "r3", "out"):
        t.add_dir(B + "/" + r)
        for rel in POOL:
            if rng.random() < (0.45 if r != "out" else 0.3):
                if rel.endswith(".pbo"):
                    t.add_file(B + "/" + r + "/" + rel, "no archive, just named like one: " + B + "/" + r + "/" + rel)
                else:
                    t.add_file(B + "/" + r + "/" + rel)
    t.add_file(B + "/out/secret.sqf")
    t.add_file(B + "/secret.sqf")
    if rng.random() < 0.3:
        t.add_dir(B + "/r1/a.sqf.d")
    if rng.random() < 0.3:
        t.add_dir(B + "/r2/zz")
    return t


def rand_maps(rng):
    n = rng.choice([1, 1, 2, 2, 3, 3, 4, 5])
    maps = []
    for _ in range(n):
        if maps and rng.random() < 0.35:
            virt = rng.choice(maps)[1]          # several roots under one prefix
            if rng.random() < 0.5:
                virt = virt.replace("/", "\\")
        else:
            virt = rng.choice(VIRT)
        maps.append((rng.choice(PHYS[:9] if rng.random() < 0.8 else PHYS), virt))
    return maps


def mutate(rng, req):
    """slash/backslash mixes, doubled separators, '.' and '..' at every position, blanks"""
    req = req.replace(B, "\x01")           # the token of the scratch directory stays in one piece
    segs = req.split("/")
    k = rng.random()
    if k < 0.18 and len(segs) > 1:
        i = rng.randrange(1, len(segs) + 1)
        segs[i:i] = [".."] * rng.choice([1, 1, 2, 3, 6])
    elif k < 0.36 and len(segs) > 1:
        i = rng.randrange(1, len(segs) + 1)
        segs[i:i] = [rng.choice(["zz", "sub", "y", "nope", "x"]), ".."]       # there and back
    elif k < 0.44 and len(segs) > 1:
        i = rng.randrange(1, len(segs) + 1)
        segs[i:i] = [rng.choice([".", "", "", ".", "..."])]
    elif k < 0.50 and len(segs) > 2:
        i = rng.randrange(1, len(segs))
        up = rng.choice([1, 2, 3])
        segs[i:i] = [".."] * up + rng.choice([["out", "secret.sqf"], ["secret.sqf"], ["r2", "a.sqf"], ["x"]])
    s = "/".join(segs)
    if rng.random() < 0.35:
        s = "".join(("\\" if c == "/" and rng.random() < 0.6 else c) for c in s)
    if rng.random() < 0.12:
        s = s.replace("/", "//", 1) if rng.random() < 0.5 else s + rng.choice(["/", "\\", "/.", "/.."])
    if rng.random() < 0.06:
        s = rng.choice([" ", "\t", "  "]) + s + rng.choice(["", " ", "\t "])
    return s.replace("\\\x01", B.replace("/", "\\")).replace("\x01", B)


def rand_request(rng, tree, maps):
    k = rng.random()
    if k < 0.3:        # virtual path of a file that exists under one of the mappings
        phys, virt = rng.choice(maps)
        p = cleanse_keep(phys)
        root = norm(p if p.startswith("/") else B + "/" + p)
        under = sorted(f for f in tree.files if f.startswith(root + "/"))
        if under:
            f = rng.choice(under)
            return mutate(rng, "/" + "/".join(vsegs(virt.replace("\\", "/")) + vsegs(f[len(root):])))
    if k < 0.55:       # virtual, under a mapped prefix (or near one)
        virt = rng.choice(maps)[1].replace("\\", "/") if rng.random() < 0.85 else rng.choice(VIRT)
        pre = "/" + "/".join(vsegs(virt))
        if rng.random() < 0.25 and len(vsegs(virt)) > 1:
            pre = "/" + "/".join(vsegs(virt)[:rng.randrange(1, len(vsegs(virt)))])     # an intermediate node
        rel = rng.choice(POOL + ["nope.sqf", "sub", "y", ""])
        req = (pre if pre != "/" else "") + ("/" + rel if rel else "")
        if rng.random() < 0.08 and req.startswith("/"):
            req = req[1:]
        return mutate(rng, req or "/")
    if k < 0.85:       # absolute physical, inside and outside the mapped roots
        cand = sorted(tree.files) + sorted(tree.dirs) + [B + "/r1/nope.sqf", "/", B + "/r1/sub/../../out/secret.sqf",
                                                         B + "/r1/../out/secret.sqf", B + "/out/../r1/a.sqf", B + "/r"]
        return mutate(rng, rng.choice(cand))
    return rng.choice(["", " ", ".", "..", "/..", "/.", "\\", "//", "../../..", "a.sqf", "sub/a.sqf", "..\\out\\secret.sqf",
                       "../out/secret.sqf", "/x/../../..", "x", "\\x\\..\\..\\tmp\\@@\\out\\secret.sqf", "/x/a.sqf/", "/x/a.sqf/."])


def rand_current(rng, tree, maps):
    """a current file for relative requests: (curp, curv)"""
    files = sorted(tree.files)
    k = rng.random()
    if k < 0.7 and files:
        curp = rng.choice(files)
        vs = [""]
        for phys, virt in maps:
            p = cleanse_keep(phys)
            root = norm(p if p.startswith("/") else B + "/" + p)
            if (curp + "/").startswith(root + "/"):
                vs.append("/" + "/".join(vsegs(virt.replace("\\", "/")) + vsegs(curp[len(root):])))
        return curp, rng.choice(vs)
    if k < 0.8:
        return rng.choice(sorted(tree.dirs)), rng.choice(["", "/x", "/x/y"])
    if k < 0.9:
        return "", rng.choice(["/x", "/x/y", "/x/sub", "/", "/q", "x/y/", "/nope"])
    return rng.choice(["__commandline", "verif.sqf", B + "/nope.sqf"]), ""


def rand_relative(rng):
    s = rng.choice(["a.sqf", "b.sqf", "sub/a.sqf", "../a.sqf", "..\\a.sqf", "../sub/b.sqf", "deep/c.sqf", "../../out/secret.sqf",
                    "..\\..\\out\\secret.sqf", "y/a.sqf", "./a.sqf", "../../../../../../secret.sqf", "sub\\..\\a.sqf", "zz/../a.sqf",
                    "..", ".", "../", "x/a.sqf", "../y/b.sqf", "sub//a.sqf", " a.sqf", "z/w/a.sqf"])
    return s


def line(kind, tree, setup, req, curp="", curv=""):
    st = []
    for s in setup:
        if s[0] == "M":
            st.append("M:%s:%s" % (hx(s[1]), hx(s[2])))
        else:
            st.append("P:%s:%s:%s" % (hx(s[1]), "NONE" if s[2] is None else hx(s[2]),
                                      ",".join("%s=%s" % (hx(n), hx(c)) for n, c in s[3])))
    return "\t".join([kind, tree.field() or "-", ";".join(st) or "-", hx(req), hx(curp), hx(curv)])


# ---------------------------------------------------------------- decoding results
def content_file(c):
    """which file a payload line names (plain files are `RES = '<path>';`)"""
    if c.startswith("RES = '") and c.endswith("';"):
        return c[7:-2]
    return None


def which_file(tree, text):
    """the file of the tree with exactly this content (contents are unique: they embed the path)"""
    hits = [p for p, c in tree.files.items() if c == text]
    return hits[0] if len(hits) == 1 else None


def unh(s):
    return V.unhx(s).decode("latin-1")


# ---------------------------------------------------------------- expected include expansion (from the property)
def spec_expand(spec, curp, curv, text, stack, depth=0):
    """payload lines of `text` preprocessed as file (curp, curv); 'FAIL', or 'unspecified'"""
    if depth > 10:
        return "FAIL"
    out = []
    for ln in text.split("\n"):
        st = ln.strip(" \t")
        if st.startswith("#include"):
            if any(rel for v, r, rel in spec.maps):
                return "unspecified"      # a file reached through a root given relative to the working directory
            req = st[len("#include"):].strip(" \t").lstrip('"').split('"')[0]
            r = spec.resolve(req, curp, curv)
            if r == "unspecified" or len(r) != 1:
                return "unspecified"
            f = next(iter(r))
            if f is None or f in stack:
                return "FAIL"
            sub = spec_expand(spec, f, "?", spec.tree.files[f], stack + [f], depth + 1)
            if isinstance(sub, str):
                return sub
            out += sub
        elif st != "":
            out.append(ln)
    return out


# ---------------------------------------------------------------- case generation
def case_from_dict(r, add, note):
    """a corpus entry or the replay part of a violation -> one case"""
    t = Tree()
    for d in r.get("dirs", []):
        t.add_dir(d)
    for p, c in r.get("files", {}).items():
        t.add_file(p, c)
    setup = [tuple(x) if x[0] == "M" else ("P", x[1], x[2], [tuple(e) for e in x[3]]) for x in r.get("setup", [])]
    for st in setup:
        if st[0] == "P":
            t.add_file(norm(st[1]), pbo_pack(None if st[2] is None else st[2].encode("latin-1"),
                                             [(n.encode("latin-1"), c.encode("latin-1")) for n, c in st[3]]).decode("latin-1"))
    if r["kind"] == "infoseq":
        subs = [tuple(x) for x in r["requests"]]
        for rq, cp, cv in subs:
            add("info", t, setup, rq, cp, cv)
        add("infoseq", t, setup, "|".join("%s,%s,%s" % (hx(a), hx(b), hx(c_)) for a, b, c_ in subs), note=json.dumps(subs))
        return
    add(r["kind"], t, setup, r["req"], r.get("curp", ""), r.get("curv", ""), note=note)


def gen_cases(rng, add, scale):
    cdir = os.path.join(V.VERIF, "corpus", PID)
    if os.path.isdir(cdir):
        for fn in sorted(os.listdir(cdir)):
            case_from_dict(json.load(open(os.path.join(cdir, fn))), add, "corpus:" + fn)

    # the std::filesystem model against libstdc++
    empty = Tree()
    alpha = ["/", "/", "/", ".", "..", "a", "b.c", "x.pbo", "..", ".", "//", " ", "\\"]
    for i in range(400 * scale):
        s = "".join(rng.choice(alpha) + rng.choice(["", "/", "/", ""]) for _ in range(rng.randint(0, 7)))
        b = "".join(rng.choice(alpha) + rng.choice(["", "/"]) for _ in range(rng.randint(0, 3)))
        add("fs", empty, [], s, b)

    # get_info + read_file: virtual and absolute-physical requests
    for i in range(2200 * scale):
        t = rand_tree(rng)
        maps = rand_maps(rng)
        setup = [("M", p, v) for p, v in maps]
        for _ in range(2):
            add("info", t, setup, rand_request(rng, t, maps))
    # relative requests against a current file
    for i in range(450 * scale):
        t = rand_tree(rng)
        maps = rand_maps(rng)
        setup = [("M", p, v) for p, v in maps]
        for _ in range(2):
            curp, curv = rand_current(rng, t, maps)
            add("info", t, setup, rand_relative(rng) if rng.random() < 0.85 else rand_request(rng, t, maps), curp, curv)
        # the same spelling asked from several places, one after the other, on one file system object: every answer must
        # be the answer a fresh object gives (resolution has no memory); the single requests are ordinary info cases too
        if rng.random() < 0.5:
            req = rand_relative(rng) if rng.random() < 0.8 else rand_request(rng, t, maps)
            if "|" not in req and "," not in req:
                curs = [rand_current(rng, t, maps) for _ in range(rng.choice([2, 3]))]
                files = sorted(t.files)
                if files and rng.random() < 0.7:
                    # two files in different directories, both without a virtual path (files named on the command line)
                    curs = [(rng.choice(files), ""), (rng.choice(files), "")] + curs[:1]
                if rng.random() < 0.5:
                    curs.append(("", ""))
                if rng.random() < 0.3:
                    curs.append(curs[0])
                subs = [(req, cp, cv) for cp, cv in curs if "|" not in cp + cv and "," not in cp + cv]
                for rq, cp, cv in subs:
                    add("info", t, setup, rq, cp, cv)
                add("infoseq", t, setup, "|".join("%s,%s,%s" % (hx(a), hx(b), hx(c_)) for a, b, c_ in subs), note=json.dumps(subs))
    # script operators
    for i in range(110 * scale):
        t = rand_tree(rng)
        t.add_file(B + "/r1/chain.sqf", "#include \"sub\\chain2.sqf\"\n" + ident(B + "/r1/chain.sqf"))
        t.add_file(B + "/r1/sub/chain2.sqf", "#include \"..\\a.sqf\"\n" + ident(B + "/r1/sub/chain2.sqf"))
        maps = rand_maps(rng)
        if rng.random() < 0.5:
            maps = [(B + "/r1", "/x")] + maps
        setup = [("M", p, v) for p, v in maps]
        for op in ("loadFile", "preprocessFile", "preprocessFileLineNumbers", "execVM"):
            req = rand_request(rng, t, maps) if rng.random() < 0.7 else rng.choice(["/x/chain.sqf", "\\x\\chain.sqf", "/x/sub/chain2.sqf", "x/a.sqf"])
            if "\n" in req or "\0" in req:
                continue
            add(op, t, setup, req)
    # #include from a file, nested to depth 3
    for i in range(300 * scale):
        t = rand_tree(rng)
        maps = rand_maps(rng)
        if rng.random() < 0.6:
            maps = [(B + "/r1", "/x"), (B + "/r2", rng.choice(["/x", "/x/y", "/q"]))] + maps[:2]
        # chain files: each includes the next through a request of a random flavour
        # the including files carry every kind of name: the usual extension, another one, two dots, none at all (script_macros, defs) -
        # what a relative request is taken against is the DIRECTORY of the including file, whatever the file is called (tenth seed round)
        ext = lambda: rng.choice([".sqf", ".sqf", ".hpp", "", "", ".inc.h", "_defs"])
        chain = [B + "/r1/c1" + ext(), B + "/r1/sub/c2" + ext(), B + "/r2/y/c3" + ext()][:rng.choice([1, 2, 3])]
        target = rng.choice(sorted(f for f in t.files if f.startswith(B + "/r") and f.endswith(".sqf")) or [B + "/r1/a.sqf"])
        nxt = chain[1:] + [target]
        spec0 = Spec(t, maps)
        for f, n in zip(chain, nxt):
            flav = rng.random()
            if flav < 0.45:      # relative to the including file
                req = posixpath.relpath(n, posixpath.dirname(f))
            elif flav < 0.8:     # virtual
                req = None
                for phys, virt in maps:
                    p = cleanse_keep(phys)
                    root = norm(p if p.startswith("/") else B + "/" + p)
                    if (n + "/").startswith(root + "/"):
                        req = "/" + "/".join(vsegs(virt.replace("\\", "/")) + vsegs(n[len(root):]))
                        break
                if req is None:
                    req = posixpath.relpath(n, posixpath.dirname(f))
            else:                # absolute physical
                req = n
            if rng.random() < 0.4:
                req = req.replace("/", "\\")
            if rng.random() < 0.15:
                req = mutate(rng, req)
            t.add_file(f, "#include \"%s\"\n%s" % (req, ident(f)))
        setup = [("M", p, v) for p, v in maps]
        top = rng.choice(["r", "v", "a"])
        first = chain[0]
        if top == "r":
            req = posixpath.relpath(first, B + "/r1/sub")
        elif top == "v":
            req = "/x" + first[len(B + "/r1"):]
        else:
            req = first
        if rng.random() < 0.4:
            req = req.replace("/", "\\")
        curp, curv = rng.choice([(B + "/r1/sub/main.sqf", ""), (B + "/r1/sub/main.sqf", "/x/sub/main.sqf"), ("verif.sqf", "")])
        if curp.startswith(B):
            t.add_file(curp, "main")
        add("include", t, setup, "#include \"%s\"\n" % req, curp, curv)
    # PBO archives mounted next to directory mappings
    for i in range(140 * scale):
        t = rand_tree(rng)
        prefix = rng.choice(["x\\addons\\main", "x", "x\\y", "\\x\\y", "x/y", "z\\", "", "x\\..\\w", None, "q"])
        names = rng.sample(["a.sqf", "fn\\b.sqf", "fn\\deep\\c.sqf", "fn/d.sqf", "config.cpp", "\\lead.sqf", "dup.sqf", "e..sqf", "..\\up.sqf"],
                           rng.randint(1, 5))
        if rng.random() < 0.2:
            names.append(names[0])
        ents = [(n, "RES = 'pbo:%s:%d';" % (n.replace("\\", "|"), k)) for k, n in enumerate(names)]
        pth = B + "/" + rng.choice(["mods/a.pbo", "a.pbo", "mods/../a.pbo"])
        t.add_file(norm(pth), pbo_pack(None if prefix is None else prefix.encode(), [(n.encode(), c.encode()) for n, c in ents]).decode("latin-1"))
        t.add_dir(B + "/mods")
        setup = [("P", pth, prefix, ents)]
        if rng.random() < 0.4:
            setup = [("M", B + "/r1", "/x")] + setup
        if rng.random() < 0.2:
            setup = setup + [("M", B + "/r2", "/x/y")]
        vp = "/" + "/".join(vsegs((prefix or "").replace("\\", "/")))
        for _ in range(3):
            n = rng.choice(names + ["missing.sqf", "fn"])
            req = (vp if vp != "/" else "") + "/" + n.replace("\\", "/").lstrip("/")
            k = rng.random()
            if k < 0.4:
                req = req.replace("/", "\\")
            elif k < 0.5:
                req = req[1:]
            elif k < 0.6:
                req = mutate(rng, req)
            add(rng.choice(["info", "info", "loadFile"]), t, setup, req)


# ---------------------------------------------------------------- script operators executed by code that lies in a file
# A path given by a script resolves through the mapped prefixes and nothing else: where the calling code lies has no say
# (mechanism: the operators resolve with an empty current path; model: op_* = get_info t req [] []).  The family runs every
# operator from code lying at every kind of place of the tree - the directory a prefix maps, a subdirectory of it, a directory
# under a deeper / another mapping, an unmapped directory, the scratch directory - reached by every route that gives code the path
# of a file, with requests built from what lies NEXT TO the calling file (siblings, files below it, files reached by dir-ups).
WORKER = ('VLAUNCHED = true; if (count VHOPS > 0) then { execVM (VHOPS deleteAt 0) } else { '
          'if (VOP == "loadFile") then { VRES = loadFile VREQ }; if (VOP == "preprocessFile") then { VRES = preprocessFile VREQ }; '
          'if (VOP == "preprocessFileLineNumbers") then { VRES = preprocessFileLineNumbers VREQ }; '
          'if (VOP == "execVM") then { VRES = "ran"; execVM VREQ } };')
WNAME = "w_.sqf"
OPS = ["loadFile", "preprocessFile", "preprocessFileLineNumbers", "execVM"]


def place_kind(spec, d):
    """where a directory lies with respect to the mappings"""
    roots = [r for v, r, rel in spec.maps]
    if d in roots:
        return "the directory a prefix maps"
    under = [r for r in roots if r != "/" and (d + "/").startswith(r + "/")]
    if len(under) > 1:
        return "below nested mapped directories"
    if under:
        return "a subdirectory of a mapped directory"
    if any((r + "/").startswith(d + "/") for r in roots):
        return "above a mapped directory"
    return "an unmapped directory"


def placed_requests(rng, tree, maps, cwd, d, n):
    """requests an operator in a file of directory d is given: mostly relative ones for which something lies next to the file"""
    files = sorted(f for f in tree.files if not f.endswith("/" + WNAME))
    near = [f for f in files if f.startswith(d + "/")] + [f for f in files if posixpath.dirname(f) == posixpath.dirname(d)]
    out = []
    for _ in range(n):
        k = rng.random()
        if k < 0.45 and near:            # the name a file has as seen from the calling file
            req = posixpath.relpath(rng.choice(near), d)
        elif k < 0.55 and files:         # ... any file of the tree (dir-ups through the scratch directory)
            req = posixpath.relpath(rng.choice(files), d)
        elif k < 0.70 and files:         # the name a file has below a mapped prefix, without the leading separator
            f = rng.choice(near or files)
            vs = virt_of(maps, f, cwd)
            req = rng.choice(vs).lstrip("/") if vs else posixpath.basename(f)
        elif k < 0.85:
            req = rand_relative(rng)
        else:                            # absolute ones: the calling file has even less to say
            req = rand_request(rng, tree, maps)
        if rng.random() < 0.25:
            req = req.replace("/", "\\")
        elif rng.random() < 0.15:
            req = mutate(rng, req)
        if cli_ok_req(req) and "|" not in req:
            out.append(req)
    return out


def placed_config(rng, cwd=B):
    """a tree with a worker file in some directories of every kind, and mappings that put them at different depths"""
    t = rand_tree(rng)
    maps = rand_maps(rng)
    if rng.random() < 0.5:
        maps = [(B + "/r1", rng.choice(["/x", "/", "/x", "/x/y"]))] + maps
    if rng.random() < 0.35:
        maps = maps + [(B + rng.choice(["/r1/sub", "/r2/y", "/r1/sub/deep"]), rng.choice(["/x/sub", "/q", "/", "/x/y/z/w"]))]
    return t, maps


def placed_places(rng, spec, tree, n):
    dirs = sorted(d for d in tree.dirs if d.startswith(B))
    by = {}
    for d in dirs:
        by.setdefault(place_kind(spec, d), []).append(d)
    out = []
    kinds = sorted(by)
    rng.shuffle(kinds)
    # one directory of as many kinds as there are, subdirectories of mapped directories first: that is where neighbours differ
    kinds.sort(key=lambda k: 0 if "sub" in k or "nested" in k else 1)
    for k in kinds[:n]:
        out.append(rng.choice(by[k]))
    while len(out) < n and len(out) < len(dirs):
        d = rng.choice(dirs)
        if d not in out:
            out.append(d)
    return out


def launches(spec, maps, worker, cwd=B):
    """the requests that name the worker file (judged by the property: they resolve to it and nothing else)"""
    return [q for q in virt_of(maps, worker, cwd) + [worker] if spec.resolve(q) == {worker}]


def gen_placed(rng, add, scale, stats):
    ps = stats["placed"]
    for i in range(170 * scale):
        t, maps = placed_config(rng)
        setup = [("M", p, v) for p, v in maps]
        spec = Spec(t, maps)
        places = placed_places(rng, spec, t, 3)
        reqs = {d: placed_requests(rng, t, maps, B, d, 3) for d in places}      # before the workers exist: no request names one
        for d in places:
            t.add_file(d + "/" + WNAME, WORKER)
        for d in places:
            worker = d + "/" + WNAME
            pk = place_kind(spec, d)
            how = launches(spec, maps, worker)
            for req in reqs[d]:
                op = rng.choice(OPS)
                add(op, t, setup, req, note="placed-base")                       # the same request from code that lies in no file
                routes = ["file", "line"] + (["execVM", "compile", "include"] if how else [])
                for route in rng.sample(routes, 2):
                    curp, curv = worker, ""
                    if route in ("file", "line"):
                        k = rng.random()
                        if k < 0.10:
                            curp = posixpath.relpath(worker, B)                  # named relative to the working directory
                        elif k < 0.16:
                            curp = d + "/ghost.sqf"                              # a file that is not there (anymore)
                        elif k < 0.20:
                            curp = worker.replace("/", "\\")
                    else:
                        curv = rng.choice(how)
                        others = [x for x in places if x != d and launches(spec, maps, x + "/" + WNAME)]
                        if route == "execVM" and others and rng.random() < 0.3:  # started by a worker lying elsewhere
                            curv = rng.choice(launches(spec, maps, rng.choice(others) + "/" + WNAME)) + "|" + curv
                        if rng.random() < 0.3:
                            curv = curv.replace("/", "\\")
                    add(op + "@" + route, t, setup, req, curp, curv, note="placed: " + pk)
                    ps["place: " + pk] = ps.get("place: " + pk, 0) + 1
                    ps["route: " + route] = ps.get("route: " + route, 0) + 1


# ---------------------------------------------------------------- verdicts
BAD = ("CRASH", "TIMEOUT", "OOM", "EXCEPTION", "EXIT", "HARNESS", "HARNESS-LOST", "LOADFAIL", "BADKIND", "BADLINE")


def canon_impl(kind, il):
    """implementation line in the model's vocabulary"""
    f = il.split("\t")
    if kind == "execVM":
        return il
    if f[0] in ("OOM", "EXCEPTION"):
        return "THROW" if kind in ("loadFile", "include") else ("PRE\tTHROW" if kind.startswith("preprocess") else il)
    return il


def files_of_payload(p):
    """'OK:hex,hex' -> list of lines"""
    if not p.startswith("OK:"):
        return None
    return [unh(x) for x in p[3:].split(",") if x]


def judge(run, c, il, ml, stats):
    kind, _, route = c["kind"].partition("@")       # <operator>@<route>: the operator run by code that lies in the file curp
    stats["kinds"][c["kind"]] = stats["kinds"].get(c["kind"], 0) + 1
    parts = ml.split("\t||\t")
    if kind == "fs":
        if il != ml:
            run.violation("std::filesystem model disagrees with libstdc++ (machinery: the hand model of path in VfsDefs.v)",
                          {"kind": kind, "req": c["req"], "curp": c["curp"], "impl": il, "model": ml,
                           "broken": "trusted model of std::filesystem::path"}, found_input=False)
        else:
            stats["nontrivial"].add(("fs", c["req"], c["curp"]))
        return
    if len(parts) != 2:
        run.violation("model driver produced no result", {"kind": kind, "req": c["req"], "model": ml, "broken": "driver"}, found_input=False)
        return
    rep_l, asis_l = parts
    rep = {"kind": c["kind"], "req": c["req"], "curp": c["curp"], "curv": c["curv"], "maps": c["maps"],
           "impl": sample_text(il), "model_repaired": sample_text(rep_l), "model_as_is": sample_text(asis_l), "note": c["note"],
           "files": c["tree"].files, "dirs": sorted(c["tree"].dirs), "setup": [list(x) for x in c["setup"]],
           "impl_line": il, "model_line": ml}
    like_asis = ""
    f = il.split("\t")

    # ---- 1. the property itself
    why = None
    if f[0] in BAD and f[0] not in ("OOM", "EXCEPTION"):
        why = "the request made the implementation fail: " + " ".join(f[:2])
    elif f[0] in ("OOM", "EXCEPTION"):
        why = "the operation ended in a C++ exception (%s) instead of a result" % f[0]
    elif f[0] == "NOLAUNCH":
        why = "the code in %s was not reached through %r (a request the property resolves to that file)" % (c["curp"], c["curv"])
    spec = Spec(c["tree"], c["maps"]) if c["tree"] is not None else None
    got = "n/a"          # file the implementation acted on
    if why is None and spec is not None:
        has_pbo = any(s[0] == "P" for s in c["setup"])
        if kind == "info":
            if f[0] == "NONE":
                got = None
            elif f[0] == "OK" and len(f) == 4:
                if f[3] in ("DIRTHROW", "THROWN"):
                    why = "resolution yielded %s, which cannot be read as a file" % unh(f[1])
                else:
                    k = c["tree"].kind(unh(f[1]))
                    if k is None or k[0] != "F":
                        if not has_pbo:
                            why = "resolution yielded %s, which is no file of the tree" % unh(f[1])
                    elif not k[1].endswith(".pbo"):
                        got = k[1]
                        if c["tree"].files[k[1]] != unh(f[3][1:]):
                            why = "the content returned is not the content of the file resolved (%s)" % k[1]
            else:
                why = "unparseable harness output"
        elif kind == "loadFile":
            if f[0] == "NF":
                got = None
            elif f[0] == "TEXT":
                got = which_file(c["tree"], unh(f[1])) or ("<other text>" if not has_pbo else "n/a")
        if why is None and has_pbo and kind in ("info", "loadFile") and f[0] not in BAD:
            # C17's need: an entry is readable under the archive's prefix, bytes unchanged
            cr = cleanse(c["req"])
            L = Spec.lexical(vsegs(cr)) if cr.startswith("/") else None
            want = None
            for st in c["setup"]:
                if st[0] == "P" and st[2] is not None and L is not None and want is None:
                    for n, cont in st[3]:
                        ep = Spec.lexical(vsegs(("/" + st[2] + "/" + n).replace("\\", "/")))
                        if ep is not None and ep == L and "." not in ep:
                            want = cont
                            break
            if want is not None and spec.resolve(c["req"]) == {None}:
                have = unh(f[3][1:]) if (kind == "info" and f[0] == "OK" and len(f) == 4 and f[3][:1] == "C") else \
                    (unh(f[1]) if kind == "loadFile" and f[0] == "TEXT" else None)
                if have != want:
                    why = "an entry of a mounted PBO is not readable under the archive's prefix: got %r, stored %r" % (have, want)
        if why is None and got != "n/a" and not has_pbo:
            # (a script operator resolves with no current file, wherever the code that executes it lies)
            exp = spec.resolve(c["req"], c["curp"], c["curv"]) if kind == "info" else spec.resolve(c["req"])
            if got is not None and got != "<other text>" and not spec.inside(got):
                why = "a file outside every mapped directory was read: " + got
            elif exp != "unspecified":
                lenient = kind == "info" and any(not cleanse_keep(p).startswith("/") for p, v in c["maps"])
                if got not in exp and not (lenient and got is None):
                    if got is None:
                        why = "reported as not found, the property resolves it to " + "/".join(sorted(str(x) for x in exp))
                    elif exp == {None}:
                        why = "resolved to %s, the property says not found" % got
                    else:
                        why = "the wrong root/prefix won: got %s, the property says %s" % (got, "/".join(sorted(str(x) for x in exp)))
        if why is None and kind in ("include", "preprocessFile", "preprocessFileLineNumbers", "execVM") and not has_pbo:
            if kind == "include":
                expp = spec_expand(spec, c["curp"], c["curv"], c["req"], [c["curp"]])
                gotp = files_of_payload(il) if il.startswith("OK:") else ("FAIL" if il == "FAIL" else None)
            else:
                r = spec.resolve(c["req"])
                if r == "unspecified" or len(r) != 1:
                    expp = "unspecified"
                else:
                    f0 = next(iter(r))
                    expp = "NF" if f0 is None else spec_expand(spec, f0, "?", c["tree"].files[f0], [f0])
                if kind == "execVM":
                    if f[0] == "NF":
                        gotp = "NF"
                    elif f[0] == "RAN-PPFAIL":
                        gotp = "FAIL"
                    else:
                        gotp = "RES:" + unh(f[1]) if len(f) > 1 else None
                        if isinstance(expp, list):
                            last = [content_file(x) for x in expp if content_file(x)]
                            expp = "RES:" + (last[-1] if last else "<unset>")
                else:
                    gotp = "NF" if f[0] == "NF" else (files_of_payload(f[1]) if f[0] == "PRE" and f[1].startswith("OK:") else
                                                     ("FAIL" if f[0] == "PRE" and f[1] == "FAIL" else None))
            if expp != "unspecified" and gotp != expp:
                if kind == "execVM" and isinstance(gotp, str) and gotp.startswith("RES:"):
                    why = "execVM did not run the code of the file: afterwards %s, the file's code gives %s" % (gotp, expp)
                else:
                    why = "%s gave %s, the property gives %s" % (kind, str(gotp)[:200], str(expp)[:200])

    if route:
        # the same operator on the same request from code that lies in no file (the ordinary case of this run)
        plain = stats["plain"].get((id(c["tree"]), kind, c["req"]))
        cut = (lambda l: l.split("\t")[:2]) if kind == "execVM" else (lambda l: l)
        if why is None and plain is not None and f[0] != "NOLAUNCH" and cut(plain) != cut(il):
            why = "the answer differs from the one the same request gets from code that lies in no file (%s)" % sample_text(plain)
            rep["impl_from_no_file"] = plain
        if why is not None:
            why = "%s %r executed by code lying in %s (%s; reached by: %s%s): %s" % (
                kind, c["req"], c["curp"], c["note"].replace("placed: ", ""), route, (" " + repr(c["curv"])) if c["curv"] else "", why)
        stats["placed"]["judged"] = stats["placed"].get("judged", 0) + 1

    # ---- 2. correspondence with the mechanism model
    ci = canon_impl(kind, il)
    if kind == "execVM":
        def runs(mline):
            g = mline.split("\t")
            if g[0] == "NF":
                return "NF"
            if g[0] == "RUNARG":
                return "RES:<unset>"
            if g[0] == "RUN":
                if g[1] == "FAIL":
                    return "FAIL"
                ls = files_of_payload(g[1])
                if ls is None:
                    return g[1]
                last = [content_file(x) for x in ls if content_file(x)]
                return "RES:" + (last[-1] if last else "<unset>")
            return mline
        gi = "NF" if f[0] == "NF" else ("FAIL" if f[0] == "RAN-PPFAIL" else ("RES:" + unh(f[1]) if f[0] == "RAN" and len(f) > 1 else il))
        same_rep, same_asis = gi == runs(rep_l), gi == runs(asis_l)
    else:
        same_rep, same_asis = ci == rep_l, ci == asis_l
    if rep_l != asis_l:
        stats["as_is_only"][kind] = stats["as_is_only"].get(kind, 0) + 1
    if got not in ("n/a", None):
        stats["nontrivial"].add((kind, str(c["maps"]), c["req"], c["curp"], c["curv"], got))
    elif kind in ("include", "preprocessFile", "preprocessFileLineNumbers", "execVM", "loadFile") and "OK:" in il or il.startswith("TEXT") or il.startswith("RAN\t"):
        stats["nontrivial"].add((kind, str(c["maps"]), str(c["setup"])[:300], c["req"], c["curp"], c["curv"], il[:80]))
    if len(stats["samples"]) < 8 and kind not in [s["kind"] for s in stats["samples"]]:
        stats["samples"].append({"kind": kind, "req": c["req"], "curp": c["curp"], "curv": c["curv"], "maps": c["maps"],
                                 "impl": sample_text(il), "model": sample_text(rep_l)})
    if why:
        if same_asis and not same_rep:
            why += "  [the implementation behaves as the unrepaired model (defects as_is) predicts; see proposed_fixes/]"
        run.violation(why, rep)
        return
    if not same_rep:
        if asis_l.startswith("UB") or "UB" in asis_l.split("\t")[-1][:3] or asis_l.startswith("SETUP-UB"):
            stats["ub_unobserved"] += 1
        rep["broken"] = "correspondence VfsDefs.get_info/read_file/op_* (repaired) vs sqf::fileio::impl_default"
        run.violation("implementation and model disagree (property oracle satisfied on this input)" +
                      ("; it agrees with the unrepaired model" if same_asis else ""), rep, found_input=False)


def sample_text(l):
    out = []
    for x in l.split("\t"):
        try:
            out.append(unh(x[1:]) if x[:1] == "C" and len(x) > 1 else (unh(x) if len(x) > 3 and all(ch in "0123456789abcdef" for ch in x) else x))
        except Exception:
            out.append(x)
    return " | ".join(out)[:300]


# ---------------------------------------------------------------- cli.cpp: config.cpp of a PBO given with --input-pbo
def cli_cases(run, stats):
    exe = os.path.join(V.BUILD, "plain", "sqfvm")
    if not os.path.exists(exe):
        return
    d = tempfile.mkdtemp(prefix="vvfscli")
    try:
        n = 0
        for prefix, cfgname in ((b"x\\verif", b"config.cpp"), (b"verifmod", b"config.cpp")):
            cfg = b"class VerifCfg { value = 1; };"
            fn = os.path.join(d, "m%d.pbo" % n)
            open(fn, "wb").write(pbo_pack(prefix, [(b"fn\\a.sqf", b"RES = 'pbo';"), (cfgname, cfg)]))
            rc, out = V.sh([exe, "-a", "--no-execute-print", "--suppress-welcome", "--no-load-executable-dir", "--input-pbo", fn,
                            "--sqf", "isClass (configFile >> 'VerifCfg')"], timeout=60)
            rc2, mo, _ = V.run_lines([os.path.join(V.BUILD, "ocaml", "vfs_driver")], ["cli\t-\t-\t%s\t-\t-" % hx(cfg)])
            want = mo[0].split("\t||\t")[0] == hx(cfg)
            got = "return value `true`" in out
            n += 1
            stats["cli"] = n
            stats["kinds"]["cli"] = n
            if got:
                stats["nontrivial"].add(("cli", n))
            if want and not got:
                run.violation("config.cpp inside a PBO given with --input-pbo is not loaded: class VerifCfg is missing from configFile "
                              "(cli.cpp reads the entry into a string of length 0)",
                              {"kind": "cli", "pbo_hex": open(fn, "rb").read().hex(), "cmd": "sqfvm -a --input-pbo m.pbo --sqf \"isClass (configFile >> 'VerifCfg')\"",
                               "output": out[-600:], "model_repaired": mo[0]})
    finally:
        shutil.rmtree(d, ignore_errors=True)


# ---------------------------------------------------------------- cli.cpp: the mappings of a real sqfvm process
# The file system of a run of the shipped executable is what the command line says: every `-v PHYS|VIRT` in the order given and
# then - unless --no-load-executable-dir - the working directory on "/" (cli::mount_filesystem, cli::run).  The cases run the
# executable itself in a generated tree and judge what the script operators / #include resolve to with the property (class Spec on
# the list of mappings the command line names); nothing is compared with the model here.
CLI_ROOTS = ["/", "\\", "//", "\\\\", "/\\", "\\/"]          # spellings of the virtual root
CLI_VIRT = [v for v in VIRT if v != ""]                          # ("DIR|" has no virtual side: the CLI documents it as skipped)
CLI_CWD = [B, B + "/r1", B + "/r2", B + "/r3", B + "/out", B + "/r1/sub", B + "/wd"]
CLI_OPS = ["loadFile", "loadFile", "loadFile", "preprocessFile", "preprocessFileLineNumbers", "execVM", "execVM"]
CLI_LOG = re.compile(r"^\[(INF|WRN|ERR|FAT|VRB|TRC)\]")
CLI_MARK = re.compile(r"\[DIAG_LOG\] \[@([RE]),(\d+)(?:,\[([0-9,]*)\])?\]\s*$")


def root_of(phys, cwd):
    p = cleanse_keep(phys)
    return norm(p if p.startswith("/") else cwd + "/" + p)


def virt_of(maps, f, cwd):
    """the virtual spellings of file f: one per mapping whose physical directory holds it"""
    out = []
    for phys, virt in maps:
        root = root_of(phys, cwd)
        if root != "/" and (f + "/").startswith(root + "/") and ".." not in virt:
            out.append("/" + "/".join(vsegs(virt.replace("\\", "/")) + vsegs(f[len(root):])))
    return out


def cli_vargs(rng):
    n = rng.choice([1, 1, 2, 2, 3, 4])
    out = []
    for _ in range(n):
        k = rng.random()
        if out and k < 0.25:
            virt = rng.choice(out)[1]              # several directories on one prefix
            if rng.random() < 0.5:
                virt = virt.replace("/", "\\")
        elif k < 0.5:
            virt = rng.choice(CLI_ROOTS)           # a directory mapped to the virtual root itself
        else:
            virt = rng.choice(CLI_VIRT)
        out.append((rng.choice(PHYS[:9] if rng.random() < 0.8 else PHYS), virt))
    return out


def cli_ok_req(req):
    return not any(ch in req for ch in "\n\r\0\"")


def gen_cli_configs(rng, scale):
    """one configuration = a tree, the -v mappings, the working directory, with/without its implicit mapping; three processes each:
    script operators (--sqf), a file preprocessed from disk (-E, #include from a file without virtual path), #include in --sqf text"""
    cfgs = []
    for i in range(150 * scale):
        t = rand_tree(rng)
        t.add_file(B + "/r1/chain.sqf", "#include \"sub\\chain2.sqf\"\n" + ident(B + "/r1/chain.sqf"))
        t.add_file(B + "/r1/sub/chain2.sqf", "#include \"..\\a.sqf\"\n" + ident(B + "/r1/sub/chain2.sqf"))
        cwd = rng.choice(CLI_CWD)
        t.add_dir(cwd)
        if cwd == B + "/wd":                       # a working directory of its own, holding files named like the mapped ones
            for rel in rng.sample(POOL[:12], 5):
                t.add_file(cwd + "/" + rel)
        noexec = rng.random() < 0.4
        vargs = cli_vargs(rng)
        maps = vargs + ([] if noexec else [(cwd, "/")])
        files = sorted(f for f in t.files if f.endswith(".sqf"))
        # a file that includes another one through a virtual path of it
        tgt = rng.choice(files)
        vs = virt_of(maps, tgt, cwd)
        special = [B + "/r1/chain.sqf", B + "/r1/sub/chain2.sqf", tgt]
        if vs:
            t.add_file(B + "/r2/vinc.sqf", "#include \"%s\"\n%s" % (rng.choice(vs).replace("/", "\\"), ident(B + "/r2/vinc.sqf")))
            special.append(B + "/r2/vinc.sqf")

        def some_request():
            k = rng.random()
            if k < 0.6:
                return rand_request(rng, t, maps)
            if k < 0.72:
                return rand_relative(rng)           # from a script: against the virtual root
            f = rng.choice(special)
            v2 = virt_of(maps, f, cwd)
            req = rng.choice(v2) if v2 else f
            if rng.random() < 0.4:
                req = req.replace("/", "\\")
            if rng.random() < 0.1:
                req = req.lstrip("/\\") or req
            return req

        runs = []
        reqs = []
        for _ in range(8):
            req = some_request()
            if cli_ok_req(req):
                reqs.append((rng.choice(CLI_OPS), req))
        runs.append(dict(route="sqf", requests=reqs, top="", top_arg=""))
        # -E: the file named on the command line has a physical path only
        top = rng.choice([B + "/r1/sub/top.sqf", B + "/r2/top.sqf", B + "/out/top.sqf", cwd + "/top.sqf"])
        n = rng.choice(files)
        flav = rng.random()
        v2 = virt_of(maps, n, cwd)
        if flav < 0.35 or (flav < 0.7 and not v2):
            req = posixpath.relpath(n, posixpath.dirname(top))
        elif flav < 0.7:
            req = rng.choice(v2)
        elif flav < 0.8:
            req = n
        else:
            req = some_request()
        if rng.random() < 0.4:
            req = req.replace("/", "\\")
        if rng.random() < 0.15:
            req = mutate(rng, req)
        if cli_ok_req(req):
            t.add_file(top, "#include \"%s\"\n%s" % (req, ident(top)))
            runs.append(dict(route="E", requests=[("include", req)], top=top,
                             top_arg=top if rng.random() < 0.6 else posixpath.relpath(top, cwd)))
        req = some_request()
        if cli_ok_req(req):
            runs.append(dict(route="inc", requests=[("include", req)], top="", top_arg=""))
        cfgs.append(dict(tree=t, vargs=vargs, cwd=cwd, noexec=noexec, runs=runs))
    return cfgs


def cli_code(requests):
    """the text of a script that makes the requests one after the other and reports every answer in a marked diag_log line"""
    code = []
    for k, (op, req) in enumerate(requests):
        q = '"' + req.replace('"', '""') + '"'
        if op == "execVM":
            # the script started by execVM runs after this one; the one spawned behind it reports what it left
            code.append('RES = "<unset>"; execVM %s; diag_log ["@E",%d]; %d spawn {diag_log ["@R",_this,toArray RES]; RES = "<unset>"};' % (q, k, k))
        else:
            code.append('diag_log ["@R",%d,toArray (%s %s)];' % (k, op, q))
    return " ".join(code)


def gen_cli_script_configs(rng, scale):
    """the requests of a configuration made by a script FILE of the tree, started through execVM / compile preprocessFileLineNumbers /
    #include from the --sqf text, or named on the command line (--input-sqf, absolute and relative to the working directory)"""
    cfgs = []
    for i in range(36 * scale):
        t, vargs = placed_config(rng)
        vargs = [(p, v) for p, v in vargs if v != ""][:4] or [(B + "/r1", "/x")]       # ("DIR|" has no virtual side: skipped by the CLI)
        cwd = rng.choice(CLI_CWD[:6])
        t.add_dir(cwd)
        noexec = rng.random() < 0.4
        maps = vargs + ([] if noexec else [(cwd, "/")])
        spec = Spec(t, maps, cwd)
        runs = []
        places = placed_places(rng, spec, t, 2)
        reqs_of = {d: [(rng.choice(CLI_OPS), q) for q in placed_requests(rng, t, maps, cwd, d, 6)] for d in places}
        for d in places:                         # (all of them before a request that starts one is chosen: one may hide the other)
            if reqs_of[d]:
                t.add_file(d + "/" + WNAME, cli_code(reqs_of[d]))
        for d in places:
            worker, reqs = d + "/" + WNAME, reqs_of[d]
            if not reqs:
                continue
            hows = [("input-sqf", worker), ("input-sqf", posixpath.relpath(worker, cwd))]
            for q in launches(spec, maps, worker, cwd):
                hows += [("execVM", q), ("compile", q), ("include", q)]
            how, arg = rng.choice(hows)
            if how != "input-sqf" and rng.random() < 0.3:
                arg = arg.replace("/", "\\")
            runs.append(dict(route="script", requests=reqs, top=worker, top_arg=arg, how=how, place=place_kind(spec, d)))
        cfgs.append(dict(tree=t, vargs=vargs, cwd=cwd, noexec=noexec, runs=runs))
    return cfgs


def cli_exec(exe, cfg):
    """realise the tree below a fresh directory of the same depth as B, run the processes of the configuration in it"""
    base = tempfile.mkdtemp(prefix="vvfc", dir="/tmp")
    bs = base.replace("/", "\\")

    def sub_in(x):
        return x.replace(B, base).replace(B.replace("/", "\\"), bs)

    try:
        t = cfg["tree"]
        for d in sorted(t.dirs):
            if d not in ("/tmp", B):
                os.makedirs(sub_in(d), exist_ok=True)
        for p, c in t.files.items():
            os.makedirs(os.path.dirname(sub_in(p)), exist_ok=True)
            with open(sub_in(p), "wb") as fh:
                fh.write(sub_in(c).encode("latin-1"))
        for r in cfg["runs"]:
            cmd = [exe, "-a", "--no-execute-print", "--suppress-welcome"] + (["--no-load-executable-dir"] if cfg["noexec"] else [])
            for ph, vi in cfg["vargs"]:
                cmd += ["-v", ph + "|" + vi]
            if r["route"] == "sqf":
                cmd += ["--sqf", cli_code(r["requests"])]
            elif r["route"] == "script":
                # the requests are made by the file r["top"] of the tree (cli_code(requests) is its text); r["how"] says how it is started
                q = '"' + r["top_arg"] + '"'
                if r["how"] == "execVM":
                    cmd += ["--sqf", "execVM " + q]
                elif r["how"] == "compile":
                    cmd += ["--sqf", "call compile preprocessFileLineNumbers " + q]
                elif r["how"] == "include":
                    cmd += ["--sqf", "\n#include " + q + "\n"]
                else:
                    cmd += ["--input-sqf", r["top_arg"]]
            elif r["route"] == "E":
                cmd += ["-E", r["top_arg"]]
            else:
                cmd += ["--sqf", 'RES = "<unset>";\n#include "%s"\ndiag_log ["@R",0,toArray RES];' % r["requests"][0][1]]
            r["cmd"] = " ".join("'%s'" % a if (" " in a or "\\" in a or "|" in a or "\n" in a or '"' in a) else a for a in ["sqfvm"] + cmd[1:])
            rc, out = V.sh([sub_in(a) for a in cmd], timeout=120, cwd=sub_in(cfg["cwd"]))
            r["rc"], r["out"] = rc, out.replace(base, B)         # (texts come back as arrays of character codes: cli_parse gets `base`)
            r["base"] = base
    finally:
        shutil.rmtree(base, ignore_errors=True)
    return cfg


def cli_payload(lines):
    return [l for l in lines if l.strip(" \t\r") != "" and not l.lstrip(" \t").startswith("#line") and not CLI_LOG.match(l)]


def cli_parse(out, base=""):
    """the marked diag_log lines of a --sqf run: request number -> not-found / error messages before it, the text reported"""
    res, seg = {}, []
    for ln in out.split("\n"):
        m = CLI_MARK.search(ln)
        if not m:
            seg.append(ln)
            continue
        k = int(m.group(2))
        if k not in res:
            res[k] = {"nf": any("could not be located" in l for l in seg), "err": any(l.startswith(("[ERR]", "[FAT]")) for l in seg)}
        if m.group(1) == "R":
            text = "".join(chr(int(x)) for x in (m.group(3) or "").split(",") if x)
            res[k]["text"] = text.replace(base, B) if base else text
        seg = []
    return res


def cli_expect(spec, tree, op, req):
    """what the property gives for a script operator of a --sqf script (empty current file)"""
    r = spec.resolve(req)
    if op == "loadFile":
        return r
    if r == "unspecified" or len(r) != 1:
        return "unspecified"
    f0 = next(iter(r))
    expp = "NF" if f0 is None else spec_expand(spec, f0, "?", tree.files[f0], [f0])
    if op == "execVM" and isinstance(expp, list):
        if any(content_file(x) is None for x in expp):
            return "unspecified"             # text that is no SQF: nothing to observe
        expp = "RES:" + content_file(expp[-1])
    return expp


def cli_judge(run, cfg, stats):
    t, cwd = cfg["tree"], cfg["cwd"]
    maps = list(cfg["vargs"]) + ([] if cfg["noexec"] else [(cwd, "/")])
    spec = Spec(t, maps, cwd)
    cs = stats["climount"]
    root_v = any(vsegs(v.replace("\\", "/")) == [] for p, v in cfg["vargs"])
    for r in cfg["runs"]:
        cs["processes"] += 1
        cs["route " + r["route"]] = cs.get("route " + r["route"], 0) + 1
        if root_v:
            cs["processes with a -v mapping on the virtual root"] += 1
        if not cfg["noexec"]:
            cs["processes with the working directory mapped implicitly"] += 1
        out = r["out"]

        def report(k, why, exp, got):
            op, req = r["requests"][k]
            if r["route"] == "script":
                why = "executed by the script %s (%s; started by %s %r): %s" % (r["top"], r["place"], r["how"], r["top_arg"], why)
            run.violation("sqfvm %s(cwd %s): %s %r: %s" % (" ".join("-v '%s|%s'" % (p, v) for p, v in cfg["vargs"]) +
                                                             (" --no-load-executable-dir " if cfg["noexec"] else " "), cwd, op, req, why),
                          {"kind": "climount", "files": t.files, "dirs": sorted(t.dirs), "vargs": [list(x) for x in cfg["vargs"]], "cwd": cwd,
                           "noexec": cfg["noexec"], "route": r["route"], "requests": [list(x) for x in r["requests"]], "top": r["top"],
                           "top_arg": r["top_arg"], "how": r.get("how", ""), "place": r.get("place", ""), "position": k, "request": [op, req], "mappings_in_effect": [list(x) for x in maps],
                           "expected": str(exp)[:400], "got": str(got)[:400], "cmd": r["cmd"], "exit": r["rc"], "output": out[-1500:]})

        def contained(k, lines):
            for l in lines:
                f = content_file(l)
                if f is not None and f in t.files and not spec.inside(f) and f != norm(r["top"] or "/"):
                    report(k, "text of a file outside every mapped directory was used: " + f, "a file below the mapped directories", f)
                    return False
            return True

        def mark(k, got):
            cs["judged"] += 1
            if got not in (None, "NF", "FAIL") and got:
                cs["resolved to a file"] += 1
                stats["nontrivial"].add(("climount", str(maps), cwd, r["route"], str(r["requests"][k]), str(got)[:120]))
                if root_v:
                    cs["resolved with a -v mapping on the virtual root"] += 1

        if r["rc"] == 124 or "[timeout]" in out[-20:]:
            report(0, "the process did not end", "a result", "timeout")
            continue
        if r["route"] in ("sqf", "script"):
            if r["route"] == "script":
                cs["script: " + r["how"]] = cs.get("script: " + r["how"], 0) + 1
                cs["script in " + r["place"]] = cs.get("script in " + r["place"], 0) + 1
            res = cli_parse(out, r.get("base", ""))
            for k, (op, req) in enumerate(r["requests"]):
                cs["resolutions"] += 1
                d = res.get(k)
                if d is None or "text" not in d:
                    report(k, "the run gave no result for this request (exit %s)" % r["rc"], "a result", "nothing")
                    break
                text = d["text"]
                exp = cli_expect(spec, t, op, req)
                if op == "loadFile":
                    got = None if text == "" else (which_file(t, text) or "<other text>")
                    if got is not None and got != "<other text>" and not spec.inside(got):
                        report(k, "a file outside every mapped directory was read: " + got, exp, got)
                    elif exp == "unspecified":
                        cs["unspecified"] += 1
                    elif got not in exp:
                        if got is None:
                            report(k, "reported as not found, the property resolves it to " + "/".join(sorted(str(x) for x in exp)), exp, got)
                        elif exp == {None}:
                            report(k, "resolved to %s, the property says not found" % got, exp, got)
                        else:
                            report(k, "the wrong root/prefix won: got %s, the property says %s" % (got, "/".join(sorted(str(x) for x in exp))), exp, got)
                    else:
                        mark(k, got)
                    continue
                if op == "execVM":
                    gotp = "NF" if d["nf"] else ("FAIL" if d["err"] else "RES:" + text)
                    if gotp.startswith("RES:") and not contained(k, [ident(text)]):
                        continue
                else:
                    gotp = ("NF" if d["nf"] else "FAIL" if d["err"] else []) if text == "" else cli_payload(text.split("\n"))
                    if isinstance(gotp, list) and not contained(k, gotp):
                        continue
                if exp == "unspecified":
                    cs["unspecified"] += 1
                elif gotp != exp:
                    if op == "execVM" and gotp.startswith("RES:"):
                        report(k, "execVM did not run the code of the file the property resolves: afterwards %s, expected %s" % (gotp, exp), exp, gotp)
                    else:
                        report(k, "%s gave %s, the property gives %s" % (op, str(gotp)[:200], str(exp)[:200]), exp, gotp)
                else:
                    mark(k, gotp)
            continue
        cs["resolutions"] += 1
        req = r["requests"][0][1]
        if r["route"] == "E":
            ta = r["top_arg"]
            curp = ta if ta.startswith("/") else cwd + "/" + ta
            exp = spec_expand(spec, curp, "", t.files[norm(r["top"])], [norm(curp)])
            gotp = "FAIL" if "Failed to preprocess file" in out else ("UNREADABLE" if "Failed to load file" in out else cli_payload(out.split("\n")))
        else:
            exp = spec_expand(spec, "__commandline", "", "#include \"%s\"" % req, ["__commandline"])
            if isinstance(exp, list):
                exp = "unspecified" if any(content_file(x) is None for x in exp) or not exp else "RES:" + content_file(exp[-1])
            d = cli_parse(out, r.get("base", "")).get(0)
            gotp = "FAIL" if "Failed to preprocess file" in out else ("RES:" + d["text"] if d and "text" in d else "NOTHING")
        lines = gotp if isinstance(gotp, list) else ([ident(gotp[4:])] if gotp.startswith("RES:") else [])
        if not contained(0, lines):
            continue
        if exp == "unspecified":
            cs["unspecified"] += 1
        elif gotp != exp:
            report(0, "#include %s: got %s, the property gives %s" %
                   ("from " + r["top"] + " (named on the command line)" if r["route"] == "E" else "in the text given with --sqf", str(gotp)[:200], str(exp)[:200]),
                   exp, gotp)
        else:
            mark(0, gotp)


def cli_mount_cases(run, stats, scale, replay=None):
    exe = os.path.join(V.BUILD, "plain", "sqfvm")
    stats["climount"] = {"processes": 0, "resolutions": 0, "judged": 0, "unspecified": 0, "resolved to a file": 0,
                         "processes with a -v mapping on the virtual root": 0, "resolved with a -v mapping on the virtual root": 0,
                         "processes with the working directory mapped implicitly": 0}
    if not os.path.exists(exe):
        return
    if replay is not None:
        t = Tree()
        for d in replay.get("dirs", []):
            t.add_dir(d)
        for p, c in replay.get("files", {}).items():
            t.add_file(p, c)
        cfgs = [dict(tree=t, vargs=[tuple(x) for x in replay["vargs"]], cwd=replay["cwd"], noexec=replay["noexec"],
                     runs=[dict(route=replay["route"], requests=[tuple(x) for x in replay["requests"]], top=replay.get("top", ""),
                                top_arg=replay.get("top_arg", ""), how=replay.get("how", ""), place=replay.get("place", ""))])]
    else:
        # a generator of its own: the cases of the other families do not move
        cfgs = gen_cli_configs(random.Random(run.seed * 7919 + 1601), scale)
        cfgs += gen_cli_script_configs(random.Random(run.seed * 15485863 + 16), scale)
    from concurrent.futures import ThreadPoolExecutor
    with ThreadPoolExecutor(max(2, min(V.NPROC, 8))) as ex:
        done = list(ex.map(lambda c: cli_exec(exe, c), cfgs))
    for cfg in done:
        cli_judge(run, cfg, stats)
    stats["kinds"]["climount"] = stats["climount"]["resolutions"]


def main(replay=None):
    run = V.Run(PID, "proof")
    rng = run.rng
    thorough = run.tier == "thorough"
    problems = run.prove()
    himpl = V.build_harness("h_vfs", "asan" if thorough else "plain")
    drv = V.ocaml_driver("vfs")
    scale = 10 if thorough else 1

    cases = []
    stats = {"kinds": {}, "nontrivial": set(), "samples": [], "ub_unobserved": 0, "as_is_only": {}, "placed": {}, "plain": {}}

    def add(kind, tree, setup, req, curp="", curv="", note=""):
        maps = [(s[1], s[2]) for s in setup if s[0] == "M"]
        cases.append(dict(kind=kind, line=line(kind, tree, setup, req, curp, curv), tree=tree, maps=maps, setup=setup,
                          req=req, curp=curp, curv=curv, note=note))

    cli_replay = None
    if replay:
        r = json.load(open(replay))["replay"]
        if r.get("kind") == "climount":
            cli_replay = r
        elif r.get("kind") not in ("cli", "fs", None):
            case_from_dict(r, add, "replay")
        elif r.get("kind") == "fs":
            add("fs", Tree(), [], r["req"], r.get("curp", ""))
    else:
        gen_cases(rng, add, scale)
        # a generator of its own: the cases of the other families do not move
        gen_placed(random.Random(run.seed * 104729 + 16), add, scale, stats)

    import time
    t0 = time.time()
    lines = [c["line"] for c in cases]
    placed_n = sum(1 for c in cases if "@" in c["kind"] or c["note"] == "placed-base")
    rc, impl, err = V.run_lines_parallel([himpl], lines, timeout=3000)
    t1 = time.time()
    # the model has no memory either: a sequence is judged against the single requests (implementation and model)
    # (an operator executed by code that lies in a file: the model's operators have no calling file - op_* = get_info t req [] [])
    mlines = [(line("fs", Tree(), [], "a", "b") if c["kind"] == "infoseq" else
               line(c["kind"].partition("@")[0], c["tree"], c["setup"], c["req"]) if "@" in c["kind"] else c["line"]) for c in cases]
    rc2, model, err2 = V.run_lines_parallel([drv], mlines, timeout=3000)
    single = {}
    for c, il in zip(cases, impl):
        if c["kind"] == "info":
            single[(c["tree"].field(), str(c["setup"]), c["req"], c["curp"], c["curv"])] = il

    for c, il in zip(cases, impl):
        if c["note"] == "placed-base":
            stats["plain"][(id(c["tree"]), c["kind"], c["req"])] = il
    for c, il, ml in zip(cases, impl, model):
        if c["kind"] == "infoseq":
            stats["kinds"]["infoseq"] = stats["kinds"].get("infoseq", 0) + 1
            subs = json.loads(c["note"])
            got = il.split(" || ")
            rep = {"kind": "infoseq", "requests": subs, "maps": c["maps"], "impl": il, "files": c["tree"].files, "dirs": sorted(c["tree"].dirs),
                   "setup": [list(x) for x in c["setup"]], "impl_line": il}
            if il.split("\t")[0] in BAD or len(got) != len(subs):
                run.violation("a sequence of requests on one file system object did not come back: " + il[:80], rep)
                continue
            for k, ((rq, cp, cv), g) in enumerate(zip(subs, got)):
                alone = single.get((c["tree"].field(), str(c["setup"]), rq, cp, cv))
                if alone is None:
                    continue
                if alone.replace("\t", " ") != g:
                    rep["position"] = k
                    rep["alone"] = alone
                    run.violation("request #%d of a sequence on one file system object is answered differently from the same request on a "
                                  "fresh object (%r from %r / %r): resolution depends on earlier requests" % (k + 1, rq, cp, cv), rep)
                    break
            else:
                stats["nontrivial"].add(("infoseq", str(c["maps"]), c["note"]))
            continue
        judge(run, c, il, ml, stats)
    t2 = time.time()
    cli_cases(run, stats)
    if cli_replay is not None or not replay:
        cli_mount_cases(run, stats, scale, cli_replay)
    run.cov["phase_seconds"] = {"implementation lines": round(t1 - t0, 1), "model lines and verdicts": round(t2 - t1, 1),
                                "command line processes": round(time.time() - t2, 1), "lines of the placed-operator family": placed_n}

    for p in problems:
        run.violation("proof obligation not discharged: " + p, {"broken": p, "theorems": run.cov["theorems"]}, found_input=False)
    run.cov["evaluations"] = len(cases) + stats.get("cli", 0) + stats.get("climount", {}).get("resolutions", 0)
    run.cov["distinct_nontrivial"] = len(stats["nontrivial"])
    run.cov["rule"] = ("random directory trees (3 mapped roots + unmapped siblings, every file's content names its own path), 1-5 mappings "
                       "(nested/overlapping prefixes, several roots per prefix, backslash/slash/trailing/relative variants), requests: virtual paths "
                       "with '..' at every position, there-and-back segments, '.', doubled separators, slash/backslash mixes, blanks; absolute "
                       "physical paths inside/outside the roots and prefixes of roots; relative paths against files/directories/absent current "
                       "files; through get_info+read_file, loadFile, preprocessFile, preprocessFileLineNumbers, execVM, #include chains to depth 3, "
                       "PBO archives (own packer) and the CLI's --input-pbo; plus the std::filesystem model against libstdc++. A case is "
                       "non-trivial when a file is resolved/run; distinct by (mappings, request, current file, result). "
                       "Command line (climount): the shipped executable run in generated trees with 1-4 `-v PHYS|VIRT` mappings (every "
                       "spelling of the virtual root - / \\ // \\\\ /\\ \\/ -, prefixes with and without trailing separators, nested "
                       "prefixes, several directories on one prefix, relative / backslash / unnormalised / missing physical sides), from 7 "
                       "working directories (one with files named like the mapped ones), with and without --no-load-executable-dir (the "
                       "working directory is mapped on / behind the -v mappings); requests of the same generators through loadFile, "
                       "preprocessFile, preprocessFileLineNumbers, execVM (8 per --sqf script), `-E file` (#include from a file that has a "
                       "physical path only) and #include in --sqf text; every answer judged by the property alone (class Spec on the "
                       "mappings the command line names: deepest prefix, first directory holding the file, nothing outside). "
                       "Operators executed by code that lies in a file (kinds <operator>@<route>): 170 trees/mapping lists, in each a worker "
                       "file in 3 directories of different standing (the directory a prefix maps, a subdirectory of a mapped directory, below "
                       "nested mappings, above a mapped directory, unmapped), 3 requests per place built from what lies next to the calling "
                       "file (names of siblings / files below it / files reached by dir-ups as seen from the file, names below a mapped "
                       "prefix without the leading separator, the usual relative and absolute requests; backslashes, mutations), each through "
                       "one of loadFile / preprocessFile / preprocessFileLineNumbers / execVM from code that got its file by 2 of the routes: "
                       "parsed as that file (also named relative to the working directory, with backslashes, a file that is not there), a "
                       "#line directive, execVM of the file (also handed on by a worker lying elsewhere), call compile "
                       "preprocessFileLineNumbers of it, #include of it; plus 36 command-line configurations with 2 script files each "
                       "(--input-sqf absolute/relative, execVM / compile / #include from --sqf). Oracle: the property read on the mappings "
                       "(class Spec with NO current file: a script operator resolves through the mapped prefixes only), the extracted "
                       "model's op_* (which have no calling file: get_info t req [] []), and - implementation only - the answer the same "
                       "request gets in the same run from code that lies in no file")
    run.cov["operators_from_files"] = stats["placed"]
    by = {}
    for what, rp, found in run.violations:          # (the printed list is capped at 10 lines: what fired, by kind of case)
        k = str(rp.get("kind", "?")) + ("/" + rp["route"] if rp.get("kind") == "climount" and rp.get("route") else "")
        by[k] = by.get(k, 0) + 1
    run.cov["violations_by_kind_of_case"] = by
    run.cov["cli_mount"] = stats.get("climount", {})
    run.cov["input_distribution"] = stats["kinds"]
    run.cov["samples"] = stats["samples"]
    run.cov["model_ub_cases_not_crashing_on_impl"] = stats["ub_unobserved"]
    run.cov["cases_where_unrepaired_model_differs"] = stats["as_is_only"]
    run.cov["trusted_base"] = [
        "Coq 8.16.1 kernel (vm_compute in Examples only)", "ExtrOcamlBasic extraction + ocaml/vfs_driver.ml",
        "harness/h_vfs.cpp + sqfrt.hpp + fork/rlimit plumbing; the /tmp/@@ <-> scratch-directory substitution",
        "Python generator and the independent property oracle (class Spec, spec_expand) in checks/C16.py",
        "std::filesystem::path is modelled by hand in VFS/VfsDefs.v (POSIX libstdc++: iteration incl. root and trailing-empty element, "
        "lexically_normal, operator/, parent_path, relative_path of normal paths, extension, is_relative) and compared with libstdc++ on "
        "generated strings each run ('fs' cases); symlinks, permissions and case-insensitive file systems are outside the model",
        "the OS lookup that instantiates file existence (os_kind in VfsDefs.v: POSIX walk of a symlink-free tree)",
        "the preprocessor is modelled only for files whose lines are `#include \"...\"` or macro-free payload",
        "model VFS/VfsDefs.v is hand-written; tied to default.cpp/default.h/ops_generic.cpp/cli.cpp only by this differential run"]
    return run.finish()
