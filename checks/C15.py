"""C15 - config tree: values read back, inheritance lookup, merge/delete/append, acyclic.

Three parties per generated case (1-3 config loads + every lookup path of length <= 3 over the names in play):
  * the implementation (harness/h_config.cpp: real tokenizer, bison parser, confighost, SQF operators),
  * the mechanism model extracted from coq/Config/ConfigDefs.v (ocaml/config_driver.ml), defect setting as_is,
  * an independent reference written here from the property text (Ref*), which abstains where the text is silent.
The 'chain' family (gen_chain) runs the same three parties on inheritance chains of 2 .. ~2000 classes with chosen lookup paths.
The 'held' family (HeldCase) runs them on HISTORIES: config values are obtained and kept, further config texts are loaded, and the kept
values are asked again after every load - next to values navigated afresh to the same class (see the section "config values kept across loads").
"""
import json, os, re, sys
import vcommon as V

PID = "C15"
AS_IS = "0000"        # defect switches of ConfigDefs.as_is (all repaired)
ORIGINAL = "1111"     # the pinned tree before proposed_fixes/C15-*.diff
SWITCHES = ["rebind_cycle (proposed_fixes/C15-01-inheritance-cycle.diff)",
            "inherits_logical (proposed_fixes/C15-02-inheritsfrom-base.diff)",
            "hierarchy_shape (proposed_fixes/C15-03-confighierarchy.diff)",
            "deleted_reopen (proposed_fixes/C15-04-redefine-after-delete.diff)"]

# ------------------------------------------------------------------ AST
# node  = ["C", name, base|None, [node...], hints] | ["D", name] | ["F", name, value] | ["A", name, value]
# value = ["N", int, spelling] | ["S", text, style] | ["L", [value...]]

IDENT = re.compile(r"^[A-Za-z_][A-Za-z0-9_]*$")


def bare_ok(s):
    """may this string be written as a bare word (IDENT / ANYSTRING of idents)?"""
    ws = s.split(" ")
    if not ws or any(not IDENT.match(w) for w in ws):
        return False
    return not any(w.lower().startswith(("class", "delete")) for w in ws)


def gen_value(rng, depth=0, scalar_only=False):
    k = rng.random()
    if k < 0.45 or (scalar_only and k < 0.55):
        n = rng.choice([0, 1, 2, 7, 10, 16, 255, 256, 1000, 4096, 65535, 99999, 123456]) if rng.random() < 0.6 else rng.randint(0, 99999)
        if rng.random() < 0.3:
            n = -n
        sp = rng.choice(["d", "d", "d", "d0", "e0", "hex", "dollar", "plus"])
        return ["N", n, sp]
    if k < 0.85 or scalar_only or depth >= 2:
        alphabet = "abcXYZ019_ "
        if rng.random() < 0.35:
            alphabet += "\"'"
        if rng.random() < 0.2:
            alphabet += ";{}=:,[]/*+-."
        s = "".join(rng.choice(alphabet) for _ in range(rng.choice([0, 1, 3, 5, 9])))
        if rng.random() < 0.3:
            s = rng.choice(["abc", "some text", "a_b c9", "Base", "x", "true"])
        return ["S", s, rng.choice(["dq", "dq", "sq", "bare"])]
    return ["L", [gen_value(rng, depth + 1) for _ in range(rng.choice([0, 1, 2, 3]))]]


def gen_array(rng):
    return ["L", [gen_value(rng, 1) for _ in range(rng.choice([0, 1, 2, 3, 4]))]]


ARRAY_FIELDS = ("arr", "X", "list")      # in the regular profile a field name has one type


def gen_shadow(rng):
    """A class is first defined `class X : B` while B is the class of an outer scope; a later load gives the enclosing class a B of
    its own and re-opens `class X : B` behind it: the base named B is now that inner class (inheritsFrom, inherited values)."""
    B, G, X = rng.sample(["A", "B", "Cc", "Base", "Sub"], 3)
    f = rng.choice(["x", "y", "txt"])
    v1, v2 = ["N", rng.randint(1, 50), "d"], ["N", rng.randint(51, 99), "d"]
    own = [["F", "X", ["N", rng.randint(0, 9), "d"]]] if rng.random() < 0.5 else []
    outer = ["C", B, None, [["F", f, v1]], {"decl": False}]
    first = ["C", G, None, [["C", X, B, list(own), {"decl": False}]], {"decl": False}]
    inner_b = ["C", B, None, [["F", f, v2]], {"decl": False}]
    reopen = ["C", X, B, [["F", "list", ["L", []]]] if rng.random() < 0.4 else [], {"decl": False}]
    if rng.random() < 0.6:
        second = [["C", G, None, [inner_b, reopen], {"decl": False}]]
    else:                     # the inner B arrives in a load of its own, the re-open in a third one
        second = [["C", G, None, [inner_b], {"decl": False}]]
    loads = [[outer, first] if rng.random() < 0.7 else [first, outer], second]
    if len(second[0][3]) == 1:
        loads.append([["C", G, None, [reopen], {"decl": False}]])
    if loads[0][0] is first:   # the base must exist when X is first defined
        loads[0] = [outer, first]
    return loads, [B, G, X, f, "X", "list"]


def gen_case(rng, profile):
    """profile 'regular' keeps to what the property text describes: class and field names are disjoint, a field
    name has one type, a base is a class visible from the enclosing classes, a re-opened class keeps its base,
    a deleted name is not declared again.  'wild' also produces kind clashes, unresolvable and cycle-closing
    bases, redefinition after delete."""
    cnames = rng.sample(["A", "B", "Cc", "Base", "Sub", "a"], rng.choice([2, 3, 3, 4]))
    fnames = rng.sample(["x", "y", "arr", "txt", "X", "list"], rng.choice([1, 2, 2, 3]))
    if not any(f in ARRAY_FIELDS for f in fnames):
        fnames[0] = "arr"
    while len(cnames) + len(fnames) > 6:
        cnames.pop()
    wild = profile == "wild"
    # generator-side symbol table: path (tuple of names) -> {name: 'class' | 'value' | 'deleted'}, and the base chosen per path
    table = {(): {}}
    bases = {}

    def visible_classes(path):
        out = []
        for k in range(len(path), -1, -1):
            for nm, kd in table.get(path[:k], {}).items():
                if kd == "class" and nm not in out:
                    out.append(nm)
        return out

    def gen_class(depth, path):
        here = table.setdefault(path, {})
        if wild:
            name = rng.choice(cnames if rng.random() > 0.05 else cnames + fnames)
        else:
            cands = [n for n in cnames if here.get(n, "class") == "class"]
            if not cands:
                return None
            name = rng.choice(cands)
        me = path + (name,)
        base = None
        existed = here.get(name) == "class"
        if wild:
            if rng.random() < 0.45:
                cands = visible_classes(path) if rng.random() < 0.7 else list(cnames)
                if cands:
                    base = rng.choice(cands)
        elif existed:
            if rng.random() < 0.4:
                base = bases.get(me)
        elif rng.random() < 0.55:
            cands = [n for n in visible_classes(path) if n != name]
            if cands:
                base = rng.choice(cands)
        if not existed:
            bases[me] = base
        here[name] = "class"
        table.setdefault(me, {})
        body = []
        if depth < 3:
            for _ in range(rng.choice([0, 1, 2, 3, 4] if depth < 2 else [0, 1, 2])):
                st = gen_stmt(depth + 1, me)
                if st is not None:
                    body.append(st)
        hints = {"decl": (not body) and rng.random() < 0.3}
        return ["C", name, base, body, hints]

    def gen_stmt(depth, path):
        here = table.setdefault(path, {})
        r = rng.random()
        if r < 0.30 and depth < 3:
            return gen_class(depth, path)
        if wild:
            fpool = fnames if rng.random() > 0.05 else fnames + cnames
            if r < 0.60:
                return ["F", rng.choice(fpool), gen_value(rng, 0, scalar_only=True)]
            if r < 0.75:
                return ["F", rng.choice(fpool), gen_array(rng)]
            if r < 0.88:
                return ["A", rng.choice(fpool), gen_array(rng)]
            return ["D", rng.choice(fnames + cnames)]
        if r >= 0.88:
            cands = [n for n in fnames + cnames if here.get(n) is None]     # hide an inherited entry, or a marker for nothing
            if rng.random() < 0.3:
                cands += [n for n in fnames + cnames if here.get(n) in ("class", "value")]   # delete an own entry
            if not cands:
                return None
            nm = rng.choice(cands)
            here[nm] = "deleted"
            return ["D", nm]
        live = [n for n in fnames if here.get(n) != "deleted"]
        scal = [n for n in live if n not in ARRAY_FIELDS]
        arrs = [n for n in live if n in ARRAY_FIELDS]
        if r < 0.60 and scal:
            nm = rng.choice(scal)
            here[nm] = "value"
            return ["F", nm, gen_value(rng, 0, scalar_only=True)]
        if arrs:
            nm = rng.choice(arrs)
            here[nm] = "value"
            return ["F" if r < 0.75 else "A", nm, gen_array(rng)]
        return None

    loads = []
    for _ in range(rng.choice([1, 1, 2, 2, 3])):
        stmts = []
        for _ in range(rng.choice([1, 2, 3, 4])):
            top = table[()]
            if rng.random() < 0.07:
                cands = [n for n in cnames if wild or top.get(n) != "deleted"]
                if cands:
                    nm = rng.choice(cands)
                    top[nm] = "deleted"
                    stmts.append(["D", nm])
            else:
                st = gen_class(0, ())
                if st is not None:
                    stmts.append(st)
        if not stmts:
            stmts.append(["C", "zz9", None, [], {"decl": False}])
        loads.append(stmts)
    names = cnames + fnames + ["zz"]
    return loads, names


# ------------------------------------------------------------------ deep inheritance ("chain" family)
# "finds an entry exactly when it is defined in the class or in an ancestor along its inheritance chain" carries no bound on the
# length of that chain.  The grammar cases above have chains of 2-4 classes; this family builds a trunk of n classes, each derived from
# the one before (n from 2 to a few thousand, dense around 8/16/32/64/100/128/256/512/1000/1024/2048), with side branches, entries
# defined / overridden / deleted / appended to at sparse random levels, spread over scopes and loads, and looks every entry up from
# classes at every distance (all of them in a short chain, the marks below relative to the defining classes in a long one).
CHAIN_MARKS = (1, 2, 3, 7, 8, 9, 15, 16, 17, 31, 32, 33, 63, 64, 65, 99, 100, 101, 127, 128, 129, 199, 200, 201, 255, 256, 257,
               499, 500, 501, 511, 512, 513, 999, 1000, 1001, 1023, 1024, 1025, 2047, 2048, 2049)
CHAIN_SCALARS = ("v", "name", "x", "p", "q")      # p, q: never in the root class - defined only somewhere up the chain
CHAIN_ARRAYS = ("list", "arr")
CHAIN_BANDS = {"short": (2, 12, ()), "medium": (13, 48, (15, 16, 17, 18, 31, 32, 33, 34, 35, 40)),
               "long": (49, 300, (63, 64, 65, 66, 100, 101, 127, 128, 129, 130, 255, 256, 257, 258)),
               "huge": (301, 2100, (511, 512, 513, 514, 1000, 1001, 1023, 1024, 1025, 1026, 2047, 2048, 2049, 2050))}


def chain_length(rng, band):
    lo, hi, marks = CHAIN_BANDS[band]
    return rng.choice(marks) if marks and rng.random() < 0.5 else rng.randint(lo, hi)


def gen_chain(rng, n, q=None):
    """-> loads, names, paths.  Keeps to the 'regular' discipline of gen_case (the reference decides every case): class names are
    unique and unrelated to the position in the chain, a field name has one type, a base is visible from the enclosing classes when
    the class is defined, a re-opened class keeps its base, a name deleted in a class is not declared there again."""
    ids = rng.sample(range(1, 10 * n + 400), n + 100)
    fresh = lambda: rng.choice("KLMPQRTUVW") + rng.choice(["", "", "_", "z"]) + "%d" % ids.pop()
    # ---- scopes: everything at top level / everything inside a holder class / the chain descends into holder classes on its way
    holder = (fresh(), fresh())
    mode = rng.choice(["top", "top", "nested", "descending"])
    cut1 = cut2 = n
    if mode == "nested":
        cut1 = 0
        cut2 = 0 if rng.random() < 0.3 else n
    elif mode == "descending":
        cut1 = rng.randint(1, n - 1)
        cut2 = rng.randint(cut1, n) if rng.random() < 0.5 else n
    scope_of = lambda k: () if k < cut1 else (holder[:1] if k < cut2 else holder)
    # ---- classes: rec = {name, scope, base (rec), body, own: name -> kind, depth}
    # q: how often a class below the root has a body; sparse in long chains, so that entries are inherited over long stretches
    if q is None:
        q = rng.choice([0.0, 0.15, 0.4, 0.7] if n <= 12 else [0.0, 0.02, 0.06, 0.15, 0.4] if n <= 48 else
                       [0.0, 0.01, 0.03, 0.1] if n <= 300 else [0.0, 0.0, 0.002, 0.01, 0.05])
    pool = list(CHAIN_SCALARS) + list(CHAIN_ARRAYS) + ["Sub"]

    def stmt_for(rec, nm, root=False):
        r = rng.random()
        if nm == "Sub":
            if r < 0.2 and not root:
                rec["own"][nm] = "deleted"
                return ["D", nm]
            body = [["F", "w", ["N", rng.randint(0, 999), "d"]]] if rng.random() < 0.85 else []
            if rng.random() < 0.4:
                body.append(["F", "list", gen_array(rng)])
            rec["own"][nm] = "class"
            return ["C", "Sub", None, body, {"decl": False}]
        if r < 0.15 and not root:
            rec["own"][nm] = "deleted"
            return ["D", nm]
        rec["own"][nm] = "value"
        if nm in CHAIN_ARRAYS:
            return ["A" if (r < 0.6 and not root) else "F", nm, gen_array(rng)]
        return ["F", nm, gen_value(rng, 0, scalar_only=True)]

    def make(name, scope, base, root=False):
        rec = {"name": name, "scope": scope, "base": base, "body": [], "own": {}, "depth": 0 if base is None else base["depth"] + 1}
        if root:
            picks = rng.sample(["v", "name", "x", "list", "arr", "Sub"], rng.choice([2, 3, 4, 6]))
            if not any(p_ in CHAIN_SCALARS for p_ in picks):
                picks.append("v")
            if not any(p_ in CHAIN_ARRAYS for p_ in picks) and rng.random() < 0.8:
                picks.append("list")
        else:
            picks = rng.sample(pool, rng.choice([1, 1, 2])) if rng.random() < q else []
        for nm in picks:
            rec["body"].append(stmt_for(rec, nm, root))
        return rec

    trunk = []
    for k in range(n):
        trunk.append(make(fresh(), scope_of(k), trunk[-1] if trunk else None, root=(k == 0)))
    leaf = trunk[-1]
    if rng.random() < 0.6:      # the far end appends to / overrides what it inherits over the whole distance
        for nm in rng.sample(pool, 2):
            if nm not in leaf["own"]:
                leaf["body"].append(stmt_for(leaf, nm))
    order = list(trunk)
    branches = []
    for _ in range(rng.choice([0, 0, 1, 3, 6])):
        pos = rng.randrange(len(order))
        base = order[pos]
        rec = make(fresh(), base["scope"], base)       # declared behind its base, in the base's scope
        if rng.random() < 0.5 and not rec["body"]:
            rec["body"].append(stmt_for(rec, rng.choice(pool)))
        order.insert(rng.randint(pos + 1, len(order)), rec)
        branches.append(rec)

    def node(rec):
        return ["C", rec["name"], rec["base"]["name"] if rec["base"] else None, rec["body"],
                {"decl": (not rec["body"]) and rng.random() < 0.15}]

    def wrap(scope, nodes):
        for h in reversed(scope):
            nodes = [["C", h, None, nodes, {"decl": False}]]
        return nodes

    def emit(recs):
        out, i = [], 0
        while i < len(recs):
            j = i
            while j < len(recs) and recs[j]["scope"] == recs[i]["scope"]:
                j += 1
            out += wrap(recs[i]["scope"], [node(r_) for r_ in recs[i:j]])
            i = j
        return out

    nloads = rng.choice([1, 1, 2, 3])
    cuts = sorted(rng.sample(range(1, len(order)), min(nloads - 1, len(order) - 1))) if len(order) > 1 else []
    loads = [emit(order[a:b]) for a, b in zip([0] + cuts, cuts + [len(order)])]
    # ---- a later load re-opens classes far up the chain: what it adds / overrides / appends shows in every descendant
    late = []
    for _ in range(rng.choice([0, 0, 1, 2])):
        rec = rng.choice(trunk[:max(1, n // 3)] + [trunk[0]])
        cands = [nm for nm in pool if nm != "Sub" and rec["own"].get(nm) != "deleted"]
        nm = rng.choice(cands)
        st = stmt_for(rec, nm, root=(rec["own"].get(nm) is None and rng.random() < 0.5))
        if st[0] == "D":
            continue
        keep = rec["base"]["name"] if (rec["base"] and rng.random() < 0.5) else None
        late += wrap(rec["scope"], [["C", rec["name"], keep, [st], {"decl": False}]])
    if late:
        loads.append(late)
    # ---- an outer chain over the holder class: Om >> <chain class> >> <entry> crosses two inheritance walks
    outer = []
    if holder[0] in [s for r_ in order for s in r_["scope"]] and rng.random() < 0.7:
        m = rng.choice([1, 2, 5, rng.choice([16, 17, 32, 33, 34, 40, 64, 65, 70])])
        prev = holder[0]
        for _ in range(m):
            nm = fresh()
            outer.append(["C", nm, prev, [], {"decl": rng.random() < 0.15}])
            prev = nm
        loads.append(outer) if rng.random() < 0.5 else loads[-1].extend(outer)
    # ---- where to look from
    if len(order) <= 40:
        chosen = list(order)
    else:
        definers = [k for k in range(1, n) if trunk[k]["body"]]
        anchors = [0] + rng.sample(definers, min(3, len(definers)))
        picked = {0, n - 1}
        for a in anchors:
            near = {a + m for m in CHAIN_MARKS if a + m < n} | {a}
            if a:
                near = set(rng.sample(sorted(near), min(len(near), 12))) | {a, a - 1}
            picked |= near
        picked |= set(rng.sample(range(n), 6))
        chosen = [trunk[k] for k in sorted(picked)] + branches
    entries = sorted({nm for r_ in order for nm in r_["own"]} | {"v", "list"}) + ["zz"]
    paths, seen = [()], {()}

    def want(p_):
        for k in range(1, len(p_) + 1):
            if p_[:k] not in seen:
                seen.add(p_[:k])
                paths.append(p_[:k])

    for rec in chosen:
        me = rec["scope"] + (rec["name"],)
        for nm in entries:
            want(me + (nm,))
        if "Sub" in entries:
            want(me + ("Sub", "w"))
            want(me + ("Sub", "list"))
    if outer:
        tops = [outer[-1][1]] + ([outer[len(outer) // 2][1], outer[0][1]] if len(outer) > 2 else [])
        inner = [r_ for r_ in chosen if r_["scope"] == holder[:1]]
        for top in tops:
            for rec in rng.sample(inner, min(len(inner), 6)):
                for nm in entries:
                    want((top, rec["name"], nm))
            if len(holder) > 1:
                want((top, holder[1]))
    paths.sort(key=len)
    names = [r_["name"] for r_ in chosen] + entries
    return loads, names, paths


def ref_distance(ref, path):
    """number of base-class steps the last `>>` of this lookup takes before it meets the (nearest) definition or delete marker;
    None when the path does not get that far or no class of the chain has the entry"""
    c = ref.root
    for nm in path[:-1]:
        c = ref.lookup(c, nm) if c is not None else None
    d = 0
    while c is not None and c.kind == "class":
        if path[-1] in c.index:
            return d
        c = c.base
        d += 1
    return None


def chain_depth(ref, path):
    """length of the inheritance chain above the class this path denotes (None: not a class)"""
    c = ref.root
    for nm in path:
        c = ref.lookup(c, nm) if c is not None else None
    if c is None or c.kind != "class":
        return None
    d = 0
    while c.base is not None:
        c = c.base
        d += 1
    return d


def bucket(d):
    for lim, lab in ((0, "0"), (7, "1-7"), (31, "8-31"), (127, "32-127"), (1023, "128-1023")):
        if d <= lim:
            return lab
    return ">=1024"


# ------------------------------------------------------------------ rendering to config text
def render_number(n, sp):
    if sp == "d0":
        return "%d.0" % n
    if sp == "e0":
        return "%de0" % n
    if sp == "hex" and n >= 0:
        return "0x%X" % n
    if sp == "dollar" and n >= 0:
        return "$%x" % n
    if sp == "plus" and n >= 0:
        return "+%d" % n
    return "%d" % n


def render_string(s, style):
    if style == "bare" and bare_ok(s):
        return s
    if style == "sq":
        return "'" + s.replace("'", "''") + "'"
    return '"' + s.replace('"', '""') + '"'


def render_value(v, rng):
    if v[0] == "N":
        return render_number(v[1], v[2])
    if v[0] == "S":
        return render_string(v[1], v[2])
    sep = rng.choice([",", ", ", " , "])
    return "{" + sep.join(render_value(x, rng) for x in v[1]) + "}"


def render_node(n, rng, ind):
    pad = " " * ind if rng.random() < 0.8 else ""
    nl = "\n" if rng.random() < 0.8 else " "
    semi = ";" if rng.random() < 0.9 else ";;"
    cmt = ""
    r = rng.random()
    # no block comments: tokenizer.hpp:175-180 leaves the closing "*/" in the stream (a lexical defect outside this
    # property; config text normally passes the preprocessor, which strips comments, before it reaches this parser)
    if r < 0.08:
        cmt = " // c\n"
    if n[0] == "C":
        head = "class %s" % n[1]
        if n[2] is not None:
            head += rng.choice([" : ", ":", " :"]) + n[2]
        if not n[3] and n[4].get("decl"):
            return pad + head + semi + cmt + nl
        body = "".join(render_node(x, rng, ind + 2) for x in n[3])
        return pad + head + rng.choice([" {", "{", "\n" + pad + "{"]) + nl + body + pad + "}" + semi + cmt + nl
    if n[0] == "D":
        return pad + "delete %s" % n[1] + semi + cmt + nl
    eq = rng.choice([" = ", "=", " ="])
    if n[0] == "A":
        return pad + n[1] + "[]" + rng.choice([" += ", "+=", " +="]) + render_value(n[2], rng) + semi + cmt + nl
    if n[2][0] == "L":
        return pad + n[1] + "[]" + eq + render_value(n[2], rng) + semi + cmt + nl
    return pad + n[1] + eq + render_value(n[2], rng) + semi + cmt + nl


def render_load(stmts, rng):
    return "".join(render_node(s, rng, 0) for s in stmts)


# ------------------------------------------------------------------ serialisation for the model driver
def ser_value(v):
    if v[0] == "N":
        return "N %d" % v[1]
    if v[0] == "S":
        return "S " + V.hx(v[1])
    return "L %d %s" % (len(v[1]), " ".join(ser_value(x) for x in v[1]))


def ser_node(n):
    if n[0] == "C":
        return "C %s %s %d %s" % (V.hx(n[1]), V.hx(n[2]) if n[2] else "-", len(n[3]), " ".join(ser_node(x) for x in n[3]))
    if n[0] == "D":
        return "D " + V.hx(n[1])
    return "%s %s %s" % (n[0], V.hx(n[1]), ser_value(n[2]))


def ser_loads(loads):
    return "%d %s" % (len(loads), " ".join("%d %s" % (len(l), " ".join(ser_node(x) for x in l)) for l in loads))


# ------------------------------------------------------------------ reference semantics (from the property text)
class RefClass:
    def __init__(self, name, parent):
        self.name, self.parent, self.base = name, parent, None
        self.slots = []          # [name, obj-or-None]  obj None = delete marker; declaration order
        self.index = {}          # name -> slot position
        self.kind = "class"
        self.value = None


class RefValue:
    def __init__(self, name, parent):
        self.name, self.parent, self.kind, self.value = name, parent, "value", None
        self.base = None
        self.slots, self.index = [], {}


class Ref:
    """What the property text says a config host is.  `silent` collects the reasons why the text does not
    determine the outcome of this case (the functional oracle then abstains; safety still applies)."""

    def __init__(self):
        self.root = RefClass("config/bin", None)
        self.silent = []
        self.append_distances = []   # per `+=` that found an inherited array: base-class steps from the appending class to its owner

    def own(self, c, name):
        if name in c.index:
            return True, c.slots[c.index[name]][1]
        return False, None

    def resolve_base(self, scope, name):
        # DESIGN.md section 6 C15: the base name is resolved along the enclosing classes only
        c = scope
        while c is not None:
            has, obj = self.own(c, name)
            if has:
                return obj
            c = c.parent
        return None

    def inherits_from(self, c, x):
        seen = 0
        while c is not None and seen < 10000:
            if c is x:
                return True
            c = c.base
            seen += 1
        return False

    def lookup(self, c, name):
        steps = 0
        while c is not None and steps < 10000:
            has, obj = self.own(c, name)
            if has:
                return obj          # nearest definition wins; a delete marker hides
            c = c.base
            steps += 1
        return None

    def entry(self, scope, name, want):
        """own entry `name` of scope, created when absent; want = 'class' | 'value'"""
        has, obj = self.own(scope, name)
        if has and obj is None:
            self.silent.append("redefinition after delete")
            obj = (RefClass if want == "class" else RefValue)(name, scope)
            scope.index[name] = len(scope.slots)
            scope.slots.append([name, obj])
            return obj, True
        if has:
            if obj.kind != want:
                self.silent.append("a name used both as class and as value")
            return obj, False
        obj = (RefClass if want == "class" else RefValue)(name, scope)
        scope.index[name] = len(scope.slots)
        scope.slots.append([name, obj])
        return obj, True

    def apply(self, scope, n):
        if n[0] == "C":
            wanted = self.resolve_base(scope, n[2]) if n[2] is not None else None
            obj, fresh = self.entry(scope, n[1], "class")
            if n[2] is not None:
                if wanted is None:
                    self.silent.append("base class not found")
                    if not fresh:
                        obj.base = None
                elif fresh:
                    obj.base = wanted
                elif self.inherits_from(wanted, obj):
                    self.silent.append("base would close an inheritance cycle")
                else:
                    if obj.base is not wanted and not (obj.base is not None and obj.base.name.lower() == wanted.name.lower()):
                        # a base of another NAME: the text does not say which one counts.  The same name that now resolves to another
                        # class is decided by the text: `class X : B` - inheritsFrom returns the class B stands for here
                        self.silent.append("re-opened with a different base")
                    obj.base = wanted
            for x in n[3]:
                self.apply(obj, x)
        elif n[0] == "D":
            has, obj = self.own(scope, n[1])
            if has:
                scope.slots[scope.index[n[1]]][1] = None
            else:
                scope.index[n[1]] = len(scope.slots)
                scope.slots.append([n[1], None])
        elif n[0] == "F":
            obj, fresh = self.entry(scope, n[1], "value")
            obj.value = ref_value(n[2])
        elif n[0] == "A":
            inh = self.lookup(scope.base, n[1]) if scope.base is not None else None
            obj, fresh = self.entry(scope, n[1], "value")
            mine = ref_value(n[2])
            if inh is not None and isinstance(inh.value, list):
                k, d = scope, 0
                while k is not None and inh.parent is not k and d < 10000:
                    k, d = k.base, d + 1
                self.append_distances.append(d)
                obj.value = list(inh.value) + mine
            else:
                if inh is not None:
                    self.silent.append("+= over an inherited entry that is not an array")
                obj.value = mine

    def load(self, stmts):
        for s in stmts:
            self.apply(self.root, s)


def ref_value(v):
    if v[0] == "N":
        return v[1]
    if v[0] == "S":
        return v[1]
    return [ref_value(x) for x in v[1]]


def sqf_quote(s):
    return '"' + s.replace('"', '""') + '"'


def sqf_show(v):
    if isinstance(v, bool):
        return "true" if v else "false"
    if isinstance(v, int):
        return "%d" % v
    if isinstance(v, str):
        return sqf_quote(v)
    return "[" + ",".join(sqf_show(x) for x in v) + "]"


def ref_chunk(ref, path, flags):
    """expected diag_log lines for the observation chunk of `path` (None: the text is silent)"""
    c = ref.root
    for nm in path:
        c = ref.lookup(c, nm) if c is not None else None
    return ref_chunk_obj(c, flags)


def ref_chunk_obj(c, flags):
    nm = lambda o: o.name if o is not None else ""
    if c is None:
        return ["[,true,false,false,false,false,0,\"\",[]]"]
    isnum = c.kind == "value" and isinstance(c.value, int)
    istxt = c.kind == "value" and isinstance(c.value, str)
    isarr = c.kind == "value" and isinstance(c.value, list)
    l1 = "[" + ",".join([c.name, "false", sqf_show(c.kind == "class"), sqf_show(isnum), sqf_show(istxt), sqf_show(isarr),
                         "%d" % (c.value if isnum else 0), sqf_quote(c.value if istxt else ""),
                         sqf_show(c.value if isarr else [])]) + "]"
    sel = [""] + [nm(o) for _, o in c.slots] + [""]
    hier = []
    k = c
    while k is not None:
        hier.append(k.name)
        k = k.parent
    l2 = "[" + ",".join([sqf_quote(c.name), "%d" % len(c.slots), nm(c.base), "[" + ",".join(reversed(hier)) + "]",
                         "[" + ",".join(sel) + "]"]) + "]"
    out = [l1, l2]
    if "c" in flags:
        out.append("[" + ",".join(o.name for _, o in c.slots if o is not None and o.kind == "class") + "]")
    return out


# ------------------------------------------------------------------ SQF observation chunks
def chunk_sqf(path, flags):
    cfg = "configFile" + "".join(' >> "%s"' % p for p in path)
    s = ("private _c = %s; "
         "diag_log str [_c, isNull _c, isClass _c, isNumber _c, isText _c, isArray _c, getNumber _c, getText _c, getArray _c]; "
         "if (!isNull _c) then { private _s = []; for \"_i\" from -1 to (count _c) do { _s pushBack (_c select _i) }; "
         "diag_log str [configName _c, count _c, inheritsFrom _c, configHierarchy _c, _s]; %s};") % (
        cfg, 'diag_log str ("true" configClasses _c); ' if "c" in flags else "")
    return s


def all_paths(names, maxlen=3):
    paths = [()]
    parent = [-1]
    frontier = [0]
    for _ in range(maxlen):
        nxt = []
        for pi in frontier:
            for nm in names:
                paths.append(paths[pi] + (nm,))
                parent.append(pi)
                nxt.append(len(paths) - 1)
        frontier = nxt
    return paths, parent


def has_delete(loads):
    def f(n):
        return n[0] == "D" or (n[0] == "C" and any(f(x) for x in n[3]))
    return any(f(s) for l in loads for s in l)


class Case:
    def __init__(self, kind, loads, names, texts=None, rng=None, paths=None):
        self.kind, self.loads, self.names = kind, loads, names
        self.texts = texts if texts is not None else [render_load(l, rng) for l in loads]
        self.flags = "" if has_delete(loads) else "c"     # configClasses dereferences delete markers (ops_config.cpp:255)
        self.given = paths is not None
        if paths is None:
            self.paths, self.parent = all_paths(names)
        else:                                             # the chain family names its lookup paths (prefixes first)
            self.paths = [tuple(p_) for p_ in paths]
            at = {p_: k for k, p_ in enumerate(self.paths)}
            self.parent = [at.get(p_[:-1], -1) if p_ else -1 for p_ in self.paths]

    def nres(self):
        return len(self.paths)

    def impl_line(self):
        chunks = ",".join("%d:%s" % (p, V.hx(chunk_sqf(path, self.flags))) for path, p in zip(self.paths, self.parent))
        return ",".join(V.hx(t) for t in self.texts) + "\t" + chunks

    def model_line(self, defects):
        chunks = ",".join("%d:%s:%s" % (p, self.flags, ".".join(V.hx(x) for x in path)) for path, p in zip(self.paths, self.parent))
        return defects + "\t" + ser_loads(self.loads) + "\t" + chunks

    def replay(self):
        r = {"kind": self.kind, "loads": self.loads, "names": self.names, "texts": self.texts}
        if self.given:
            r["paths"] = [list(p_) for p_ in self.paths]
        return r


def parse_result(line, nchunks):
    f = line.split("\t")
    if f[0] != "R" or len(f) != 2 + nchunks:
        return None
    return f[1].split(",") if f[1] else [], f[2:]


def dec(h):
    """decode '<hex>:<codes>' -> (lines, codes) or the status word"""
    if ":" in h and re.match(r"^(-|[0-9a-f]+):", h):
        hx_, codes = h.rsplit(":", 1)
        return V.unhx(hx_).decode("latin-1").split("\n"), codes
    return h, None


# ------------------------------------------------------------------ config values kept across loads ("held" family)
# "inheritsFrom returns the base class, configHierarchy the enclosing classes, count/select enumerate the class's own entries ..." are
# statements about the CLASS a config value denotes, for all histories ("redefinition across several loaded files").  A script may obtain
# a config value, keep it (variable, array element, namespace) and ask it again after further config texts were loaded; the answers must be
# those of the tree as it is then.  The cases above navigate every value afresh after the last load.  This family keeps values:
#   history  = loads 1..f through the parser API; a script obtains and keeps config values and observes them; then for every further
#              load: the text is loaded (route 'parse': configparse__ inside the same script; route 'api': through the parser API between
#              two scripts, the way a second sqfvm_load_config arrives between two sqfvm_call) and every kept value is observed again
#   kept     = every class of the tree (up to a cap) by its own path, classes and entries reached through an inheriting class, and the
#              same classes obtained as `parent select i`, `configHierarchy child select j`, `inheritsFrom derived`,
#              `"true" configClasses parent select j`; configFile itself, value entries, one configNull
#   storage  = private variable | element of a private array | global variable | missionNamespace setVariable | element of a global array
#   observed = the usual observers plus, per kept value: the configHierarchy of every class reached by repeating inheritsFrom (identifies
#              the base, not only its name) and the configHierarchy of `value >> name` for every name in play; and the same for the value
#              navigated afresh along the own path of the class, and `kept == fresh`
# Verdicts: (1) nothing hangs or crashes; (2) where the property text decides (reference semantics: a kept value denotes the class object,
# whatever was loaded since) the observations of the kept value must equal it; (3) METAMORPHIC, implementation only, also where the text does
# not say WHICH base counts (re-opened with another base, a first base, an unresolvable or cycle-closing base): a kept value and the value
# navigated afresh to the same class (own entries all the way: re-opening merges, so it is the same class) must answer every observer alike
# and compare equal; (4) implementation == extracted model (a config value is a container id there; the operators read the host of the
# moment they are applied).
HELD_ROUTES = (("parse", "local"), ("parse", "array"), ("parse", "global"), ("api", "global"), ("api", "namespace"), ("api", "garray"))
HELD_KINDS = ("other_base", "first_base", "same_base", "no_clause", "shadow", "cycle", "unresolved", "base_rebound", "entries",
              "deleted", "grow")
HELD_IDENTS = ("A", "B", "Cc", "Base", "Sub2", "a", "Veh", "Land", "Air", "K1", "M_2", "Plain", "Car", "Q7", "r", "Tank", "Wheeled")
NULL_LINE = "[,true,false,false,false,false,0,\"\",[]]"

OBS_DEF = ("private _obs = { private _c = _this select 0; private _names = _this select 1; "
           "diag_log str [_c, isNull _c, isClass _c, isNumber _c, isText _c, isArray _c, getNumber _c, getText _c, getArray _c]; "
           "if (!isNull _c) then { private _s = []; for \"_i\" from -1 to (count _c) do { _s pushBack (_c select _i) }; "
           "diag_log str [configName _c, count _c, inheritsFrom _c, configHierarchy _c, _s]; "
           "private _ch = []; private _b = inheritsFrom _c; private _k = 0; "
           "while {!(isNull _b) && {_k < 40}} do { _ch pushBack (configHierarchy _b); _b = inheritsFrom _b; _k = _k + 1 }; "
           "diag_log str _ch; private _l = []; "
           "{ private _e = _c >> _x; _l pushBack (if (isNull _e) then {[]} else {configHierarchy _e}) } forEach _names; "
           "diag_log str _l; }; }; ")


def own_path(obj):
    out = []
    while obj.parent is not None:
        out.append(obj.name)
        obj = obj.parent
    return tuple(reversed(out))


def attached(ref, obj):
    """is obj the entry that its own path (own entries all the way) denotes now?"""
    c = ref.root
    for nm in own_path(obj):
        has, o = ref.own(c, nm)
        if not has or o is None:
            return False
        c = o
    return c is obj


def hier_of(obj):
    return "[" + ",".join(("config/bin",) + own_path(obj)) + "]"


def ref_held_lines(ref, c, names):
    if c is None:
        return [NULL_LINE]
    chain, b, k = [], c.base, 0
    while b is not None and k < 40:
        chain.append(hier_of(b))
        b, k = b.base, k + 1
    looks = []
    for n in names:
        e = ref.lookup(c, n)
        looks.append(hier_of(e) if e is not None else "[]")
    return ref_chunk_obj(c, "") + ["[" + ",".join(chain) + "]", "[" + ",".join(looks) + "]"]


def ref_resolve(ref, path):
    c = ref.root
    for nm in path:
        c = ref.lookup(c, nm) if c is not None else None
    return c


def ref_keep(ref, deriv, path):
    """the object a keep expression yields according to the reference semantics (None = configNull)"""
    c = ref_resolve(ref, path)
    if deriv == "P" or c is None:
        return c
    k, j = deriv[0], int(deriv[1:] or 0)
    if k == "S":
        return c.slots[j][1] if 0 <= j < len(c.slots) else None
    if k == "I":
        return c.base
    if k == "H":
        up = []
        while c is not None:
            up.append(c)
            c = c.parent
        up.reverse()
        return up[j] if j < len(up) else None
    if k == "C":
        cl = [o for _, o in c.slots if o is not None and o.kind == "class"]
        return cl[j] if j < len(cl) else None
    raise ValueError(deriv)


def sqf_path(path):
    return "configFile" + "".join(' >> "%s"' % p for p in path)


def keep_expr(deriv, path):
    e = sqf_path(path)
    if deriv == "P":
        return "(%s)" % e
    k, j = deriv[0], deriv[1:]
    if k == "S":
        d = "_t select %s" % j
    elif k == "I":
        d = "inheritsFrom _t"
    elif k == "H":
        d = "private _q = configHierarchy _t; if (%s < count _q) then {_q select %s} else {configNull}" % (j, j)
    else:
        d = "private _q = \"true\" configClasses _t; if (%s < count _q) then {_q select %s} else {configNull}" % (j, j)
    return "(call { private _t = %s; if (isNull _t) then {configNull} else {%s} })" % (e, d)


STORE = {"local": ("", "private _h%d = %s; ", "_h%d"),
         "array": ("private _hs = []; ", "_hs pushBack %s; ", "(_hs select %d)"),
         "global": ("", "c15h%d = %s; ", "c15h%d"),
         "namespace": ("", "missionNamespace setVariable [\"c15n%d\", %s]; ", "(missionNamespace getVariable \"c15n%d\")"),
         "garray": ("c15hs = []; ", "c15hs pushBack %s; ", "(c15hs select %d)")}


def all_objects(ref, cap_depth=4):
    """every attached entry (classes and values) with its own path, declaration order, root first"""
    out = []

    def walk(c, d):
        out.append(c)
        if d < cap_depth:
            for _, o in c.slots:
                if o is not None:
                    walk(o, d + 1)
    walk(ref.root, 0)
    return out


def choose_keeps(rng, ref, names, use_classes_op):
    """which values the script keeps: [deriv, path] per slot (the slot number is the position)"""
    objs = all_objects(ref)
    classes = [o for o in objs if o.kind == "class" and o is not ref.root]
    values = [o for o in objs if o.kind == "value"]
    keeps = [["P", []]]                                              # configFile itself
    for o in (classes if len(classes) <= 9 else rng.sample(classes, 9)):
        keeps.append(["P", list(own_path(o))])
    for o in rng.sample(values, min(2, len(values))):
        keeps.append(["P", list(own_path(o))])
    extra = []
    for o in classes:
        me = own_path(o)
        par = o.parent
        if par is not None:
            i = par.index.get(o.name)
            if i is not None and par.slots[i][1] is o:
                extra.append(["S%d" % i, list(own_path(par))])
            cl = [x for _, x in par.slots if x is not None and x.kind == "class"]
            if use_classes_op and o in cl:
                extra.append(["C%d" % cl.index(o), list(own_path(par))])
        kids = [x for _, x in o.slots if x is not None]
        if kids:
            extra.append(["H%d" % len(me), list(own_path(rng.choice(kids)))])
        if o.base is not None:
            extra.append(["I", list(me)])                             # the value inheritsFrom hands out, kept
            # entries of the base chain reached through this class
            b, seen = o.base, set(o.index)
            k = 0
            while b is not None and k < 50:
                for nm, x in b.slots:
                    if x is not None and nm not in seen:
                        extra.append(["P", list(me) + [nm]])
                    seen.add(nm)
                b, k = b.base, k + 1
    for e in rng.sample(extra, min(7, len(extra))):
        keeps.append(e)
    keeps.append(["P", [rng.choice(names), "zz"]])                    # usually configNull
    return keeps


class HeldCase:
    """a history: loads[:first] - keep - observe - (load - observe)*"""

    def __init__(self, kind, loads, names, held, texts=None, rng=None):
        self.kind, self.loads, self.names, self.held = kind, loads, names, held
        self.texts = texts if texts is not None else [render_load(l, rng) for l in loads]
        self.first, self.route, self.keeps = held["first"], tuple(held["route"]), held["keeps"]
        self.obs_names = held["obs_names"]
        self.given = True
        self.plan()

    def plan(self):
        """walks the reference semantics through the history: per observation the expected lines (None where the text is silent or the
        kept entry was deleted since), the own path for the value navigated afresh (None: the class is not reachable by own entries any
        more) and whether the class's base was re-bound since the value was kept"""
        ref = Ref()
        for l in self.loads[:self.first]:
            ref.load(l)
        self.objs = [ref_keep(ref, d, tuple(p)) for d, p in self.keeps]
        base_then = [o.base if o is not None else None for o in self.objs]
        self.silent_at_keep = sorted(set(ref.silent))
        self.obs = []          # dicts: mark, slot, stage, fresh, expected, rebound
        self.stages = []       # per stage the marks
        mark = 0
        for stage in range(self.first, len(self.loads) + 1):
            if stage > self.first:
                ref.load(self.loads[stage - 1])
            decided = not ref.silent
            clash = any(s_ in ("a name used both as class and as value", "redefinition after delete") for s_ in ref.silent)
            marks = []
            for slot, o in enumerate(self.objs):
                att = o is not None and attached(ref, o)
                fresh = list(own_path(o)) if att and not clash else None
                exp = None
                if decided and (o is None or att):
                    exp = ref_held_lines(ref, o, self.obs_names)
                    if fresh is not None:
                        exp = exp + ['["=",true]'] + exp
                rebound = None
                if o is not None and o.base is not base_then[slot]:
                    was, now = base_then[slot], o.base
                    rebound = ("first base" if was is None else "base removed" if now is None else
                               "same name, other class" if was.name == now.name else "other base")
                self.obs.append({"mark": mark, "slot": slot, "stage": stage, "fresh": fresh, "expected": exp, "rebound": rebound,
                                 "loads_since_kept": stage - self.first})
                marks.append(mark)
                mark += 1
            self.stages.append(marks)
        self.silent = sorted(set(ref.silent))
        self.ref = ref
        # items of the protocol
        way, store = self.route
        init, keep_fmt, access = STORE[store]
        names_sqf = "[" + ",".join(sqf_quote(n) for n in self.obs_names) + "]"
        names_ser = ".".join(V.hx(n) for n in self.obs_names) or "-"
        ser_path = lambda p: ".".join(V.hx(x) for x in p) or "-"

        def obs_sqf(marks):
            out = ""
            for m in marks:
                ob = self.obs[m]
                v = access % ob["slot"]
                out += "diag_log str [\"#\", %d]; [%s, %s] call _obs; " % (m, v, names_sqf)
                if ob["fresh"] is not None:
                    out += "private _f = %s; diag_log str [\"=\", %s == _f]; [_f, %s] call _obs; " % (sqf_path(ob["fresh"]), v, names_sqf)
            return out

        def obs_ser(marks):
            return ["o %d %s %s %d" % (self.obs[m]["slot"], "~" if self.obs[m]["fresh"] is None else ser_path(self.obs[m]["fresh"]),
                                       names_ser, m) for m in marks]

        keep_sqf = init + "".join(keep_fmt % ((k, keep_expr(d, p)) if "%d" in keep_fmt else (keep_expr(d, p),))
                                  for k, (d, p) in enumerate(self.keeps))
        keep_ser = ["k %d %s %s" % (k, d, ser_path(p)) for k, (d, p) in enumerate(self.keeps)]
        self.items = []        # (kind, implementation text, model text)
        sqf, ser = OBS_DEF + keep_sqf + obs_sqf(self.stages[0]), keep_ser + obs_ser(self.stages[0])
        for k in range(self.first, len(self.loads)):
            one = "%d %s" % (len(self.loads[k]), " ".join(ser_node(x) for x in self.loads[k]))
            if way == "parse":
                sqf += "configparse__ %s; " % sqf_quote(self.texts[k]) + obs_sqf(self.stages[k - self.first + 1])
                ser += ["p " + one] + obs_ser(self.stages[k - self.first + 1])
            else:
                self.items.append(("K", sqf, ";".join(ser)))
                self.items.append(("L", self.texts[k], one))
                sqf, ser = OBS_DEF + obs_sqf(self.stages[k - self.first + 1]), obs_ser(self.stages[k - self.first + 1])
        self.items.append(("K", sqf, ";".join(ser)))

    def nres(self):
        return len(self.items)

    def impl_line(self):
        return ",".join(V.hx(t) for t in self.texts[:self.first]) + "\t" + ",".join("%s:%s" % (k, V.hx(t)) for k, t, _ in self.items)

    def model_line(self, defects):
        return defects + "\t" + ser_loads(self.loads[:self.first]) + "\t" + ",".join("%s:%s" % (k, m) for k, _, m in self.items)

    def replay(self):
        return {"kind": self.kind, "loads": self.loads, "names": self.names, "texts": self.texts, "held": self.held,
                "history": [("load %d through the parser API" % k) for k in range(self.first)] +
                           [("script: " + t) if kd == "K" else ("load through the parser API: " + t) for kd, t, _ in self.items]}


def held_blocks(lines):
    """the diag_log lines of a script -> {mark: (lines of the kept value, equality line or None, lines of the fresh value)}"""
    out, cur = {}, None
    for ln in lines:
        m = re.match(r'^\["#",(\d+)\]$', ln)
        if m:
            cur = [[], None, []]
            out[int(m.group(1))] = cur
        elif cur is None:
            out.setdefault(-1, [[], None, []])[0].append(ln)
        elif ln.startswith('["=",') and cur[1] is None:
            cur[1] = ln
        else:
            cur[2 if cur[1] is not None else 0].append(ln)
    return out


def make_held(rng, kind, loads, names, route, first=None, obs_names=None):
    """a history over the given loads (at least two): what is kept is chosen from the tree as it stands after `first` loads"""
    first = first if first is not None else rng.randint(1, len(loads) - 1)
    ref = Ref()
    for l in loads[:first]:
        ref.load(l)
    keeps = choose_keeps(rng, ref, names, not has_delete(loads))
    if obs_names is None:
        obs_names = list(names)[:9]
    held = {"first": first, "route": list(route), "keeps": keeps, "obs_names": list(obs_names)}
    return HeldCase(kind, loads, names, held, None, rng)


def gen_held_scenario(rng, rk, depth):
    """one re-binding kind, spelled out: classes B1, B2, X (: B1 or no base), Y : X inside `depth` holder classes; the second load does
    what `rk` says to X (or to its base), an optional third load does one more thing"""
    G, H, B1, B2, X, Y, OUTER = rng.sample(HELD_IDENTS, 7)
    C = lambda name, base, body: ["C", name, base, body, {"decl": False}]
    num = lambda: ["N", rng.randint(1, 999), "d"]
    scope = [G, H][:depth]

    def wrap(nodes):
        for h in reversed(scope):
            nodes = [C(h, None, nodes)]
        return nodes

    def pad(m):
        return [C("N%d_%d" % (rng.randint(0, 99), k), None, [["F", "v", num()]] if rng.random() < 0.5 else []) for k in range(m)]

    b1 = C(B1, None, [["F", "x", num()], ["F", "txt", ["S", rng.choice(["land", "one", "b 1"]), "dq"]], ["F", "list", gen_array(rng)]])
    b2 = C(B2, None, [["F", "x", num()], ["F", "y", num()], ["F", "list", gen_array(rng)], C("Inner", None, [["F", "w", num()]])])
    has_base = rk in ("other_base", "same_base", "shadow", "unresolved", "base_rebound", "deleted") or \
        (rk in ("no_clause", "cycle", "entries", "grow") and rng.random() < 0.6)
    xbody = [st for st in ([["F", "seats", num()]], [C("Sub", None, [["F", "w", num()]])], [["A", "list", gen_array(rng)]])
             if rng.random() < 0.6 for st in st]
    x = C(X, B1 if has_base else None, xbody)
    y = C(Y, X, [["F", "y", num()]] if rng.random() < 0.5 else [])
    if rk == "shadow":      # B1 is a class of an outer scope first; the second load gives the enclosing class a B1 of its own
        load1 = [b1] + wrap([b2, x, y]) if depth else [b1, b2, x, y]
    else:
        load1 = wrap([b1, b2, x, y])
    if rng.random() < 0.3:
        load1 = [C(OUTER, None, [["F", "x", num()]])] + load1

    def step(kind):
        if kind == "other_base":
            return wrap([C(X, B2, [["F", "late", num()]] if rng.random() < 0.4 else [])])
        if kind == "first_base":
            return wrap([C(X, rng.choice([B1, B2]), [])])
        if kind == "same_base":
            return wrap([C(X, B1, [["F", "late", num()]])])
        if kind == "no_clause":
            return wrap([C(X, None, [["F", "late", num()]])])
        if kind == "shadow":
            return wrap([C(B1, None, [["F", "x", num()], ["F", "q", num()]]), C(X, B1, [])])
        if kind == "cycle":
            return wrap([C(X, Y, [])])
        if kind == "unresolved":
            return wrap([C(X, "Nope9", [])])
        if kind == "base_rebound":
            return wrap([C(B1, B2, [])])
        if kind == "entries":
            return wrap([C(X, None, [["F", "y", num()], ["A", "list", gen_array(rng)], ["D", "txt"]]), C(B1, None, [["F", "q", num()]])])
        if kind == "deleted":
            return wrap([["D", X]])
        return pad(rng.choice([1, 3, 8, 20, 40])) if rng.random() < 0.6 else wrap(pad(rng.choice([1, 3, 8, 20])))

    if rk == "shadow" and depth == 0:
        rk = "other_base"
    loads = [load1, step(rk)]
    if rng.random() < 0.5:
        loads[1] = loads[1] + pad(rng.choice([1, 2, 5, 12, 30]))     # the tree grows while the class is re-opened
    if rng.random() < 0.55:
        nxt = rng.choice(["other_base", "same_base", "no_clause", "base_rebound", "entries", "grow", "first_base", "unresolved"])
        loads.append(step(nxt))
    names = [G, H][:depth] + [B1, B2, X, Y, "Sub", "Inner", "x", "y", "list", "txt", "seats", "late", "q", "w", "zz"]
    return loads, names, rk


BAD = ("TIMEOUT", "HANG", "CRASH", "EXIT", "EXCEPTION", "OOM", "LOST", "HARNESS")


def explain(case, impl_parsed, drv):
    """which defect switches, turned on in the model, reproduce exactly what the implementation did on this case?
    (purely informative: names the proposed fix that is missing from the tree under test)"""
    settings = ["%d%d%d%d" % (a, b, c, d) for a in (0, 1) for b in (0, 1) for c in (0, 1) for d in (0, 1)]
    rc, outs, err = V.run_lines([drv], [case.model_line(st) for st in settings], timeout=600)
    n = case.nres()
    hits = [st for st, o in zip(settings, outs) if parse_result(o, n) == impl_parsed]
    if not hits:
        return ""
    best = min(hits, key=lambda st: st.count("1"))
    if best == AS_IS:
        return ""
    on = [SWITCHES[k] for k in range(4) if best[k] == "1"]
    return " [the implementation behaves exactly like the model with these defect switches on: " + "; ".join(on) + "]"


def judge_held(c, il, ml, rep, found, stats, distinct):
    """verdicts for one history (see the section "config values kept across loads")"""
    hs = stats["held_family"]
    inc = lambda d, k, n=1: d.__setitem__(k, d.get(k, 0) + n)
    hs["histories"] += 1
    inc(hs["by_route"], "%s/%s" % c.route)
    inc(hs["by_scenario"], c.kind.split(":", 1)[1] if ":" in c.kind else c.kind)
    hs["kept_values"] += len(c.keeps)
    for d, p in c.keeps:
        inc(hs["kept_by_provenance"], {"P": ">> path", "S": "select", "I": "inheritsFrom", "H": "configHierarchy select",
                                       "C": "configClasses select"}[d[0]])
    n = c.nres()
    pi, pm = parse_result(il, n), parse_result(ml, n)
    if pm is None:
        found.append(("machinery", "MODEL driver produced no result (machinery bug)",
                      dict(rep, model=ml[:2000], broken="ocaml/config_driver.ml"), False, None, None))
        return
    if pi is None:
        found.append(("lost", "implementation harness lost the case: " + il[:200], dict(rep, impl=il[:2000]), True, None, None))
        return
    iloads, ich = pi
    mloads, mch = pm
    stats["loads_with_warnings"] += sum(1 for x in iloads if x.startswith("ok:") and x != "ok:-")
    # 1. safety
    for k, st in enumerate(iloads):
        if st.startswith(BAD):
            found.append(("load:" + st.split(":")[0], "loading config text %d does not return normally: %s" % (k, st),
                          dict(rep, impl_loads=iloads, model_loads=mloads), True, c, pi))
            return
    for (kd, text, _), ir in zip(c.items, ich):
        if ir.startswith(BAD) or ir.startswith(("NORUN", "PARSEFAIL")):
            what = ("loading a further config text while config values are kept" if kd == "L" else
                    "a script that keeps config values across loads and asks them again")
            found.append(("held:" + ir.split(":")[0], "%s does not return normally: %s" % (what, ir[:60]),
                          dict(rep, item=text[:4000], impl=ir[:300], model_loads=mloads), True, c, pi))
            return
    # decode the scripts' output into observation blocks
    iblocks, mblocks = {}, {}
    for (kd, _, _), ir, mr in zip(c.items, ich, mch):
        if kd != "K":
            continue
        di, dm = dec(ir), dec(mr)
        if isinstance(di[0], list):
            iblocks.update(held_blocks(di[0]))
        if isinstance(dm[0], list):
            mblocks.update(held_blocks(dm[0]))
    flat = lambda b: None if b is None else b[0] + ([b[1]] if b[1] is not None else []) + b[2]
    fired = False
    nontrivial = 0
    for ob in c.obs:
        stats["lookups"] += 1
        hs["observations_of_kept_values"] += 1
        inc(hs["observations_after_1_2_3_loads"], str(ob["loads_since_kept"]))
        if ob["rebound"]:
            inc(hs["observations_where_the_base_was_rebound_since_kept"], ob["rebound"])
        o = c.objs[ob["slot"]]
        if o is not None and ob["fresh"] is None and ob["expected"] is None and not attached(c.ref, o):
            hs["kept_entries_deleted_since"] += 1
        ib, mb = iblocks.get(ob["mark"]), mblocks.get(ob["mark"])
        if ib is not None and ib[0] and not ib[0][0].startswith("[,true"):
            stats["lookups_found"] += 1
            nontrivial += 1
        if fired:
            continue
        d, p = c.keeps[ob["slot"]]
        how = {"P": "%s", "S": "(%s) select " + d[1:], "I": "inheritsFrom (%s)", "H": "configHierarchy (%s) select " + d[1:],
               "C": '"true" configClasses (%s) select ' + d[1:]}[d[0]] % sqf_path(p)
        where = "the value of `%s` kept (%s) after load %d and asked after load %d" % (how, c.route[1], c.first, ob["stage"])
        # 2. the property text decides
        if ob["expected"] is not None:
            hs["decided_by_the_reference"] += 1
            if mb is not None and flat(mb) != ob["expected"]:
                found.append(("machinery", "MODEL disagrees with the reference semantics written from the property text (machinery bug)",
                              dict(rep, observation=ob, expected=ob["expected"], model=flat(mb), broken="ConfigDefs vs Ref in checks/C15.py"),
                              False, None, None))
                fired = True
                continue
            if flat(ib) != ob["expected"]:
                found.append(("held:oracle", "%s: the observations differ from what the property demands of the class it denotes" % where,
                              dict(rep, observation=ob, expected=ob["expected"], impl=flat(ib), model=flat(mb)), True, c, pi))
                fired = True
                continue
        # 3. kept value against the value navigated afresh to the same class (implementation only)
        if ob["fresh"] is not None:
            hs["kept_vs_fresh_pairs"] += 1
            if ob["expected"] is None:
                hs["kept_vs_fresh_pairs_where_the_text_is_silent"] += 1
            if ib is None or ib[1] != '["=",true]' or ib[0] != ib[2]:
                diff = "" if ib is None else next(("; first difference: kept %s / fresh %s" % (a, b) for a, b in zip(ib[0], ib[2]) if a != b), "")
                found.append(("held:fresh", "%s answers differently from `%s` navigated at that moment - the same class, own entries all the way%s"
                              % (where, sqf_path(ob["fresh"]), diff[:700]),
                              dict(rep, observation=ob, kept=None if ib is None else ib[0], equal=None if ib is None else ib[1],
                                   fresh=None if ib is None else ib[2], model=flat(mb), silent=c.silent,
                                   oracle="metamorphic, implementation only"), True, c, pi))
                fired = True
                continue
    distinct.add((tuple(c.texts) + (json.dumps(c.held, sort_keys=True),), nontrivial > 1))
    if fired:
        return
    # 4. correspondence
    if iloads != mloads:
        found.append(("corr:loads", "implementation and model disagree on the loads (status / warning codes)",
                      dict(rep, impl_loads=iloads, model_loads=mloads, silent=c.silent,
                           broken="correspondence ConfigDefs.load vs config_parser.cpp/confighost.h"), False, c, pi))
        return
    for (kd, text, _), ir, mr in zip(c.items, ich, mch):
        if ir != mr:
            found.append(("corr:held", "implementation and model disagree on a history with kept config values (%s)"
                          % ("a load between two scripts" if kd == "L" else "a script"),
                          dict(rep, item=text[:4000], impl=dec(ir), model=dec(mr), silent=c.silent,
                               broken="correspondence ConfigDefs.op_* / load vs ops_config.cpp/confighost.h (a config value = a container id)"),
                          False, c, pi))
            return


def make_case(r, kind, rng):
    if r.get("held"):
        return HeldCase(kind, r["loads"], r["names"], r["held"], r.get("texts"), rng)
    return Case(kind, r["loads"], r["names"], r.get("texts"), rng, r.get("paths"))


def main(replay=None):
    run = V.Run(PID, "proof")
    rng = run.rng
    thorough = run.tier == "thorough"
    problems = run.prove()
    himpl = V.build_harness("h_config", "asan" if thorough else "plain")
    drv = V.ocaml_driver("config")

    cases = []
    if replay:
        r = json.load(open(replay))["replay"]
        cases.append(make_case(r, r.get("kind", "replay"), rng))
    else:
        cdir = os.path.join(V.VERIF, "corpus", PID)
        if os.path.isdir(cdir):
            for fn in sorted(os.listdir(cdir)):
                r = json.load(open(os.path.join(cdir, fn)))
                cases.append(make_case(r, "corpus:" + fn, rng))
        nreg, nwild = (3000, 1500) if thorough else (170, 80)
        for i in range(nreg):
            loads, names = gen_case(rng, "regular")
            cases.append(Case("regular", loads, names, None, rng))
        for i in range(nwild):
            loads, names = gen_case(rng, "wild")
            cases.append(Case("wild", loads, names, None, rng))
        for i in range(300 if thorough else 40):
            loads, names = gen_shadow(rng)
            cases.append(Case("shadow", loads, names, None, rng))
        bands = ["short"] * 12 + ["medium"] * 18 + ["long"] * 16 + ["huge"] * 4
        for band in bands * (8 if thorough else 1):
            loads, names, paths = gen_chain(rng, chain_length(rng, band))
            cases.append(Case("chain", loads, names, None, rng, paths))
        for lo, hi in ((34, 48), (130, 300), (1026, 2100)):      # in every run: only the root and the far end define anything
            loads, names, paths = gen_chain(rng, rng.randint(lo, hi), q=0.0)
            cases.append(Case("chain", loads, names, None, rng, paths))
        # ---- histories: values kept across loads.  Every re-binding kind at every nesting depth, the routes taken in turn (the starting
        # route moves with the seed), then histories over the grammar / shadow / short-chain generators
        rot = rng.randrange(len(HELD_ROUTES))
        for rep in range(6 if thorough else 1):
            for rk in HELD_KINDS:
                for depth in (0, 1, 2):
                    loads, names, rk2 = gen_held_scenario(rng, rk, depth)
                    cases.append(make_held(rng, "held:" + rk2, loads, names, HELD_ROUTES[rot % len(HELD_ROUTES)], obs_names=names))
                    rot += 1
        for i in range(400 if thorough else 36):
            profile = "wild" if i % 3 == 2 else "regular"
            for _ in range(50):
                loads, names = gen_case(rng, profile)
                if len(loads) >= 2:
                    break
            if len(loads) >= 2:
                cases.append(make_held(rng, "held:" + profile, loads, names, HELD_ROUTES[rot % len(HELD_ROUTES)]))
                rot += 1
        for i in range(60 if thorough else 8):
            loads, names = gen_shadow(rng)
            cases.append(make_held(rng, "held:shadow2", loads, names, HELD_ROUTES[rot % len(HELD_ROUTES)]))
            rot += 1
        for i in range(40 if thorough else 6):
            for _ in range(50):
                loads, names, paths = gen_chain(rng, rng.randint(2, 14))
                if len(loads) >= 2:
                    break
            if len(loads) >= 2:
                onames = sorted({p_[-1] for p_ in paths if p_})[:14]
                cases.append(make_held(rng, "held:chain", loads, names, HELD_ROUTES[rot % len(HELD_ROUTES)], obs_names=onames))
                rot += 1

    ilines = [c.impl_line() for c in cases]
    rc, impl, err = V.run_lines_parallel([himpl], ilines, timeout=3000)
    rc2, model, err2 = V.run_lines_parallel([drv], [c.model_line(AS_IS) for c in cases], timeout=3000)

    kinds, samples = {}, []
    distinct = set()
    found = []      # (category, what, replay, found_input, case, parsed impl)
    stats = {"lookups": 0, "lookups_found": 0, "oracle_decided_cases": 0, "oracle_silent_cases": 0, "silent_reasons": {},
             "model_predicts_ub_or_hang": 0, "loads_with_warnings": 0,
             "chain_family": {"longest_chain": 0, "cases_by_chain_length": {}, "lookups_by_distance_to_nearest_definition": {},
                       "lookups_of_entries_no_class_of_the_chain_has": 0, "appends_by_distance_to_inherited_array": {},
                       "lookups_through_two_chains": 0},
             "held_family": {"histories": 0, "by_route": {}, "by_scenario": {}, "kept_values": 0, "kept_by_provenance": {},
                             "observations_of_kept_values": 0, "observations_after_1_2_3_loads": {},
                             "observations_where_the_base_was_rebound_since_kept": {}, "decided_by_the_reference": 0,
                             "kept_vs_fresh_pairs": 0, "kept_vs_fresh_pairs_where_the_text_is_silent": 0,
                             "kept_entries_deleted_since": 0}}
    for c, il, ml in zip(cases, impl, model):
        kinds[c.kind.split(":")[0]] = kinds.get(c.kind.split(":")[0], 0) + 1
        rep = c.replay()
        if isinstance(c, HeldCase):
            judge_held(c, il, ml, rep, found, stats, distinct)
            continue
        n = len(c.paths)
        pi, pm = parse_result(il, n), parse_result(ml, n)
        if pm is None:
            found.append(("machinery", "MODEL driver produced no result (machinery bug)",
                          dict(rep, model=ml[:2000], broken="ocaml/config_driver.ml"), False, None, None))
            continue
        if pi is None:
            found.append(("lost", "implementation harness lost the case: " + il[:200], dict(rep, impl=il[:2000]), True, None, None))
            continue
        ref = Ref()
        for l in c.loads:
            ref.load(l)
        silent = sorted(set(ref.silent))
        if silent:
            stats["oracle_silent_cases"] += 1
            for s_ in silent:
                stats["silent_reasons"][s_] = stats["silent_reasons"].get(s_, 0) + 1
        else:
            stats["oracle_decided_cases"] += 1
        if c.given:
            ch = stats["chain_family"]
            deepest = max([chain_depth(ref, p_) or 0 for p_ in c.paths if 0 < len(p_) <= 3])
            ch["longest_chain"] = max(ch["longest_chain"], deepest + 1)
            ch["cases_by_chain_length"][bucket(deepest + 1)] = ch["cases_by_chain_length"].get(bucket(deepest + 1), 0) + 1
            for p_ in c.paths:
                if len(p_) < 2 or chain_depth(ref, p_[:-1]) is None:
                    continue
                d = ref_distance(ref, p_)
                if d is None:
                    ch["lookups_of_entries_no_class_of_the_chain_has"] += 1
                else:
                    ch["lookups_by_distance_to_nearest_definition"][bucket(d)] = ch["lookups_by_distance_to_nearest_definition"].get(bucket(d), 0) + 1
                    if len(p_) >= 3 and d > 0 and (ref_distance(ref, p_[:-1]) or 0) > 0:
                        ch["lookups_through_two_chains"] += 1
            for d in ref.append_distances:
                ch["appends_by_distance_to_inherited_array"][bucket(d)] = ch["appends_by_distance_to_inherited_array"].get(bucket(d), 0) + 1
        iloads, ich = pi
        mloads, mch = pm
        stats["loads_with_warnings"] += sum(1 for x in iloads if x.startswith("ok:") and x != "ok:-")
        fired = False
        # 1. safety: every load returns, every lookup terminates, nothing crashes (all cases)
        for k, st in enumerate(iloads):
            if st.startswith(BAD):
                found.append(("load:" + st.split(":")[0], "loading config text %d does not return normally: %s" % (k, st),
                              dict(rep, impl_loads=iloads, model_loads=mloads), True, c, pi))
                fired = True
                break
        if fired:
            continue
        for path, ir in zip(c.paths, ich):
            if ir.startswith(BAD):
                found.append(("lookup:" + ir.split(":")[0],
                              "lookup %s: %s (every lookup must terminate)" % (" >> ".join(("configFile",) + path), ir.split(":")[0]),
                              dict(rep, path=list(path), impl=ir, model_loads=mloads), True, c, pi))
                fired = True
                break
        if fired:
            continue
        # 2. functional oracle where the property text decides
        nontrivial = 0
        for path, ir, mr in zip(c.paths, ich, mch):
            stats["lookups"] += 1
            di, dm = dec(ir), dec(mr)
            if isinstance(di[0], list) and not di[0][0].startswith("[,true"):
                stats["lookups_found"] += 1
                nontrivial += 1
            if not silent and not fired:
                exp = ref_chunk(ref, path, c.flags)
                if isinstance(dm[0], list) and dm[0] != exp:
                    found.append(("machinery", "MODEL disagrees with the reference semantics written from the property text (machinery bug)",
                                  dict(rep, path=list(path), expected=exp, model=dm[0], broken="ConfigDefs vs Ref in checks/C15.py"),
                                  False, None, None))
                    fired = True
                elif di[0] != exp:
                    k = 0 if not isinstance(di[0], list) or di[0][0] != exp[0] else 1
                    found.append(("oracle:line%d" % k,
                                  "observations on %s differ from what the property demands" % " >> ".join(("configFile",) + path),
                                  dict(rep, path=list(path), expected=exp, impl=di[0], model=dm[0]), True, c, pi))
                    fired = True
        distinct.add((tuple(c.texts), nontrivial > 1))
        if len(samples) < 4 and c.kind in ("regular", "wild") and nontrivial > 3:
            j = max(range(n), key=lambda q: len(ich[q]))
            samples.append({"kind": c.kind, "texts": c.texts, "silent": silent, "path": list(c.paths[j]),
                            "impl": dec(ich[j])[0], "model": dec(mch[j])[0], "loads": iloads})
        if fired:
            continue
        if any(x.startswith("UB") or x == "HANG" for x in mloads) or any(x.startswith(("UB", "TIMEOUT")) for x in mch):
            stats["model_predicts_ub_or_hang"] += 1
        # 3. correspondence: implementation vs mechanism model (values and diagnostics)
        if iloads != mloads:
            found.append(("corr:loads", "implementation and model disagree on the loads (status / warning codes)",
                          dict(rep, impl_loads=iloads, model_loads=mloads, silent=silent,
                               broken="correspondence ConfigDefs.load vs config_parser.cpp/confighost.h"), False, c, pi))
            continue
        for path, ir, mr in zip(c.paths, ich, mch):
            if ir != mr:
                found.append(("corr:ops", "implementation and model disagree on %s" % " >> ".join(("configFile",) + path),
                              dict(rep, path=list(path), impl=dec(ir), model=dec(mr), silent=silent,
                                   broken="correspondence ConfigDefs.op_* vs ops_config.cpp/confighost.h"), False, c, pi))
                break
    # report one of each kind first (the evidence prints at most 10), with the defect switches that explain it
    order, seen_cat = [], {}
    for f in found:
        seen_cat.setdefault(f[0], []).append(f)
    while any(seen_cat.values()):
        for k in list(seen_cat):
            if seen_cat[k]:
                order.append(seen_cat[k].pop(0))
    for idx, (cat, what, rep, fi, c, pi) in enumerate(order):
        hint = explain(c, pi, drv) if (c is not None and idx < 12) else ""
        run.violation(what + hint, rep, found_input=fi)
    for p in problems:
        run.violation("proof obligation not discharged: " + p, {"broken": p, "theorems": run.cov["theorems"]}, found_input=False)
    run.cov["evaluations"] = stats["lookups"]
    run.cov["distinct_nontrivial"] = len([d for d in distinct if d[1]])
    run.cov["cases"] = len(cases)
    run.cov["violating_cases"] = len(found)
    run.cov["rule"] = ("config ASTs from the grammar (nested classes to depth 3, single inheritance, re-opening across 1-3 loads, delete, +=, "
                       "numbers in several spellings, strings in three quoting styles, nested arrays), rendered to text for the implementation and "
                       "handed as AST to the extracted model; per config EVERY lookup path of length <= 3 over the names in play plus one absent name, "
                       "each observed through >>, isNull/isClass/isNumber/isText/isArray, getNumber/getText/getArray, configName, count, select at every "
                       "index from -1 to count, inheritsFrom, configHierarchy, configClasses (when no delete occurs); an evaluation = one path with all its "
                       "observers; a case is non-trivial when more than one path resolves to an entry; distinct by config texts. Verdict per case: "
                       "(1) no load/lookup may hang or crash, (2) where the property text decides (reference semantics in this file) the observations "
                       "must equal it, (3) implementation == mechanism model as_is, values and diagnostic codes. "
                       "Family 'chain' (deep inheritance; the property puts no bound on the length of the chain): a trunk of n classes each derived "
                       "from the one before, n from 2 to about 2000 and dense around 16/32/64/100/128/256/512/1000/1024/2048, class names unrelated to "
                       "the position, side branches, the chain at top level / inside holder classes / descending into them, spread over 1-3 loads; "
                       "the root defines numbers, texts, arrays and a class Sub, sparse random levels override, delete, += or add entries (p, q exist "
                       "only from some level on), the far end appends/overrides, a later load re-opens classes far up the chain, an outer chain derives "
                       "from the holder class; lookups Class >> entry (and >> Sub >> w, Outer >> Class >> entry) from EVERY class of a chain of <= 40 "
                       "classes, else from the classes at distance 1,2,3,7,8,9,15,16,17,31,32,33,...,2047,2048,2049 from the root and from up to three "
                       "defining classes plus random ones, for every entry name in play and one absent name; same observers and the same three verdicts "
                       "(expected values from the reference semantics in this file); input_distribution.chain_family counts the lookups by the number of "
                       "base-class steps to the nearest definition and the += by the distance to the inherited array. "
                       "Family 'held' (histories with config values KEPT across loads; the property speaks of the class a value denotes, for all "
                       "histories of loads): loads 1..f, then a script obtains config values and keeps them (private variable / element of a private "
                       "array / global variable / missionNamespace setVariable / element of a global array), observes them, and after EVERY further "
                       "load (configparse__ inside the same script, or the parser API between two scripts the way a second sqfvm_load_config arrives "
                       "between two sqfvm_call) observes them again, next to the value navigated afresh along the class's own path and `kept == fresh`. "
                       "Kept: configFile, every class of the tree (<= 9) by its own path, value entries, entries reached through an inheriting class, "
                       "the same classes as `parent select i`, `configHierarchy child select j`, `inheritsFrom derived`, `\"true\" configClasses parent "
                       "select j`, one configNull. Observers per value: the ones above plus the configHierarchy of every class reached by repeating "
                       "inheritsFrom (identifies the base class, not only its name) and the configHierarchy of `value >> name` for every name in play. "
                       "Histories: every re-binding kind (re-opened with another base, a first base, the same base, no base clause, the same base NAME "
                       "that a later load shadowed, a cycle-closing base (refused), an unresolvable base (base removed), the BASE re-bound, entries "
                       "added / deleted / appended, the kept class deleted, the tree only grows by 1-40 classes) x nesting depth 0/1/2, with an optional "
                       "third load, plus histories over the grammar (regular and wild), shadow and short-chain generators with >= 2 loads; the routes "
                       "are taken in turn. Verdicts: no hang/crash; where the property text decides (reference semantics: a kept value denotes the "
                       "class object whatever was loaded since; abstains when the text is silent or the kept entry was deleted) kept-value observations "
                       "== reference; METAMORPHIC, implementation only, also where the text is silent on which base counts: kept value and fresh value "
                       "of the same class (own entries all the way - re-opening merges) answer every observer alike and compare equal; implementation "
                       "== extracted model (a config value is a container id, every operator reads the host of the moment it is applied; the model "
                       "covers the behaviour - only the generator did not reach it before). An evaluation in this family = one observation of one "
                       "kept value; input_distribution.held_family counts routes, scenarios, provenances, loads since kept, re-bindings since kept")
    run.cov["input_distribution"] = dict(kinds, **{k: v for k, v in stats.items()})
    run.cov["samples"] = samples
    run.cov["trusted_base"] = ["Coq 8.16.1 kernel (vm_compute only in the witness/example lemmas)",
                               "ExtrOcamlBasic extraction + ocaml/config_driver.ml (also prints values the way SQF str does)",
                               "harness/h_config.cpp + sqfrt.hpp + fork/watchdog plumbing",
                               "AST generator, renderer and reference semantics in checks/C15.py",
                               "held family: the SQF text of the keeping/observing scripts and its instruction form for the model driver are generated "
                               "side by side in checks/C15.py (HeldCase.plan); the SQF interpreter (variables, arrays, call, forEach, while, str) is trusted "
                               "to carry config values unchanged - a defect there shows as a kept-vs-fresh difference",
                               "the config tokenizer and bison parser (tokenizer.hpp, parser.y) are NOT modelled: they are covered only by rendering "
                               "the generated AST to text and comparing the loaded host differentially (block comments are not generated: the "
                               "tokenizer leaves their closing */ in the stream)",
                               "number literals: only integers |n| <= 123456 (exact in binary32, printed without exponent); stod/stol and %g are outside the model",
                               "unordered_map is modelled as an association list (iteration order is never observed by the modelled code)",
                               "model Config/ConfigDefs.v is hand-written; tied to confighost.h, config_parser.cpp, ops_config.cpp only by this differential run"]
    return run.finish()
