"""C06 - str / literals round-trip: printed values and code compile back to equal values.
Three parts: values (booleans, strings, numbers, nested arrays: checks/C06_values.py, coq/Num), histories (str of an array
that was printed before and changed in place since: checks/C06_hist.py, same harness and model) and code (str of code and
the pretty printer: checks/C06_code.py, coq/Syntax)."""
import json
import vcommon as V
import C06_values, C06_code, C06_hist

PID = "C06"


def main(replay=None):
    run = V.Run(PID, "proof")
    problems = run.prove(["Properties_C06", "Properties_C06_code"])
    rp = None
    if replay:
        rp = json.load(open(replay))["replay"]
    counts = {}
    if rp is None or rp.get("part") == "values":
        counts["values"] = C06_values.run_part(run, rp)
    if rp is None or rp.get("part") == "history":
        counts["history"] = C06_hist.run_part(run, rp)
    if rp is None or rp.get("part") == "code":
        c = C06_code.run_part(run, rp) or {}
        counts["code"] = c
        run.cov["evaluations"] = run.cov.get("evaluations", 0) + c.get("evaluations", 0)
        run.cov["distinct_nontrivial"] = run.cov.get("distinct_nontrivial", 0) + c.get("distinct_nontrivial", 0)
        run.cov["rule"] = (run.cov.get("rule", "") + " | CODE: code values from the C01 tree generator (all precedence levels, unary, arrays, "
                           "nested code, assignments): assembly of (compile str code) vs assembly of code through the real str/compile, and the "
                           "CLI pretty printer's output re-compiled; distinct by source text")
    for p in problems:
        run.violation("proof obligation not discharged: " + p, {"broken": p, "theorems": run.cov["theorems"]}, found_input=False)
    run.cov.setdefault("parts", {}).update({k: v for k, v in counts.items() if k not in run.cov.get("parts", {})})
    return run.finish()
