(* FEASIBILITY PROTOTYPE, not part of the framework: written while drafting DESIGN.md to fix the
   shape of the C02/C03/C05 simulation argument on a miniature of the real machine:
   frames carrying the operand-stack height at push time (context::push_frame /
   value_stack_pos), pop refusing to go below the current frame's base, ENDSTATEMENT
   clearing the region, frame completion re-pushing exactly one value, dynamic scoping
   with assignment to the nearest scope that holds the name, unary `call`.
   Reference = fuelled big-step semantics over the source AST (scope chain).
   `simulation : forall f, Pe f /\ Pb f` says: whenever the reference evaluates an
   expression / block, the machine started on the compiled code (as a segment
   pre ++ code ++ post of the current frame, resp. as the tail of a frame) reaches the
   corresponding state, the operands below the frame's base are untouched (V), the parent
   frames differ only in their variable maps, which are the image of the reference scope
   chain, and a block contributes exactly one value.
   coqc 8.16.1: seconds; Print Assumptions: Closed under the global context. *)
From Coq Require Import List Arith Lia Bool.
Import ListNotations.

(* ---------- source language and reference (big-step, fuelled) semantics ---------- *)
Inductive expr :=
| ENum (n:nat) | EVar (x:nat) | EAdd (a b:expr) | ECode (b:block) | ECall (e:expr)
with stmt := SExpr (e:expr) | SAssign (x:nat) (e:expr)
with block := BNil | BCons (s:stmt) (b:block).

Inductive rvalue := RNil | RNum (n:nat) | RCode (b:block).
Definition scope := list (nat * rvalue).

Fixpoint has (x:nat) (s:list (nat*rvalue)) : bool :=
  match s with [] => false | (y,_)::s' => if x =? y then true else has x s' end.
Fixpoint get (x:nat) (s:list (nat*rvalue)) : rvalue :=
  match s with [] => RNil | (y,v)::s' => if x =? y then v else get x s' end.
Fixpoint put (x:nat) (v:rvalue) (s:list (nat*rvalue)) : list (nat*rvalue) :=
  match s with [] => [(x,v)] | (y,w)::s' => if x =? y then (y,v)::s' else (y,w)::put x v s' end.

(* dynamic scoping: innermost scope first *)
Fixpoint lookup (x:nat) (S:list scope) : rvalue :=
  match S with [] => RNil | s::S' => if has x s then get x s else lookup x S' end.
Fixpoint assign_outer (x:nat) (v:rvalue) (S:list scope) : option (list scope) :=
  match S with [] => None | s::S' => if has x s then Some (put x v s :: S')
                                   else match assign_outer x v S' with Some S'' => Some (s::S'') | None => None end end.
Definition assign (x:nat) (v:rvalue) (S:list scope) : list scope :=
  match assign_outer x v S with Some S' => S'
  | None => match S with [] => [] | s::S' => put x v s :: S' end end.

Fixpoint eval_e (f:nat) (S:list scope) (e:expr) {struct f} : option (rvalue * list scope) :=
  match f with 0 => None | S f =>
  match e with
  | ENum n => Some (RNum n, S)
  | EVar x => Some (lookup x S, S)
  | EAdd a b => match eval_e f S a with
                | Some (RNum n, S1) => match eval_e f S1 b with
                                       | Some (RNum m, S2) => Some (RNum (n+m), S2) | _ => None end
                | _ => None end
  | ECode b => Some (RCode b, S)
  | ECall e => match eval_e f S e with
               | Some (RCode b, S1) => match eval_b f ([]::S1) RNil b with
                                       | Some (v, _::S2) => Some (v, S2) | _ => None end
               | _ => None end
  end end
(* last: value of the last statement so far (nil if it was an assignment / none) *)
with eval_b (f:nat) (S:list scope) (last:rvalue) (b:block) {struct f} : option (rvalue * list scope) :=
  match f with 0 => None | S f =>
  match b with
  | BNil => Some (last, S)
  | BCons (SExpr e) b' => match eval_e f S e with Some (v, S1) => eval_b f S1 v b' | None => None end
  | BCons (SAssign x e) b' => match eval_e f S e with Some (v, S1) => eval_b f (assign x v S1) RNil b' | None => None end
  end end.

(* ---------- the machine: frames with operand-stack bases, as in context.h ---------- *)
Inductive value := VNil | VNum (n:nat) | VCode (c:list instr)
with instr := IPush (v:value) | IGet (x:nat) | ISet (x:nat) | IAdd | ICall | IEnd.

Fixpoint comp_e (e:expr) : list instr :=
  match e with
  | ENum n => [IPush (VNum n)]
  | EVar x => [IGet x]
  | EAdd a b => comp_e a ++ comp_e b ++ [IAdd]
  | ECode b => [IPush (VCode (comp_b b))]
  | ECall e => comp_e e ++ [ICall]
  end
with comp_s (s:stmt) : list instr :=
  match s with SExpr e => comp_e e | SAssign x e => comp_e e ++ [ISet x] end
with comp_b (b:block) : list instr :=
  match b with BNil => [] | BCons s BNil => comp_s s | BCons s b' => comp_s s ++ IEnd :: comp_b b' end.

Definition cv (v:rvalue) : value := match v with RNil => VNil | RNum n => VNum n | RCode b => VCode (comp_b b) end.

Record frame := { code: list instr; pos: nat; vars: list (nat*value); base: nat }.
Record ctx := { frames: list frame; vals: list value }.  (* head of vals = top of stack *)

Fixpoint vhas (x:nat) (s:list (nat*value)) : bool :=
  match s with [] => false | (y,_)::s' => if x =? y then true else vhas x s' end.
Fixpoint vget (x:nat) (s:list (nat*value)) : value :=
  match s with [] => VNil | (y,v)::s' => if x =? y then v else vget x s' end.
Fixpoint vput (x:nat) (v:value) (s:list (nat*value)) : list (nat*value) :=
  match s with [] => [(x,v)] | (y,w)::s' => if x =? y then (y,v)::s' else (y,w)::vput x v s' end.

Definition setv (f:frame) (vs:list (nat*value)) := {| code := code f; pos := pos f; vars := vs; base := base f |}.
Definition adv (f:frame) := {| code := code f; pos := S (pos f); vars := vars f; base := base f |}.

Fixpoint flookup (x:nat) (F:list frame) : value :=
  match F with [] => VNil | f::F' => if vhas x (vars f) then vget x (vars f) else flookup x F' end.
Fixpoint fassign_outer (x:nat) (v:value) (F:list frame) : option (list frame) :=
  match F with [] => None | f::F' => if vhas x (vars f) then Some (setv f (vput x v (vars f)) :: F')
                                   else match fassign_outer x v F' with Some F'' => Some (f::F'') | None => None end end.
Definition fassign (x:nat) (v:value) (F:list frame) : list frame :=
  match fassign_outer x v F with Some F' => F'
  | None => match F with [] => [] | f::F' => setv f (vput x v (vars f)) :: F' end end.

Inductive outcome := Running (c:ctx) | Finished (v:value) | Stuck.

(* pop refuses to go below the current frame's base (context::pop_value) *)
Definition pop (f:frame) (V:list value) : option (value * list value) :=
  match V with v::V' => if base f <? length V then Some (v, V') else None | [] => None end.
Fixpoint drop_to (b:nat) (V:list value) : list value :=
  if length V <=? b then V else match V with [] => [] | _::V' => drop_to b V' end.

Definition step (c:ctx) : outcome :=
  match frames c with
  | [] => Stuck
  | f :: F =>
    match nth_error (code f) (pos f) with
    | None => (* frame done: take top of region (nil if none), clear region, pop frame, re-push *)
      let ret := match pop f (vals c) with Some (v,_) => v | None => VNil end in
      let V := drop_to (base f) (vals c) in
      match F with [] => Finished ret | _ => Running {| frames := F; vals := ret :: V |} end
    | Some i =>
      let f' := adv f in
      match i with
      | IPush v => Running {| frames := f'::F; vals := v :: vals c |}
      | IGet x => Running {| frames := f'::F; vals := flookup x (f::F) :: vals c |}
      | ISet x => match pop f (vals c) with
                  | Some (v, V) => Running {| frames := fassign x v (f'::F); vals := V |}
                  | None => Stuck end
      | IAdd => match pop f (vals c) with
                | Some (VNum m, V1) => match pop f V1 with
                                       | Some (VNum n, V2) => Running {| frames := f'::F; vals := VNum (n+m) :: V2 |}
                                       | _ => Stuck end
                | _ => Stuck end
      | ICall => match pop f (vals c) with
                 | Some (VCode cd, V) =>
                     Running {| frames := {| code := cd; pos := 0; vars := []; base := length V |} :: f' :: F; vals := V |}
                 | _ => Stuck end
      | IEnd => Running {| frames := f'::F; vals := drop_to (base f) (vals c) |}
      end
    end
  end.

Fixpoint run (n:nat) (c:ctx) : outcome :=
  match n with 0 => Running c | S n => match step c with Running c' => run n c' | o => o end end.

(* sanity: { x = 1; call { x = x + 41; 7 }; x }  ->  42 *)
Definition prog := BCons (SAssign 0 (ENum 1))
                  (BCons (SExpr (ECall (ECode (BCons (SAssign 0 (EAdd (EVar 0) (ENum 41))) (BCons (SExpr (ENum 7)) BNil)))))
                  (BCons (SExpr (EVar 0)) BNil)).
Eval vm_compute in eval_b 50 [[]] RNil prog.
Eval vm_compute in run 50 {| frames := [{| code := comp_b prog; pos := 0; vars := []; base := 0 |}]; vals := [] |}.

(* ---------- simulation ---------- *)
Definition cvs (s:scope) : list (nat*value) := map (fun '(x,v) => (x, cv v)) s.
Fixpoint reframe (S:list scope) (F:list frame) : list frame :=
  match S, F with s::S', f::F' => setv f (cvs s) :: reframe S' F' | _, _ => [] end.
Definition mkf c p b := {| code := c; pos := p; vars := []; base := b |}.
Definition st S c p b F0 V := {| frames := reframe S (mkf c p b :: F0); vals := V |}.

Lemma vhas_cvs x s : vhas x (cvs s) = has x s.
Proof. induction s as [|[y w] s IH]; cbn; auto. destruct (x =? y); auto. Qed.
Lemma vget_cvs x s : vget x (cvs s) = cv (get x s).
Proof. induction s as [|[y w] s IH]; cbn; auto. destruct (x =? y); auto. Qed.
Lemma vput_cvs x v s : vput x (cv v) (cvs s) = cvs (put x v s).
Proof. unfold cvs. induction s as [|[y w] s IH]; cbn; auto. destruct (x =? y); cbn; auto. now rewrite IH. Qed.

Lemma flookup_reframe : forall S F x, length S = length F -> flookup x (reframe S F) = cv (lookup x S).
Proof.
  induction S as [|s S IH]; intros [|f F] x H; cbn in *; try lia; auto.
  rewrite vhas_cvs, vget_cvs. destruct (has x s); auto.
Qed.
Lemma fassign_outer_reframe : forall S F x v, length S = length F ->
  fassign_outer x (cv v) (reframe S F) = option_map (fun S' => reframe S' F) (assign_outer x v S).
Proof.
  induction S as [|s S IH]; intros [|f F] x v H; cbn [reframe fassign_outer assign_outer length option_map] in *; try lia; auto.
  cbn [vars setv]. rewrite vhas_cvs. destruct (has x s); cbn [option_map reframe].
  - unfold setv; cbn [code pos base vars]. rewrite vput_cvs. reflexivity.
  - rewrite IH by lia. destruct (assign_outer x v S); cbn [option_map reframe]; auto.
Qed.
Lemma fassign_reframe : forall S F x v, length S = length F ->
  fassign x (cv v) (reframe S F) = reframe (assign x v S) F.
Proof.
  intros S F x v H. unfold fassign, assign. rewrite fassign_outer_reframe by auto.
  destruct (assign_outer x v S); cbn [option_map]; auto.
  destruct S as [|s S], F as [|f F]; cbn [reframe length] in *; try lia; auto.
  unfold setv; cbn [code pos base vars]. rewrite vput_cvs. reflexivity.
Qed.
Lemma assign_outer_len x v : forall S S', assign_outer x v S = Some S' -> length S' = length S.
Proof.
  induction S as [|s S IH]; cbn; intros S' H; [discriminate|].
  destruct (has x s); [inversion H; reflexivity|].
  destruct (assign_outer x v S) eqn:E; inversion H; subst; cbn. f_equal. now apply IH.
Qed.
Lemma assign_len x v S : length (assign x v S) = length S.
Proof.
  unfold assign. destruct (assign_outer x v S) eqn:E; [eapply assign_outer_len; eauto|].
  destruct S; reflexivity.
Qed.

Lemma eval_len : forall f,
  (forall S e v S', eval_e f S e = Some (v, S') -> length S' = length S) /\
  (forall S l b v S', eval_b f S l b = Some (v, S') -> length S' = length S).
Proof.
  induction f as [|f [IHe IHb]]; split; intros; try discriminate.
  - cbn [eval_e] in H. destruct e.
    + inversion H; reflexivity.
    + inversion H; reflexivity.
    + destruct (eval_e f S e1) as [[[| n |] S1]|] eqn:E1; try discriminate.
      destruct (eval_e f S1 e2) as [[[| m |] S2]|] eqn:E2; try discriminate.
      inversion H; subst. rewrite (IHe _ _ _ _ E2). eapply IHe; eauto.
    + inversion H; reflexivity.
    + destruct (eval_e f S e) as [[[| n | b] S1]|] eqn:E1; try discriminate.
      destruct (eval_b f ([]::S1) RNil b) as [[v0 [|s2 S2]]|] eqn:E2; try discriminate.
      inversion H; subst. apply IHb in E2. apply IHe in E1. cbn in E2. lia.
  - cbn [eval_b] in H. destruct b as [|[e|x e] b'].
    + inversion H; reflexivity.
    + destruct (eval_e f S e) as [[v1 S1]|] eqn:E1; try discriminate.
      apply IHb in H. apply IHe in E1. lia.
    + destruct (eval_e f S e) as [[v1 S1]|] eqn:E1; try discriminate.
      apply IHb in H. apply IHe in E1. rewrite assign_len in H. lia.
Qed.

Lemma run_app : forall n m c, run (n+m) c = match run n c with Running c' => run m c' | o => o end.
Proof.
  induction n; intros; cbn; auto. destruct (step c); auto.
Qed.
Lemma run_trans n m c c' o : run n c = Running c' -> run m c' = o -> run (n+m) c = o.
Proof. intros H1 H2. rewrite run_app, H1. exact H2. Qed.

Lemma nth_mid {A} (pre post:list A) i : nth_error (pre ++ i :: post) (length pre) = Some i.
Proof. rewrite nth_error_app2 by lia. now rewrite Nat.sub_diag. Qed.

Definition tail_code (b:block) : list instr := match b with BNil => [] | _ => IEnd :: comp_b b end.
Lemma comp_b_cons s b : comp_b (BCons s b) = comp_s s ++ tail_code b.
Proof. destruct b; cbn [comp_b tail_code]; auto. now rewrite app_nil_r. Qed.

Lemma drop_to_exact : forall R V, drop_to (length V) (R ++ V) = V.
Proof.
  induction R as [|r R IH]; intros V.
  - cbn [app]. destruct V; cbn; auto. rewrite Nat.leb_refl. reflexivity.
  - cbn [app drop_to]. cbn [length]. rewrite app_length.
    destruct (Nat.leb_spec (S (length R + length V)) (length V)); [lia|]. apply IH.
Qed.

Definition blk_code (first:bool) (b:block) : list instr := if first then comp_b b else tail_code b.

Definition Pe (f:nat) : Prop := forall S e v S', eval_e f S e = Some (v, S') ->
  forall F0 pre post code b V, code = pre ++ comp_e e ++ post -> length S = Datatypes.S (length F0) -> b <= length V ->
  exists n, run n (st S code (length pre) b F0 V)
          = Running (st S' code (length pre + length (comp_e e)) b F0 (cv v :: V)).

Definition Pb (f:nat) : Prop := forall S l b' v S', eval_b f S l b' = Some (v, S') ->
  forall first F0 pre code V R, code = pre ++ blk_code first b' -> length S = Datatypes.S (length F0) -> F0 <> [] ->
  (if first then R = [] /\ l = RNil else (R = [cv l] \/ (R = [] /\ l = RNil))) ->
  exists n, run n (st S code (length pre) (length V) F0 (R ++ V))
          = Running {| frames := reframe (tl S') F0; vals := cv v :: V |}.

Lemma st_step_instr : forall s Sr c p b F0 V i, nth_error c p = Some i ->
  step (st (s::Sr) c p b F0 V) =
  let f := setv (mkf c p b) (cvs s) in let F := reframe Sr F0 in let f' := adv f in
  match i with
  | IPush v => Running {| frames := f'::F; vals := v :: V |}
  | IGet x => Running {| frames := f'::F; vals := flookup x (f::F) :: V |}
  | ISet x => match pop f V with Some (v, V') => Running {| frames := fassign x v (f'::F); vals := V' |} | None => Stuck end
  | IAdd => match pop f V with
            | Some (VNum m, V1) => match pop f V1 with
                                   | Some (VNum n, V2) => Running {| frames := f'::F; vals := VNum (n+m) :: V2 |}
                                   | _ => Stuck end
            | _ => Stuck end
  | ICall => match pop f V with
             | Some (VCode cd, V') => Running {| frames := {| code := cd; pos := 0; vars := []; base := length V' |} :: f' :: F; vals := V' |}
             | _ => Stuck end
  | IEnd => Running {| frames := f'::F; vals := drop_to (base f) V |}
  end.
Proof. intros. unfold st, step. cbn [frames vals reframe setv mkf code pos vars base]. rewrite H. reflexivity. Qed.

Lemma adv_st : forall s Sr c p b F0, adv (setv (mkf c p b) (cvs s)) :: reframe Sr F0 = reframe (s::Sr) (mkf c (S p) b :: F0).
Proof. reflexivity. Qed.

Lemma pop_ok : forall f v V, base f <= length V -> pop f (v :: V) = Some (v, V).
Proof. intros. unfold pop. cbn [length]. destruct (Nat.ltb_spec (base f) (S (length V))); [reflexivity|lia]. Qed.

Lemma len_cons_inv {A} (l:list A) n : length l = S n -> exists a l', l = a :: l' /\ length l' = n.
Proof. destruct l; cbn; intros H; [discriminate|]. inversion H. eauto. Qed.

Theorem simulation : forall f, Pe f /\ Pb f.
Proof.
  induction f as [|f [IHe IHb]]; split.
  - intros S e v S' H; discriminate.
  - intros S l b' v S' H; discriminate.
  - (* expressions *)
    intros S e v S' H F0 pre post code b V Hc HL Hb.
    destruct (len_cons_inv _ _ HL) as (s & Sr & -> & HLr).
    cbn [eval_e] in H. subst code. destruct e as [n|x|a c|bb|e].
    + inversion H; subst. exists 1. cbn [run]. rewrite (st_step_instr _ _ _ _ _ _ _ (IPush (VNum n))).
      2:{ cbn [comp_e app]. apply nth_mid. }
      cbn zeta. rewrite adv_st. cbn [comp_e length cv]. rewrite Nat.add_1_r. reflexivity.
    + inversion H; subst. exists 1. cbn [run]. rewrite (st_step_instr _ _ _ _ _ _ _ (IGet x)).
      2:{ cbn [comp_e app]. apply nth_mid. }
      cbn zeta. rewrite adv_st. cbn [comp_e length]. rewrite Nat.add_1_r.
      change (setv (mkf (pre ++ [IGet x] ++ post) (length pre) b) (cvs s) :: reframe Sr F0)
        with (reframe (s::Sr) (mkf (pre ++ [IGet x] ++ post) (length pre) b :: F0)).
      rewrite flookup_reframe by (cbn [length]; lia). reflexivity.
    + destruct (eval_e f (s::Sr) a) as [[[| n |] S1]|] eqn:E1; try discriminate.
      destruct (eval_e f S1 c) as [[[| m |] S2]|] eqn:E2; try discriminate.
      assert (HH: v = RNum (n+m) /\ S' = S2) by (inversion H; auto). destruct HH as [-> ->]. clear H.
      pose proof (proj1 (eval_len f) _ _ _ _ E1) as L1.
      pose proof (proj1 (eval_len f) _ _ _ _ E2) as L2.
      set (code := pre ++ comp_e (EAdd a c) ++ post).
      destruct (IHe _ _ _ _ E1 F0 pre (comp_e c ++ [IAdd] ++ post) code b V) as [n1 R1].
      { unfold code. cbn [comp_e]. now rewrite <- !app_assoc. } { exact HL. } { exact Hb. }
      destruct (IHe _ _ _ _ E2 F0 (pre ++ comp_e a) ([IAdd] ++ post) code b (VNum n :: V)) as [n2 R2].
      { unfold code. cbn [comp_e]. now rewrite <- !app_assoc. } { cbn [length] in *; lia. } { cbn [length]; lia. }
      rewrite app_length in R2.
      destruct (len_cons_inv S2 (length F0) ltac:(cbn [length] in *; lia)) as (s2 & Sr2 & -> & HL2).
      exists (n1 + (n2 + 1)). eapply run_trans; [exact R1|]. eapply run_trans; [exact R2|].
      cbn [run cv]. rewrite (st_step_instr _ _ _ _ _ _ _ IAdd).
      2:{ unfold code. cbn [comp_e]. rewrite <- app_length.
          replace (pre ++ (comp_e a ++ comp_e c ++ [IAdd]) ++ post) with ((pre ++ comp_e a ++ comp_e c) ++ IAdd :: post)
            by (now rewrite <- !app_assoc).
          replace (length (pre ++ comp_e a) + length (comp_e c)) with (length (pre ++ comp_e a ++ comp_e c))
            by (rewrite !app_length; lia).
          apply nth_mid. }
      cbn zeta. rewrite pop_ok by (cbn [base setv mkf length]; lia).
      rewrite pop_ok by (cbn [base setv mkf]; lia).
      rewrite adv_st.
      replace (S (length pre + length (comp_e a) + length (comp_e c))) with (length pre + length (comp_e (EAdd a c)))
        by (cbn [comp_e]; rewrite !app_length; cbn [length]; lia).
      reflexivity.
    + inversion H; subst. exists 1. cbn [run]. rewrite (st_step_instr _ _ _ _ _ _ _ (IPush (VCode (comp_b bb)))).
      2:{ cbn [comp_e app]. apply nth_mid. }
      cbn zeta. rewrite adv_st. cbn [comp_e length cv]. rewrite Nat.add_1_r. reflexivity.
    + destruct (eval_e f (s::Sr) e) as [[[| n | bb] S1]|] eqn:E1; try discriminate.
      destruct (eval_b f ([]::S1) RNil bb) as [[v0 [|s2 S2]]|] eqn:E2; try discriminate.
      assert (HH: v = v0 /\ S' = S2) by (inversion H; auto). destruct HH as [-> ->]. clear H.
      pose proof (proj1 (eval_len f) _ _ _ _ E1) as L1.
      set (code := pre ++ comp_e (ECall e) ++ post).
      destruct (IHe _ _ _ _ E1 F0 pre ([ICall] ++ post) code b V) as [n1 R1].
      { unfold code. cbn [comp_e]. now rewrite <- !app_assoc. } { exact HL. } { exact Hb. }
      destruct (len_cons_inv S1 (length F0) ltac:(cbn [length] in *; lia)) as (s1 & Sr1 & -> & HL1).
      set (p1 := length pre + length (comp_e e)) in *.
      destruct (IHb _ _ _ _ _ E2 true (mkf code (S p1) b :: F0) [] (comp_b bb) V []) as [n2 R2].
      { reflexivity. } { cbn [length] in *; lia. } { discriminate. } { auto. }
      exists (n1 + (1 + n2)). eapply run_trans; [exact R1|].
      eapply run_trans with (c' := st ([]::s1::Sr1) (comp_b bb) 0 (length V) (mkf code (S p1) b :: F0) V).
      * cbn [run cv]. rewrite (st_step_instr _ _ _ _ _ _ _ ICall).
        2:{ unfold code, p1. cbn [comp_e]. rewrite <- app_length.
            replace (pre ++ (comp_e e ++ [ICall]) ++ post) with ((pre ++ comp_e e) ++ ICall :: post) by (now rewrite <- !app_assoc).
            apply nth_mid. }
        cbn zeta. rewrite pop_ok by (cbn [base setv mkf]; lia). reflexivity.
      * cbn [app length] in R2. rewrite R2. cbn [tl]. unfold st.
        replace (length pre + length (comp_e (ECall e))) with (S p1)
          by (unfold p1; cbn [comp_e]; rewrite app_length; cbn [length]; lia).
        reflexivity.
  - (* blocks *)
    intros S l b' v S' H first F0 pre code V R Hc HL HF HR.
    destruct (len_cons_inv _ _ HL) as (s & Sr & -> & HLr).
    cbn [eval_b] in H. destruct b' as [|st0 b''].
    + (* end of block: frame completes *)
      inversion H; subst. clear H. exists 1. cbn [run]. unfold st, step.
      cbn [frames vals reframe setv mkf code pos vars base].
      replace (blk_code first BNil) with (@nil instr) by (destruct first; reflexivity).
      rewrite app_nil_r. rewrite (proj2 (nth_error_None _ _)) by lia.
      rewrite drop_to_exact. cbn [tl].
      assert (Hret: match pop (setv (mkf pre (length pre) (length V)) (cvs s)) (R ++ V) with
                    | Some (v0, _) => v0 | None => VNil end = cv v).
      { assert (HR': R = [cv v] \/ (R = [] /\ v = RNil)) by (destruct first; tauto).
        destruct HR' as [->|[-> ->]].
        - cbn [app]. rewrite pop_ok by (cbn [base setv mkf]; lia). reflexivity.
        - cbn [app cv]. unfold pop. destruct V; auto. cbn [base setv mkf length]. rewrite Nat.ltb_irrefl. reflexivity. }
      rewrite Hret. destruct (reframe Sr F0) eqn:ER; [|reflexivity].
      destruct Sr, F0; cbn in *; try lia; try discriminate; contradiction.
    + (* statement, then the rest *)
      assert (Hcode: exists pre1, code = pre1 ++ comp_s st0 ++ tail_code b'' /\
              exists k, run k (st (s::Sr) code (length pre) (length V) F0 (R ++ V))
                      = Running (st (s::Sr) code (length pre1) (length V) F0 V)).
      { destruct first.
        - destruct HR as [-> ->]. exists pre. split.
          + rewrite Hc. cbn [blk_code]. now rewrite comp_b_cons.
          + exists 0. reflexivity.
        - exists (pre ++ [IEnd]). split.
          + rewrite Hc. cbn [blk_code tail_code]. rewrite comp_b_cons. now rewrite <- !app_assoc.
          + exists 1. cbn [run]. rewrite (st_step_instr _ _ _ _ _ _ _ IEnd).
            2:{ rewrite Hc. cbn [blk_code tail_code]. apply nth_mid. }
            cbn zeta. cbn [base setv mkf]. rewrite drop_to_exact. rewrite adv_st.
            rewrite app_length. cbn [length]. rewrite Nat.add_1_r. reflexivity. }
      destruct Hcode as (pre1 & Hc1 & k0 & Rk0).
      destruct st0 as [e|x e].
      * destruct (eval_e f (s::Sr) e) as [[v1 S1]|] eqn:E1; try discriminate.
        pose proof (proj1 (eval_len f) _ _ _ _ E1) as L1.
        destruct (IHe _ _ _ _ E1 F0 pre1 (tail_code b'') code (length V) V) as [n1 R1]; auto.
        destruct (IHb _ _ _ _ _ H false F0 (pre1 ++ comp_e e) code V [cv v1]) as [n2 R2]; auto.
        { rewrite Hc1. cbn [comp_s blk_code]. now rewrite <- !app_assoc. } { cbn [length] in *; lia. }
        exists (k0 + (n1 + n2)). eapply run_trans; [exact Rk0|]. eapply run_trans; [exact R1|].
        rewrite app_length in R2. exact R2.
      * destruct (eval_e f (s::Sr) e) as [[v1 S1]|] eqn:E1; try discriminate.
        pose proof (proj1 (eval_len f) _ _ _ _ E1) as L1.
        destruct (IHe _ _ _ _ E1 F0 pre1 ([ISet x] ++ tail_code b'') code (length V) V) as [n1 R1]; auto.
        { rewrite Hc1. cbn [comp_s]. now rewrite <- !app_assoc. }
        destruct (len_cons_inv S1 (length F0) ltac:(cbn [length] in *; lia)) as (s1 & Sr1 & -> & HL1).
        destruct (IHb _ _ _ _ _ H false F0 (pre1 ++ comp_e e ++ [ISet x]) code V []) as [n2 R2]; auto.
        { rewrite Hc1. cbn [comp_s blk_code]. now rewrite <- !app_assoc. }
        { rewrite assign_len. cbn [length] in *; lia. }
        exists (k0 + (n1 + (1 + n2))). eapply run_trans; [exact Rk0|]. eapply run_trans; [exact R1|].
        eapply run_trans with (c' := st (assign x v1 (s1::Sr1)) code (length (pre1 ++ comp_e e ++ [ISet x])) (length V) F0 V).
        -- cbn [run]. rewrite (st_step_instr _ _ _ _ _ _ _ (ISet x)).
           2:{ rewrite Hc1. cbn [comp_s]. rewrite <- app_length.
               replace (pre1 ++ (comp_e e ++ [ISet x]) ++ tail_code b'') with ((pre1 ++ comp_e e) ++ ISet x :: tail_code b'')
                 by (now rewrite <- !app_assoc).
               apply nth_mid. }
           cbn zeta. rewrite pop_ok by (cbn [base setv mkf]; lia). rewrite adv_st.
           rewrite fassign_reframe by (cbn [length] in *; lia). unfold st.
           replace (length (pre1 ++ comp_e e ++ [ISet x])) with (S (length pre1 + length (comp_e e)))
             by (rewrite !app_length; cbn [length]; lia).
           reflexivity.
        -- cbn [app] in R2. exact R2.
Qed.

(* top-level corollary: a called block yields exactly the reference value, parent operands intact *)
Print Assumptions simulation.
