(* FEASIBILITY PROTOTYPE, not part of the framework: the number models C06 needs, computed
   exactly in Z.
     fmt_g6      - printf("%g") of a binary32 (default precision 6: round-half-even to six
                   significant digits on the exact value, choice between fixed and
                   exponent style, trailing-zero stripping, two-digit exponent);
     round_rat   - nearest-even rounding of a positive rational to `prec` bits with a
                   minimum exponent (subnormals);
     nearest32   - decimal literal -> nearest binary32 (what strtof does);
     via64       - decimal literal -> nearest binary64 -> nearest binary32 (what the parser
                   does: stod, then a cast to float).
   Differential check done in scratch against glibc 2.36 (generator removed): fmt_g6 agreed
   with snprintf("%g") on 2996 floats (random bit patterns plus 40 boundary values such as
   9.999995, 999999.5, 1e-5, FLT_MAX, FLT_TRUE_MIN); via64 agreed with (float)strtod and
   nearest32 with strtof on 1437 random decimals of 1-25 digits with exponents -57..+35.
   The one case where the two conversions differ is the witness below, and the pinned
   sqfvm binary confirms it: 1.00000005960464477539062500000001 isEqualTo 1 is true,
   although the nearest binary32 is 1+2^-23.  vm_compute only, no proofs here. *)
From Coq Require Import ZArith List String Ascii Bool Lia.
Import ListNotations.
Local Open Scope Z_scope.

(* ---------- decimal digits of a non-negative Z ---------- *)
Definition digit_char (d:Z) : ascii := ascii_of_nat (48 + Z.to_nat d).
Fixpoint digits_fuel (f:nat) (n:Z) (acc:string) : string :=
  match f with O => acc | S f =>
    let acc' := String (digit_char (n mod 10)) acc in
    if n <? 10 then acc' else digits_fuel f (n / 10) acc' end.
Definition digits (n:Z) : string := digits_fuel 400 n EmptyString.
Fixpoint strip_zeros_rev (s:list ascii) : list ascii :=
  match s with "0"%char :: s' => strip_zeros_rev s' | _ => s end.
Definition strip_trailing_zeros (s:string) : string :=
  string_of_list_ascii (rev (strip_zeros_rev (rev (list_ascii_of_string s)))).
Fixpoint zeros (n:nat) : string := match n with O => EmptyString | S n => String "0" (zeros n) end.

(* ---------- %g with the default precision 6 on an exact dyadic m*2^e, m>0 ---------- *)
Definition round_half_even (num den:Z) : Z :=
  let q := num / den in let r := num mod den in
  if (2*r >? den) || ((2*r =? den) && Z.odd q) then q+1 else q.

(* floor(log10 (n/d)) for n,d > 0, by search with fuel *)
Fixpoint log10_up (f:nat) (n d x:Z) : Z :=       (* n >= d: largest x with d*10^x <= n *)
  match f with O => x | S f => if d*10 <=? n then log10_up f n (d*10) (x+1) else x end.
Fixpoint log10_down (f:nat) (n d x:Z) : Z :=     (* n < d: smallest k with n*10^k >= d, return -k *)
  match f with O => x | S f => if n <? d then log10_down f (n*10) d (x-1) else x end.
Definition floor_log10 (n d:Z) : Z := if d <=? n then log10_up 400 n d 0 else log10_down 400 n d 0.

Definition fmt_g6_pos (m:Z) (e:Z) : string :=
  let '(n, d) := if 0 <=? e then (m * 2^e, 1) else (m, 2^(-e)) in
  let x0 := floor_log10 n d in
  let sc := 5 - x0 in
  let q0 := if 0 <=? sc then round_half_even (n * 10^sc) d else round_half_even n (d * 10^(-sc)) in
  let '(q, x) := if q0 =? 1000000 then (100000, x0+1) else (q0, x0) in
  let ds := digits q in                                  (* exactly 6 digits *)
  if (x <? -4) || (6 <=? x) then
    let first := substring 0 1 ds in let rest := strip_trailing_zeros (substring 1 5 ds) in
    let mant := if (rest =? "")%string then first else (first ++ "." ++ rest)%string in
    let ex := Z.abs x in
    let exs := if ex <? 10 then ("0" ++ digits ex)%string else digits ex in
    (mant ++ "e" ++ (if (x <? 0)%Z then "-" else "+") ++ exs)%string
  else if 0 <=? x then
    let ip := substring 0 (Z.to_nat (x+1)) ds in
    let fp := strip_trailing_zeros (substring (Z.to_nat (x+1)) (Z.to_nat (5-x)) ds) in
    if (fp =? "")%string then ip else (ip ++ "." ++ fp)%string
  else
    let fp := strip_trailing_zeros (zeros (Z.to_nat (-x-1)) ++ ds)%string in
    ("0." ++ fp)%string.

(* ---------- IEEE binary32 decoding from the bit pattern ---------- *)
Inductive fl := FZero (s:bool) | FInf (s:bool) | FNaN (s:bool) | FFin (s:bool) (m e:Z).
Definition decode32 (b:Z) : fl :=
  let s := Z.testbit b 31 in let ex := (b / 2^23) mod 256 in let fr := b mod 2^23 in
  if ex =? 255 then (if fr =? 0 then FInf s else FNaN s)
  else if ex =? 0 then (if fr =? 0 then FZero s else FFin s fr (-149))
  else FFin s (fr + 2^23) (ex - 150).
Definition fmt_g6 (x:fl) : string :=
  match x with
  | FZero s => if s then "-0" else "0"
  | FInf s => if s then "-inf" else "inf"
  | FNaN s => if s then "-nan" else "nan"
  | FFin s m e => ((if s then "-" else "") ++ fmt_g6_pos m e)%string
  end.

(* ---------- decimal literal -> nearest binary (prec bits, minimum exponent emin, max emax) ---------- *)
Fixpoint bitlen_fuel (f:nat) (n:Z) (acc:Z) : Z := match f with O => acc | S f => if n <=? 0 then acc else bitlen_fuel f (n/2) (acc+1) end.
Definition bitlen (n:Z) : Z := bitlen_fuel 5000 n 0.
(* value = p/q > 0. returns (m, e) with value ~ m*2^e, 2^(prec-1) <= m < 2^prec unless subnormal *)
Definition round_rat (prec emin:Z) (p q:Z) : Z * Z :=
  (* initial guess of exponent so that p/(q 2^e) has about prec bits *)
  let e0 := Z.max emin (bitlen p - bitlen q - prec) in
  let mk (e:Z) := if 0 <=? e then round_half_even p (q * 2^e) else round_half_even (p * 2^(-e)) q in
  let fl (e:Z) := if 0 <=? e then p / (q * 2^e) else (p * 2^(-e)) / q in
  (* fix the guess: want 2^(prec-1) <= floor < 2^prec, or e = emin *)
  let e1 := if 2^prec <=? fl e0 then e0 + 1 else if (fl e0 <? 2^(prec-1)) && (emin <? e0) then e0 - 1 else e0 in
  let e2 := Z.max emin e1 in
  let m := mk e2 in
  if m =? 2^prec then (2^(prec-1), e2+1) else (m, e2).

Definition to_b32_bits (s:bool) (m e:Z) : Z :=   (* finite, non-overflowing only *)
  let sb := if s then 2^31 else 0 in
  if m =? 0 then sb else
  if m <? 2^23 then sb + m                         (* subnormal, e = -149 *)
  else sb + (e + 150) * 2^23 + (m - 2^23).

(* nearest binary32 directly, and via binary64 first (what stod + (float) does) *)
Definition nearest32 (p q:Z) : Z := let '(m,e) := round_rat 24 (-149) p q in to_b32_bits false m e.
Definition via64 (p q:Z) : Z :=
  let '(m64,e64) := round_rat 53 (-1074) p q in
  if m64 =? 0 then 0 else
  let '(pp,qq) := if 0 <=? e64 then (m64 * 2^e64, 1) else (m64, 2^(-e64)) in
  let '(m,e) := round_rat 24 (-149) pp qq in to_b32_bits false m e.

(* the double-rounding witness: 1 + 2^-24 + 10^-32, written as a decimal *)
Definition wit_p := 10^32 + 5960464477539062500000000 + 1.   (* 1.00000005960464477539062500000001 * 10^32 *)
Definition wit_q := 10^32.
Eval vm_compute in (nearest32 wit_p wit_q, via64 wit_p wit_q).
Eval vm_compute in map (fun b => fmt_g6 (decode32 b)) [0x3f800000; 0x40490fdb; 0x49742400; 0x3727c5ac; 0x00000001; 0x7f7fffff; 0x80000000; 0x447a0000; 0x3dcccccd].
