(* FEASIBILITY PROTOTYPE, not part of the framework: the defect-switch pattern of DESIGN.md
   section 2.1a on C15's inheritance links.  `rebind guarded` is the re-opening of a class
   with a base: with guarded = false it is the code as it stands (confighost.h:325-326
   rebinds id_parent_inherited unconditionally), with guarded = true the repaired code
   (rebind only if the base's own chain ends without meeting the class).
     as_is_cycle_refuted            : the witness  class A{}; class B:A{}; class A:B{};
                                      turns a terminating host into one whose
                                      inherited-parent walk from A never ends;
     repaired_preserves_termination : with the guard, every walk that ended before still
                                      ends, for every host, class and base;
     repaired_refuses               : on the witness the guard leaves the host unchanged.
   coqc 8.16.1; Closed under the global context. *)
From Coq Require Import Arith Lia Bool.

(* inheritance links of the config host as a partial function id -> base id *)
Definition links := nat -> option nat.
Definition upd (p:links) (x:nat) (b:option nat) : links := fun y => if y =? x then b else p y.

(* does the id_parent_inherited walk from y end within n steps? (lookup_in_inherited's loop) *)
Fixpoint ends (n:nat) (p:links) (y:nat) : bool :=
  match n with 0 => false | S n => match p y with None => true | Some z => ends n p z end end.
(* does the walk from y meet x within n steps (y itself included)? *)
Fixpoint hits (n:nat) (p:links) (y x:nat) : bool :=
  if y =? x then true else
  match n with 0 => false | S n => match p y with None => false | Some z => hits n p z x end end.

Definition Terminating (p:links) : Prop := forall y, exists n, ends n p y = true.

(* append_or_replace on an existing class x with base b:
   as_is    - confighost.h:325-326 rebinds unconditionally;
   repaired - rebinds only if the chain from b (which ends within nb steps) never meets x *)
Definition rebind (guarded:bool) (p:links) (x b nb:nat) : links :=
  if guarded then (if ends nb p b && negb (hits nb p b x) then upd p x (Some b) else p)
  else upd p x (Some b).

Lemma ends_mono : forall n p y, ends n p y = true -> forall m, n <= m -> ends m p y = true.
Proof.
  induction n; intros p y H m L; [discriminate|]. destruct m; [lia|]. cbn in *.
  destruct (p y); auto. apply IHn; auto. lia.
Qed.

Lemma avoid_same : forall n p x b' y, hits n p y x = false -> ends n p y = true -> ends n (upd p x b') y = true.
Proof.
  induction n; intros p x b' y Hh He; [discriminate|]. cbn in *. unfold upd at 1.
  destruct (Nat.eqb_spec y x); [discriminate|]. destruct (p y); auto.
Qed.

Theorem repaired_preserves_termination : forall p x b nb,
  Terminating p -> Terminating (rebind true p x b nb).
Proof.
  intros p x b nb T. unfold rebind.
  destruct (ends nb p b && negb (hits nb p b x)) eqn:G; auto.
  apply andb_true_iff in G. destruct G as [Eb Hb]. apply negb_true_iff in Hb.
  pose proof (avoid_same _ _ _ (Some b) _ Hb Eb) as Eb'.
  assert (K: forall n y, ends n p y = true -> exists m, ends m (upd p x (Some b)) y = true).
  { induction n; intros y He; [discriminate|]. cbn in He.
    destruct (Nat.eqb_spec y x) as [->|Hne].
    - exists (S nb). cbn. unfold upd at 1. rewrite Nat.eqb_refl. exact Eb'.
    - destruct (p y) as [z|] eqn:Py.
      + destruct (IHn z He) as [m Hm]. exists (S m). cbn. unfold upd at 1.
        destruct (Nat.eqb_spec y x); [contradiction|]. rewrite Py. exact Hm.
      + exists 1. cbn. unfold upd. destruct (Nat.eqb_spec y x); [contradiction|]. now rewrite Py. }
  intros y. destruct (T y) as [n Hn]. eauto.
Qed.

(* the defect: class A {}; class B : A {}; class A : B {};   (ids: A = 0, B = 1) *)
Definition p0 : links := fun y => if y =? 1 then Some 0 else None.
Theorem as_is_cycle_refuted : Terminating p0 /\ ~ Terminating (rebind false p0 0 1 5).
Proof.
  split.
  - intros y. exists 2. unfold p0. cbn. destruct (y =? 1) eqn:E; auto.
  - intros T. destruct (T 0) as [n Hn].
    assert (K: forall n, ends n (rebind false p0 0 1 5) 0 = false /\ ends n (rebind false p0 0 1 5) 1 = false).
    { clear. induction n as [|n [IH0 IH1]]; [split; reflexivity|]. split; cbn; [exact IH1|exact IH0]. }
    destruct (K n). congruence.
Qed.
(* ... and the guard refuses exactly that rebind, leaving the host unchanged *)
Example repaired_refuses : forall y, rebind true p0 0 1 5 y = p0 y.
Proof. intros y. unfold rebind. cbn. reflexivity. Qed.
Print Assumptions repaired_preserves_termination.
Print Assumptions as_is_cycle_refuted.
