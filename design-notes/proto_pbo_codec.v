(* FEASIBILITY PROTOTYPE, not part of the framework: C17's codec at byte level.
   `pack` is the independent packer (version header 'Vers', properties, 20-byte packed
   entry headers with little-endian u32 fields, terminating empty header, data blocks);
   `parse` mirrors pbofile::open() but bounds-checks every read (the repaired reader).
     parse_pack        : wf a -> parse (pack a) = Some a   (names/keys non-empty and NUL-free,
                         values NUL-free, sizes < 2^32) - for archives of any size;
     take_data_inside  : for ANY byte string, the entries the parser exposes are slices
                         of the file (their total length is at most the file's).
   The u32 round trip is closed by lia with the div/mod post-hook; no bit-level lemmas
   were needed.  coqc 8.16.1; Closed under the global context. *)
From Coq Require Import ZArith List Lia Bool.
Import ListNotations.
Local Open Scope Z_scope.
Ltac Zify.zify_post_hook ::= Z.div_mod_to_equations.

Definition byte := Z.   (* 0..255 *)
Definition isbyte (b:Z) := 0 <= b < 256.

(* ---- little-endian u32 ---- *)
Definition enc32 (n:Z) : list byte := [n mod 256; (n / 256) mod 256; (n / 65536) mod 256; (n / 16777216) mod 256].
Definition dec32 (l:list byte) : option (Z * list byte) :=
  match l with
  | a :: b :: c :: d :: r => Some (a + 256*b + 65536*c + 16777216*d, r)
  | _ => None end.
Lemma dec_enc32 n r : 0 <= n < 4294967296 -> dec32 (enc32 n ++ r) = Some (n, r).
Proof. intros H. unfold enc32, dec32. cbn [app]. f_equal. f_equal. lia. Qed.

(* ---- NUL-terminated strings ---- *)
Fixpoint take_cstr (l:list byte) : option (list byte * list byte) :=
  match l with
  | [] => None
  | b :: r => if b =? 0 then Some ([], r)
              else match take_cstr r with Some (s, r') => Some (b :: s, r') | None => None end
  end.
Definition nonul (s:list byte) := Forall (fun b => b <> 0) s.
Lemma take_cstr_app s r : nonul s -> take_cstr (s ++ 0 :: r) = Some (s, r).
Proof.
  induction 1 as [|b s Hb Hs IH]; cbn; auto.
  destruct (Z.eqb_spec b 0); [contradiction|]. now rewrite IH.
Qed.

(* ---- archive ---- *)
Record entry := { ename : list byte; edata : list byte }.
Record pbo := { props : list (list byte * list byte); entries : list entry }.

Definition hdr (name:list byte) (method size:Z) : list byte :=
  name ++ 0 :: enc32 method ++ enc32 size ++ enc32 0 ++ enc32 0 ++ enc32 size.
Definition VERS := 1936876886.  (* 'sreV' little-endian: 0x56657273 *)

Definition pack (a:pbo) : list byte :=
  hdr [] VERS 0
  ++ flat_map (fun '(k,v) => k ++ 0 :: v ++ [0]) (props a) ++ [0]
  ++ flat_map (fun e => hdr (ename e) 0 (Z.of_nat (length (edata e)))) (entries a)
  ++ hdr [] 0 0
  ++ flat_map edata (entries a).

(* parser mirroring pbofile::open(): version header, properties until an empty key,
   headers until an empty name, then data blocks by accumulated sizes; every read is
   bounds-checked (returns None instead of reading past the end) *)
Definition take_hdr (l:list byte) : option (list byte * Z * Z * list byte) :=
  match take_cstr l with
  | Some (name, r0) =>
    match dec32 r0 with Some (m, r1) =>
    match dec32 r1 with Some (_, r2) =>
    match dec32 r2 with Some (_, r3) =>
    match dec32 r3 with Some (_, r4) =>
    match dec32 r4 with Some (sz, r5) => Some (name, m, sz, r5)
    | None => None end | None => None end | None => None end | None => None end | None => None end
  | None => None end.

Fixpoint take_props (f:nat) (l:list byte) : option (list (list byte * list byte) * list byte) :=
  match f with O => None | S f =>
    match take_cstr l with
    | Some ([], r) => Some ([], r)
    | Some (k, r) => match take_cstr r with
                     | Some (v, r') => match take_props f r' with Some (ps, r'') => Some ((k,v)::ps, r'') | None => None end
                     | None => None end
    | None => None end end.

Fixpoint take_hdrs (f:nat) (l:list byte) : option (list (list byte * Z) * list byte) :=
  match f with O => None | S f =>
    match take_hdr l with
    | Some ([], _, _, r) => Some ([], r)
    | Some (n, _, sz, r) => match take_hdrs f r with Some (hs, r') => Some ((n,sz)::hs, r') | None => None end
    | None => None end end.

Fixpoint take_data (hs:list (list byte * Z)) (l:list byte) : option (list entry) :=
  match hs with
  | [] => Some []
  | (n, sz) :: hs' =>
      if (Z.of_nat (length l) <? sz) then None        (* block must lie inside the file *)
      else match take_data hs' (skipn (Z.to_nat sz) l) with
           | Some es => Some ({| ename := n; edata := firstn (Z.to_nat sz) l |} :: es)
           | None => None end
  end.

Definition parse (l:list byte) : option pbo :=
  match take_hdr l with
  | Some ([], m, _, r0) =>
      if m =? VERS then
        match take_props (length l) r0 with
        | Some (ps, r1) => match take_hdrs (length l) r1 with
                           | Some (hs, r2) => match take_data hs r2 with
                                              | Some es => Some {| props := ps; entries := es |}
                                              | None => None end
                           | None => None end
        | None => None end
      else None
  | _ => None end.

Definition wf (a:pbo) : Prop :=
  Forall (fun '(k,v) => k <> [] /\ nonul k /\ nonul v) (props a) /\
  Forall (fun e => ename e <> [] /\ nonul (ename e) /\ Z.of_nat (length (edata e)) < 4294967296) (entries a).

Lemma take_hdr_hdr name m sz r : nonul name -> 0 <= m < 4294967296 -> 0 <= sz < 4294967296 ->
  take_hdr (hdr name m sz ++ r) = Some (name, m, sz, r).
Proof.
  intros Hn Hm Hs. unfold take_hdr, hdr. rewrite <- app_assoc. cbn [app].
  rewrite take_cstr_app by assumption.
  rewrite <- !app_assoc.
  rewrite dec_enc32 by lia. rewrite dec_enc32 by lia. rewrite dec_enc32 by lia.
  rewrite dec_enc32 by lia. rewrite dec_enc32 by lia. reflexivity.
Qed.

Definition props_bytes (ps:list (list byte * list byte)) := flat_map (fun '(k,v) => k ++ 0 :: v ++ [0]) ps.
Definition hdrs_bytes (es:list entry) := flat_map (fun e => hdr (ename e) 0 (Z.of_nat (length (edata e)))) es.

Lemma take_props_ok : forall ps r f,
  Forall (fun '(k,v) => k <> [] /\ nonul k /\ nonul v) ps -> (length ps < f)%nat ->
  take_props f (props_bytes ps ++ 0 :: r) = Some (ps, r).
Proof.
  induction ps as [|[k v] ps IH]; intros r f HF Hf; destruct f as [|f]; try lia.
  - cbn. reflexivity.
  - inversion HF as [|? ? Hhd HF']; subst. cbn in Hhd. destruct Hhd as (Hk & Hnk & Hnv). cbn [props_bytes flat_map take_props].
    rewrite <- !app_assoc. cbn [app]. rewrite take_cstr_app by assumption.
    destruct k as [|k0 k']; [contradiction|].
    rewrite <- app_assoc. cbn [app]. rewrite take_cstr_app by assumption.
    fold (props_bytes ps). rewrite IH; auto. cbn in Hf; lia.
Qed.

Lemma take_hdrs_ok : forall es r f,
  Forall (fun e => ename e <> [] /\ nonul (ename e) /\ Z.of_nat (length (edata e)) < 4294967296) es -> (length es < f)%nat ->
  take_hdrs f (hdrs_bytes es ++ hdr [] 0 0 ++ r)
    = Some (map (fun e => (ename e, Z.of_nat (length (edata e)))) es, r).
Proof.
  induction es as [|e es IH]; intros r f HF Hf; destruct f as [|f]; try lia.
  - cbn [hdrs_bytes flat_map app take_hdrs]. rewrite take_hdr_hdr; [reflexivity|constructor|lia|lia].
  - inversion HF as [|? ? Hhd HF']; subst. cbn beta in Hhd. destruct Hhd as (Hn & Hnn & Hsz). cbn [hdrs_bytes flat_map take_hdrs map].
    rewrite <- app_assoc. rewrite take_hdr_hdr; [|assumption|lia|lia].
    destruct (ename e) as [|n0 n'] eqn:En; [contradiction|].
    fold (hdrs_bytes es). rewrite IH; auto. cbn in Hf; lia.
Qed.

Lemma take_data_ok : forall es,
  take_data (map (fun e => (ename e, Z.of_nat (length (edata e)))) es) (flat_map edata es) = Some es.
Proof.
  induction es as [|[n d] es IH]; cbn [map flat_map take_data ename edata]; auto.
  rewrite app_length. destruct (Z.ltb_spec (Z.of_nat (length d + length (flat_map edata es))) (Z.of_nat (length d))); [lia|].
  rewrite Nat2Z.id. rewrite skipn_app, skipn_all, Nat.sub_diag. cbn [app skipn].
  rewrite IH. rewrite firstn_app, firstn_all, Nat.sub_diag. cbn [firstn]. rewrite app_nil_r. reflexivity.
Qed.

Lemma props_bytes_len ps : (length ps <= length (props_bytes ps))%nat.
Proof.
  induction ps as [|[k v] ps IH]; [cbn; lia|].
  cbn [props_bytes flat_map]. fold (props_bytes ps). rewrite !app_length. cbn [length]. rewrite app_length. cbn [length]. lia.
Qed.
Lemma hdrs_bytes_len es : (length es <= length (hdrs_bytes es))%nat.
Proof.
  induction es as [|e es IH]; [cbn; lia|].
  cbn [hdrs_bytes flat_map]. fold (hdrs_bytes es). unfold hdr. rewrite !app_length. cbn [length]. lia.
Qed.
Lemma pack_len_props a : (length (props a) < length (pack a))%nat.
Proof.
  unfold pack. rewrite !app_length. fold (props_bytes (props a)).
  pose proof (props_bytes_len (props a)). cbn [length]. lia.
Qed.
Lemma pack_len_entries a : (length (entries a) < length (pack a))%nat.
Proof.
  unfold pack. rewrite !app_length. fold (hdrs_bytes (entries a)).
  pose proof (hdrs_bytes_len (entries a)). cbn [length]. lia.
Qed.

Theorem parse_pack : forall a, wf a -> parse (pack a) = Some a.
Proof.
  intros [ps es] [Hp He]. cbn [props entries] in *. unfold parse.
  pose proof (pack_len_props {| props := ps; entries := es |}) as Lp.
  pose proof (pack_len_entries {| props := ps; entries := es |}) as Le.
  cbn [props entries] in *. set (L := length (pack {| props := ps; entries := es |})) in *.
  unfold pack. cbn [props entries].
  rewrite take_hdr_hdr; [|constructor|unfold VERS; lia|lia].
  rewrite Z.eqb_refl. fold (props_bytes ps). fold (hdrs_bytes es).
  cbn [app].
  rewrite take_props_ok by auto.
  rewrite take_hdrs_ok by auto.
  rewrite take_data_ok. reflexivity.
Qed.

(* no read outside the file, for ANY byte string: every entry the parser exposes is a slice *)
Lemma take_data_inside : forall hs l es, take_data hs l = Some es ->
  (Z.of_nat (length (flat_map edata es)) <= Z.of_nat (length l)).
Proof.
  induction hs as [|[n sz] hs IH]; intros l es H; cbn [take_data] in H.
  - inversion H; subst. cbn. lia.
  - destruct (Z.ltb_spec (Z.of_nat (length l)) sz); [discriminate|].
    destruct (take_data hs (skipn (Z.to_nat sz) l)) as [es'|] eqn:E; [|discriminate].
    inversion H; subst. cbn [flat_map edata]. rewrite app_length.
    apply IH in E. rewrite skipn_length in E. rewrite firstn_length. lia.
Qed.
Print Assumptions parse_pack.
Print Assumptions take_data_inside.
