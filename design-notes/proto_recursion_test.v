(* FEASIBILITY PROTOTYPE, not part of the framework: C08's hard core.
   `rt` mirrors d_array::recursion_test_ (path-based DFS, `vis` = current path without the
   root, fuel explicit).  Proved here:
     rt_true_walk   - if the test says yes, any traversal with the recursion shape of
                      to_string_sqf / equals / copy_deep terminates within the same fuel
                      (simultaneous induction, no graph theory);
     rt_sound       - if the test says yes from the empty path, every path leaving x is
                      duplicate-free, i.e. no cycle is reachable from x;
     rt_fuel        - |heap| - |path| + 2 levels of fuel always suffice (pigeonhole via
                      NoDup_incl_length); writing this proof corrected an off-by-one in my
                      first bound (a dangling reference at the deepest level costs a level).
   Left for the real development: the path surgery showing that a heap that was acyclic
   and whose only new edge leaves the tested array stays acyclic when the test says yes.
   coqc 8.16.1; Closed under the global context. *)
From Coq Require Import List ListDec Arith Lia Bool.
Import ListNotations.

(* heap of arrays; only the references matter here: cell r lists the arrays it contains *)
Definition heap := list (list nat).
Definition kids (h:heap) (r:nat) : list nat := match nth_error h r with Some l => l | None => [] end.

Fixpoint mem (x:nat) (l:list nat) : bool := match l with [] => false | y::l' => if x =? y then true else mem x l' end.
Lemma mem_In x l : mem x l = true <-> In x l.
Proof. induction l; cbn; [intuition discriminate|]. destruct (Nat.eqb_spec x a); subst; intuition. Qed.

(* d_array::recursion_test_ : path-based DFS; `vis` is the current path (without the root).
   None = out of fuel. *)
Fixpoint rt (f:nat) (h:heap) (vis:list nat) (x:nat) {struct f} : option bool :=
  match f with 0 => None | S f =>
    (fix go (ks:list nat) : option bool :=
       match ks with
       | [] => Some true
       | r :: ks' => if mem r vis then Some false
                     else match rt f h (r :: vis) r with
                          | Some true => go ks'
                          | o => o end
       end) (kids h x)
  end.

(* to_string / equals / copy_deep all have this recursion shape: no visited list *)
Fixpoint walk (f:nat) (h:heap) (x:nat) {struct f} : option nat :=
  match f with 0 => None | S f =>
    (fix go (ks:list nat) : option nat :=
       match ks with
       | [] => Some 1
       | r :: ks' => match walk f h r with
                     | Some n => match go ks' with Some m => Some (n+m) | None => None end
                     | None => None end
       end) (kids h x)
  end.

(* 1. whenever the recursion test succeeds, every traversal of the same shape terminates
      within the same fuel -- no graph theory needed *)
Lemma rt_true_walk : forall f h vis x, rt f h vis x = Some true -> exists n, walk f h x = Some n.
Proof.
  induction f as [|f IH]; intros h vis x H; [discriminate|].
  cbn [rt walk] in *. revert H. generalize (kids h x) as ks.
  induction ks as [|r ks IHk]; intros H; [eauto|].
  destruct (mem r vis); [discriminate|].
  destruct (rt f h (r::vis) r) as [[|]|] eqn:E; try discriminate.
  destruct (IH _ _ _ E) as [n ->]. destruct (IHk H) as [m ->]. eauto.
Qed.

(* 2. what the test decides *)
Definition edge (h:heap) (a b:nat) : Prop := In b (kids h a).
Inductive Bad (h:heap) : list nat -> nat -> Prop :=
| bad_here vis x r : edge h x r -> In r vis -> Bad h vis x
| bad_deep vis x r : edge h x r -> Bad h (r::vis) r -> Bad h vis x.

Lemma rt_false_bad : forall f h vis x, rt f h vis x = Some false -> Bad h vis x.
Proof.
  induction f as [|f IH]; intros h vis x H; [discriminate|]. cbn [rt] in H.
  assert (G: forall ks, (forall r, In r ks -> edge h x r) ->
     (fix go (ks0 : list nat) : option bool :=
        match ks0 with
        | [] => Some true
        | r :: ks' => if mem r vis then Some false
                      else match rt f h (r :: vis) r with Some true => go ks' | o => o end
        end) ks = Some false -> Bad h vis x).
  { induction ks as [|r ks IHk]; intros Hk Hgo; [discriminate|].
    destruct (mem r vis) eqn:M.
    - apply mem_In in M. eapply bad_here; [apply Hk; left; reflexivity|exact M].
    - destruct (rt f h (r::vis) r) as [[|]|] eqn:E; try discriminate.
      + apply IHk; auto. intros; apply Hk; right; auto.
      + eapply bad_deep; [apply Hk; left; reflexivity|]. eapply IH; eauto. }
  apply (G (kids h x)); auto.
Qed.

Lemma rt_true_not_bad : forall f h vis x, rt f h vis x = Some true -> ~ Bad h vis x.
Proof.
  induction f as [|f IH]; intros h vis x H; [discriminate|]. cbn [rt] in H.
  assert (G: forall r, In r (kids h x) -> mem r vis = false /\ rt f h (r::vis) r = Some true).
  { unfold edge in *. revert H. generalize (kids h x) as ks.
    induction ks as [|r ks IHk]; intros H; [intros ? []|].
    destruct (mem r vis) eqn:M; [discriminate|].
    destruct (rt f h (r::vis) r) as [[|]|] eqn:E; try discriminate.
    intros r' [<-|Hin]; auto. }
  intros B. inversion B as [? ? r He Hv|? ? r He Hb]; subst; destruct (G r He) as [M E].
  - apply mem_In in Hv. congruence.
  - eapply IH; eauto.
Qed.

(* a cycle reachable from x shows up as Bad [] x *)
Inductive path (h:heap) : nat -> list nat -> Prop :=      (* path h x [y1;...;ym] : x -> y1 -> ... -> ym *)
| path_one x y : edge h x y -> path h x [y]
| path_cons x y l : edge h x y -> path h y l -> path h x (y :: l).

Lemma path_repeat_bad : forall h l vis x, path h x l ->
  (exists pre y post, l = pre ++ y :: post /\ (In y vis \/ In y pre)) -> Bad h vis x.
Proof.
  intros h l. induction l as [|y l IH]; intros vis x P (pre & z & post & E & Hz); [inversion P|].
  inversion P as [? ? He|? ? ? He P']; subst.
  - destruct pre as [|p pre]; cbn in E; inversion E; subst; [|destruct pre; discriminate].
    destruct Hz as [Hz|[]]. eapply bad_here; eauto.
  - destruct pre as [|p pre]; cbn in E; inversion E; subst.
    + destruct Hz as [Hz|[]]. eapply bad_here; eauto.
    + eapply bad_deep; [exact He|]. eapply IH; [exact P'|].
      exists pre, z, post. split; auto. cbn [In] in *. destruct Hz as [Hz|[->|Hz]]; auto.
Qed.

Lemma not_nodup_split : forall l : list nat, ~ NoDup l -> exists pre y post, l = pre ++ y :: post /\ In y pre.
Proof.
  induction l as [|a l IH]; intros H; [exfalso; apply H; constructor|].
  destruct (in_dec Nat.eq_dec a l) as [Hin|Hnin].
  - apply in_split in Hin. destruct Hin as (p & q & ->). exists (a :: p), a, q. split; [reflexivity|left; reflexivity].
  - destruct IH as (pre & y & post & -> & Hy).
    { intros ND. apply H. constructor; auto. }
    exists (a :: pre), y, post. split; [reflexivity|right; exact Hy].
Qed.

(* the test, when it says yes, excludes every cycle reachable from x *)
Theorem rt_sound : forall f h x, rt f h [] x = Some true -> forall l, path h x l -> NoDup l.
Proof.
  intros f h x H l P. destruct (NoDup_dec Nat.eq_dec l) as [ND|ND]; auto.
  exfalso. eapply rt_true_not_bad; [exact H|].
  destruct (not_nodup_split _ ND) as (pre & y & post & E & Hy).
  eapply path_repeat_bad; [exact P|]. exists pre, y, post. auto.
Qed.

(* and then printing / comparing / deep-copying from x terminate within the same fuel *)
Corollary accepted_array_prints : forall f h x, rt f h [] x = Some true -> exists n, walk f h x = Some n.
Proof. intros. eapply rt_true_walk; eauto. Qed.

(* fuel: the path grows by a fresh node at every level, so |h|+1 levels suffice *)
Lemma rt_fuel : forall f h vis x, NoDup vis -> (forall r, In r vis -> r < length h) ->
  length h - length vis + 1 < f -> rt f h vis x <> None.
Proof.
  induction f as [|f IH]; intros h vis x ND Hb Hf; [lia|]. cbn [rt].
  assert (K: forall r, In r (kids h x) -> r < length h -> True) by auto.
  generalize (kids h x) as ks. induction ks as [|r ks IHk]; [discriminate|].
  destruct (mem r vis) eqn:M; [discriminate|].
  destruct (Nat.lt_ge_cases r (length h)) as [Hr|Hr].
  - assert (Hlen: length vis < length h).
    { assert (NoDup (r :: vis)) by (constructor; auto; intros Hin; apply mem_In in Hin; congruence).
      assert (incl (r :: vis) (seq 0 (length h))).
      { intros z [<-|Hz]; apply in_seq; [lia|]. specialize (Hb _ Hz). lia. }
      pose proof (NoDup_incl_length H H0) as L. rewrite seq_length in L. cbn in L. lia. }
    assert (E: rt f h (r :: vis) r <> None).
    { apply IH.
      - constructor; auto. intros Hin. apply mem_In in Hin. congruence.
      - intros z [<-|Hz]; auto.
      - cbn [length]. lia. }
    destruct (rt f h (r :: vis) r) as [[|]|]; try discriminate; [exact IHk|congruence].
  - (* dangling reference: no children *)
    assert (E: rt f h (r :: vis) r = Some true).
    { destruct f; [lia|]. cbn [rt]. unfold kids. rewrite (proj2 (nth_error_None h r)) by lia. reflexivity. }
    rewrite E. exact IHk.
Qed.
Print Assumptions rt_sound.
Print Assumptions rt_fuel.
