(* FEASIBILITY PROTOTYPE, not part of the framework: the scheduler pass loop of
   runtime::execute(action::start) -- index-based iteration over the context list with
   erase(begin()+i) followed by i-- when a script finishes, spawned scripts appended while
   iterating -- refines a round-robin queue (mech_refines_spec), and one pass visits every
   context that was in the list at its start exactly once, in order, followed by the
   contexts spawned meanwhile; survivors are a sub-sequence of the visit order
   (pass_spec).  What a slice does is an arbitrary oracle `beh`, so this holds for every
   finish/spawn pattern.  coqc 8.16.1; Closed under the global context. *)
From Coq Require Import List Arith Lia Bool.
Import ListNotations.

(* What one slice of context c does, as an oracle indexed by how many slices ran before:
   the ids it spawned (appended to the context list) and whether it finished. *)
Section Sched.
Variable beh : nat -> nat -> (list nat * bool).

Fixpoint remove_nth {A} (i:nat) (l:list A) : list A :=
  match i, l with
  | _, [] => []
  | 0, _::l' => l'
  | S i', x::l' => x :: remove_nth i' l'
  end.

(* mechanism: runtime.cpp:326-381 -- index loop, erase(begin()+i) followed by i-- *)
Fixpoint mech (fuel:nat) (l:list nat) (i:nat) (log:list nat) : option (list nat * list nat) :=
  match fuel with 0 => None | S fuel =>
    match nth_error l i with
    | None => Some (l, log)
    | Some c =>
        let '(sp, fin) := beh c (length log) in
        let l1 := l ++ sp in
        if fin then mech fuel (remove_nth i l1) i (log ++ [c])
               else mech fuel l1 (S i) (log ++ [c])
    end
  end.

(* spec: round robin over a queue; survivors keep their order *)
Fixpoint spec (fuel:nat) (done todo:list nat) (log:list nat) : option (list nat * list nat) :=
  match fuel with 0 => None | S fuel =>
    match todo with
    | [] => Some (done, log)
    | c :: rest =>
        let '(sp, fin) := beh c (length log) in
        spec fuel (if fin then done else done ++ [c]) (rest ++ sp) (log ++ [c])
    end
  end.

Lemma remove_nth_app {A} (d:list A) c r : remove_nth (length d) (d ++ c :: r) = d ++ r.
Proof. induction d; cbn; auto. now rewrite IHd. Qed.
Lemma nth_error_mid {A} (d:list A) c r : nth_error (d ++ c :: r) (length d) = Some c.
Proof. rewrite nth_error_app2 by lia. now rewrite Nat.sub_diag. Qed.

Theorem mech_refines_spec : forall fuel d t log,
  mech fuel (d ++ t) (length d) log = spec fuel d t log.
Proof.
  induction fuel as [|f IH]; intros d t log; cbn [mech spec]; auto.
  destruct t as [|c r].
  - rewrite app_nil_r. rewrite (proj2 (nth_error_None d (length d))) by lia. reflexivity.
  - rewrite nth_error_mid. destruct (beh c (length log)) as [sp fin]. destruct fin.
    + rewrite <- app_assoc. cbn [app]. rewrite remove_nth_app. apply IH.
    + replace ((d ++ c :: r) ++ sp) with ((d ++ [c]) ++ (r ++ sp)) by (rewrite <- !app_assoc; reflexivity).
      replace (S (length d)) with (length (d ++ [c])) by (rewrite app_length; cbn; lia).
      apply IH.
Qed.

(* one pass visits: everything that was in the list at its start, in order, then what was
   spawned meanwhile, in spawn order -- each exactly once (positions, not ids) *)
Theorem pass_visits_all_once : forall fuel d t log d' log',
  spec fuel d t log = Some (d', log') ->
  exists spawned, log' = log ++ t ++ spawned.
Proof.
  induction fuel as [|f IH]; intros d t log d' log' H; cbn [spec] in H; [discriminate|].
  destruct t as [|c r].
  - inversion H; subst. exists []. now rewrite !app_nil_r.
  - destruct (beh c (length log)) as [sp fin].
    apply IH in H. destruct H as [sp' ->].
    exists (sp ++ sp'). rewrite <- !app_assoc. reflexivity.
Qed.

(* survivors of a pass are a sub-sequence of the visit order: nobody is reordered, and nobody
   disappears without having been visited and reported finished *)
Inductive sub : list nat -> list nat -> Prop :=
| sub_nil : sub [] []
| sub_skip x l1 l2 : sub l1 l2 -> sub l1 (x :: l2)
| sub_keep x l1 l2 : sub l1 l2 -> sub (x :: l1) (x :: l2).

Theorem pass_spec : forall fuel d t log d' log',
  spec fuel d t log = Some (d', log') ->
  exists spawned kept, log' = log ++ t ++ spawned /\ d' = d ++ kept /\ sub kept (t ++ spawned).
Proof.
  induction fuel as [|f IH]; intros d t log d' log' H; cbn [spec] in H; [discriminate|].
  destruct t as [|c r].
  - inversion H; subst. exists [], []. rewrite !app_nil_r. repeat split; constructor.
  - destruct (beh c (length log)) as [sp fin].
    apply IH in H. destruct H as (sp' & kept & -> & -> & HS).
    rewrite <- app_assoc in HS.
    destruct fin.
    + exists (sp ++ sp'), kept. rewrite <- !app_assoc. repeat split. cbn [app]. now constructor.
    + exists (sp ++ sp'), (c :: kept). rewrite <- !app_assoc. repeat split. cbn [app]. now constructor.
Qed.
End Sched.
Print Assumptions mech_refines_spec.
Print Assumptions pass_spec.
