(* FEASIBILITY PROTOTYPE, not part of the framework: written while drafting DESIGN.md to
   check that the C01/C06 round-trip theorem (parse o print = id for a 10-level,
   left-associative grammar with unary and binary/unary tokens and parentheses) closes at
   reasonable cost with the layered, fuel-driven parser formulation chosen in DESIGN.md.
   coqc 8.16.1: compiles in seconds; Print Assumptions: Closed under the global context. *)
From Coq Require Import List Arith Lia Bool.
Import ListNotations.

(* tokens: binary op of level k (0..N-1), unary op, both (BU at level k), atom, parens *)
Inductive tok := TB (k:nat) (n:nat) | TU (n:nat) | TBU (k:nat) (n:nat) | TA (n:nat) | TL | TR.

Definition N := 10.

Inductive tree :=
| Atom (n:nat)
| Un (t:tok) (a:tree)          (* t is TU or TBU *)
| Bin (k:nat) (t:tok) (l r:tree). (* t is TB k or TBU k *)

Definition is_un (t:tok) := match t with TU _ | TBU _ _ => true | _ => false end.
Definition bin_level (t:tok) : option nat := match t with TB k _ | TBU k _ => Some k | _ => None end.

(* level of a tree: binary k has level k; unary and atoms have level N *)
Definition lvl (t:tree) := match t with Bin k _ _ _ => k | _ => N end.

Fixpoint wf (t:tree) : Prop :=
  match t with
  | Atom _ => True
  | Un o a => is_un o = true /\ wf a
  | Bin k o l r => bin_level o = Some k /\ k < N /\ wf l /\ wf r
  end.

(* print t in a context requiring level >= k *)
Fixpoint pr (k:nat) (t:tree) : list tok :=
  let raw := match t with
             | Atom n => [TA n]
             | Un o a => o :: pr N a
             | Bin j o l r => pr j l ++ o :: pr (S j) r
             end in
  if k <=? lvl t then raw else TL :: raw ++ [TR].

(* parser: fuel-driven.  p f k ts parses exp_k ; loop f k acc ts consumes (OP_k exp_{k+1})* *)
Fixpoint p (f:nat) (k:nat) (ts:list tok) {struct f} : option (tree * list tok) :=
  match f with
  | 0 => None
  | S f =>
    if N <=? k then
      match ts with
      | TA n :: r => Some (Atom n, r)
      | TL :: r => match p f 0 r with
                   | Some (t, TR :: r') => Some (t, r')
                   | _ => None end
      | o :: r => if is_un o then match p f N r with Some (a, r') => Some (Un o a, r') | None => None end else None
      | [] => None
      end
    else
      match p f (S k) ts with
      | Some (l, r) => loop f k l r
      | None => None
      end
  end
with loop (f:nat) (k:nat) (acc:tree) (ts:list tok) {struct f} : option (tree * list tok) :=
  match f with
  | 0 => None
  | S f =>
    match ts with
    | o :: r => match bin_level o with
                | Some j => if j =? k then
                              match p f (S k) r with
                              | Some (x, r') => loop f k (Bin k o acc x) r'
                              | None => None end
                            else Some (acc, ts)
                | None => Some (acc, ts) end
    | [] => Some (acc, ts)
    end
  end.

Eval vm_compute in p 100 0 (pr 0 (Bin 3 (TB 3 0) (Bin 3 (TBU 3 1) (Atom 1) (Atom 2)) (Bin 3 (TB 3 2) (Atom 3) (Un (TBU 3 1) (Atom 4))))).

(* ---------- fuel monotonicity ---------- *)
Lemma mono : forall f, (forall k ts r, p f k ts = Some r -> forall f', f <= f' -> p f' k ts = Some r)
                    /\ (forall k acc ts r, loop f k acc ts = Some r -> forall f', f <= f' -> loop f' k acc ts = Some r).
Proof.
  induction f as [|f [IHp IHl]]; split; intros; try discriminate.
  - destruct f' as [|f']; [lia|]. assert (Hle: f <= f') by lia.
    cbn [p] in *. destruct (N <=? k).
    + destruct ts as [|t ts']; [discriminate|].
      destruct t; cbn [is_un] in *; try discriminate.
      * destruct (p f N ts') as [[a r']|] eqn:E; [|discriminate].
        rewrite (IHp _ _ _ E _ Hle). assumption.
      * destruct (p f N ts') as [[a r']|] eqn:E; [|discriminate].
        rewrite (IHp _ _ _ E _ Hle). assumption.
      * assumption.
      * destruct (p f 0 ts') as [[a r']|] eqn:E; [|discriminate].
        rewrite (IHp _ _ _ E _ Hle). assumption.
    + destruct (p f (S k) ts) as [[l r0]|] eqn:E; [|discriminate].
      rewrite (IHp _ _ _ E _ Hle). eapply IHl; eauto.
  - destruct f' as [|f']; [lia|]. assert (Hle: f <= f') by lia.
    cbn [loop] in *. destruct ts as [|o r0]; [assumption|].
    destruct (bin_level o) as [j|]; [|assumption].
    destruct (j =? k); [|assumption].
    destruct (p f (S k) r0) as [[x r']|] eqn:E; [|discriminate].
    rewrite (IHp _ _ _ E _ Hle). eapply IHl; eauto.
Qed.

Definition stops (k:nat) (X:list tok) : Prop :=
  match X with
  | o :: _ => match bin_level o with Some j => j < k | None => True end
  | [] => True
  end.

Fixpoint size (t:tree) : nat :=
  match t with Atom _ => 1 | Un _ a => S (size a) | Bin _ _ l r => S (size l + size r) end.

Definition Good (t:tree) : Prop :=
  forall k X, k <= N -> stops k X -> exists f, p f k (pr k t ++ X) = Some (t, X).

Lemma loop_stop : forall k acc X, stops k X -> forall f, loop (S f) k acc X = Some (acc, X).
Proof.
  intros k acc X H f. cbn [loop]. destruct X as [|o r]; [reflexivity|].
  cbn [stops] in H. destruct (bin_level o) as [j|]; [|reflexivity].
  destruct (j =? k) eqn:E; [apply Nat.eqb_eq in E; lia|reflexivity].
Qed.

Ltac leb_tac := unfold N in *;
  repeat match goal with
  | |- context[?a <=? ?b] => destruct (Nat.leb_spec a b)
  end; try reflexivity; try lia.

Lemma pr_raw_eq : forall k t, k < lvl t -> pr k t = pr (S k) t.
Proof. intros k t H. destruct t; cbn [pr lvl] in *; leb_tac. Qed.

Lemma pr_par_eq : forall k k' t, lvl t < k -> lvl t < k' -> pr k t = pr k' t.
Proof. intros k k' t H H'. destruct t; cbn [pr lvl] in *; leb_tac. Qed.

Fixpoint spine (k:nat) (t:tree) : tree * list (tok * tree) :=
  match t with
  | Bin j o l r => if j =? k then let '(t0, xs) := spine k l in (t0, xs ++ [(o, r)]) else (t, [])
  | _ => (t, [])
  end.

Definition flat (k:nat) (xs:list (tok*tree)) : list tok :=
  flat_map (fun '(o, r) => o :: pr (S k) r) xs.

Definition rebuild (k:nat) (acc:tree) (xs:list (tok*tree)) : tree :=
  fold_left (fun a '(o, r) => Bin k o a r) xs acc.

Lemma flat_app k xs ys : flat k (xs ++ ys) = flat k xs ++ flat k ys.
Proof. unfold flat. apply flat_map_app. Qed.

Lemma spine_props : forall k t, wf t -> k < N ->
  let '(t0, xs) := spine k t in
  lvl t0 <> k /\ wf t0 /\ size t0 <= size t /\
  Forall (fun '(o, r) => bin_level o = Some k /\ wf r /\ size r < size t) xs /\
  rebuild k t0 xs = t /\
  (lvl t = k -> pr k t = pr (S k) t0 ++ flat k xs) /\
  (lvl t <> k -> xs = [] /\ t0 = t) /\
  (lvl t = k -> size t0 < size t).
Proof.
  intros k t. induction t as [n|o a IH|j o l IHl r IHr]; intros Hwf Hk; cbn [spine].
  - cbn in *. repeat split; auto; try tauto; try (unfold N in *; cbn in *; lia); try (intros; unfold N in *; cbn in *; lia).
  - cbn in *. repeat split; auto; try tauto; try (unfold N in *; cbn in *; lia); try (intros; unfold N in *; cbn in *; lia).
  - cbn [wf] in Hwf. destruct Hwf as (Ho & Hj & Hl & Hr).
    destruct (Nat.eqb_spec j k) as [->|Hne].
    + specialize (IHl Hl Hk). destruct (spine k l) as [t0 xs].
      destruct IHl as (A & B & C & D & E & F & G & H).
      repeat split; auto; try (cbn [lvl] in *; intros; exfalso; congruence).
      * cbn [size]. lia.
      * apply Forall_app. split.
        -- eapply Forall_impl; [|exact D]. intros [o' r']. cbn [size]. intuition lia.
        -- constructor; [|constructor]. cbn [size]. intuition lia.
      * unfold rebuild in *. rewrite fold_left_app. cbn. rewrite E. reflexivity.
      * intros _. cbn [pr lvl]. rewrite Nat.leb_refl. rewrite flat_app. cbn [flat flat_map]. rewrite app_nil_r.
        destruct (Nat.eq_dec (lvl l) k) as [e|ne].
        -- rewrite (F e). rewrite <- app_assoc. reflexivity.
        -- destruct (G ne) as [-> ->]. cbn [flat flat_map app].
           destruct (Nat.lt_ge_cases k (lvl l)).
           ++ rewrite (pr_raw_eq k l) by lia. reflexivity.
           ++ rewrite (pr_par_eq k (S k) l) by lia. reflexivity.
      * intros _. cbn [size]. lia.
    + cbn. repeat split; auto; try lia; try (intros; cbn in *; lia).
Qed.

Lemma mono_p f f' k ts r : p f k ts = Some r -> f <= f' -> p f' k ts = Some r.
Proof. intros. eapply (proj1 (mono f)); eauto. Qed.
Lemma mono_l f f' k acc ts r : loop f k acc ts = Some r -> f <= f' -> loop f' k acc ts = Some r.
Proof. intros. eapply (proj2 (mono f)); eauto. Qed.

Lemma stops_mono k j X : stops k X -> k <= j -> stops j X.
Proof. destruct X as [|o X]; cbn; auto. destruct (bin_level o); auto. lia. Qed.

Definition GoodAt (k:nat) (t:tree) : Prop :=
  forall X, stops k X -> exists f, p f k (pr k t ++ X) = Some (t, X).

Lemma stops_flat k xs X :
  Forall (fun '(o, r) => bin_level o = Some k) xs -> stops k X -> stops (S k) (flat k xs ++ X).
Proof.
  intros H HX. destruct xs as [|[o r] xs]; cbn.
  - eapply stops_mono; eauto.
  - inversion H; subst. cbn. rewrite H2. lia.
Qed.

Lemma loop_flat : forall k xs acc X, k < N ->
  Forall (fun '(o, r) => bin_level o = Some k /\ GoodAt (S k) r) xs ->
  stops k X ->
  exists f, loop f k acc (flat k xs ++ X) = Some (rebuild k acc xs, X).
Proof.
  intros k xs. induction xs as [|[o r] xs IH]; intros acc X Hk HF HX.
  - exists 1. cbn [flat flat_map app rebuild fold_left]. apply loop_stop; assumption.
  - inversion HF as [|? ? Hhd HF']; subst. cbn in Hhd. destruct Hhd as [Ho Hr].
    assert (Hs: stops (S k) (flat k xs ++ X)).
    { apply stops_flat; auto. eapply Forall_impl; [|exact HF']. intros [? ?]; tauto. }
    destruct (Hr _ Hs) as [f1 E1].
    destruct (IH (Bin k o acc r) X Hk HF' HX) as [f2 E2].
    exists (S (max f1 f2)). cbn [flat flat_map]. rewrite <- app_assoc. cbn [app loop].
    rewrite Ho, Nat.eqb_refl.
    change (flat_map (fun '(o0, r0) => o0 :: pr (S k) r0) xs) with (flat k xs).
    rewrite (mono_p _ (max f1 f2) _ _ _ E1) by lia.
    cbn [rebuild fold_left]. eapply mono_l; [exact E2|lia].
Qed.

Lemma p_lt f k ts : k < N ->
  p (S f) k ts = match p f (S k) ts with Some (l, r) => loop f k l r | None => None end.
Proof. intros H. cbn [p]. destruct (Nat.leb_spec N k); [lia|reflexivity]. Qed.

Lemma step_level : forall k t X f, k < N -> pr k t = pr (S k) t -> stops k X ->
  p f (S k) (pr (S k) t ++ X) = Some (t, X) -> p (S (S f)) k (pr k t ++ X) = Some (t, X).
Proof.
  intros k t X f Hk Hpr HX E. rewrite p_lt by assumption.
  rewrite Hpr. rewrite (mono_p _ (S f) _ _ _ E) by lia. apply loop_stop; assumption.
Qed.

Theorem parse_print : forall n t, size t <= n -> wf t -> forall k, k <= N -> GoodAt k t.
Proof.
  induction n as [|n IHn]; intros t Hsz Hwf; [destruct t; cbn in Hsz; lia|].
  (* Q: unparenthesised levels *)
  assert (Q: forall d k, lvl t - k = d -> k <= lvl t -> k <= N -> GoodAt k t).
  { induction d as [|d IHd]; intros k Hd Hle HkN X HX.
    - assert (k = lvl t) by lia. subst k.
      destruct t as [a|o a|j o l r].
      + exists 1. cbn. reflexivity.
      + cbn [wf] in Hwf. destruct Hwf as [Ho Ha].
        destruct (IHn a ltac:(cbn in Hsz; lia) Ha N ltac:(lia) X HX) as [f E].
        exists (S f). cbn [lvl pr]. rewrite Nat.leb_refl. cbn [app p]. rewrite Nat.leb_refl.
        destruct o; cbn in Ho; try discriminate; cbn [is_un]; rewrite E; reflexivity.
      + pose proof (spine_props j (Bin j o l r) Hwf) as SP.
        cbn [wf] in Hwf. destruct Hwf as (Ho & Hj & Hl & Hr).
        specialize (SP Hj). destruct (spine j (Bin j o l r)) as [t0 xs].
        destruct SP as (A & B & C & D & E & F & G & H).
        cbn [lvl] in *. specialize (F eq_refl). specialize (H eq_refl).
        assert (HF: Forall (fun '(o0, r0) => bin_level o0 = Some j /\ GoodAt (S j) r0) xs).
        { eapply Forall_impl; [|exact D]. intros [o' r'] (P1 & P2 & P3). split; auto.
          apply IHn; auto; lia. }
        assert (Hs: stops (S j) (flat j xs ++ X)).
        { apply stops_flat; auto. eapply Forall_impl; [|exact D]. intros [? ?]; tauto. }
        destruct (IHn t0 ltac:(lia) B (S j) ltac:(lia) _ Hs) as [f1 E1].
        destruct (loop_flat j xs t0 X Hj HF HX) as [f2 E2].
        exists (S (max f1 f2)). rewrite F, <- app_assoc. rewrite p_lt by assumption.
        rewrite (mono_p _ (max f1 f2) _ _ _ E1) by lia.
        rewrite <- E. eapply mono_l; [exact E2|lia].
    - assert (k < lvl t) by lia.
      assert (lvl t <= N) by (destruct t; cbn in *; unfold N in *; try lia; tauto).
      destruct (IHd (S k) ltac:(lia) ltac:(lia) ltac:(lia) X (stops_mono k (S k) X HX ltac:(lia))) as [f E].
      exists (S (S f)). apply step_level; auto; try lia. apply pr_raw_eq; lia. }
  intros k HkN X HX.
  destruct (Nat.le_gt_cases k (lvl t)) as [Hle|Hgt].
  - eapply Q; eauto.
  - (* parenthesised: descend to level N, parse group, climb back *)
    assert (P: forall d j, N - j = d -> k <= j -> j <= N -> exists f, p f j (pr j t ++ X) = Some (t, X)).
    { induction d as [|d IHd]; intros j Hd Hkj HjN.
      - assert (j = N) by lia. subst j.
        destruct (Q (lvl t - 0) 0 eq_refl ltac:(lia) ltac:(lia) (TR :: X) I) as [f E].
        exists (S f).
        assert (Hp: pr N t = TL :: pr 0 t ++ [TR]).
        { destruct t; cbn [pr lvl] in *; try (unfold N in *; lia).
          destruct (Nat.leb_spec N k0); [unfold N in *; lia|]. reflexivity. }
        rewrite Hp. cbn [app p]. rewrite Nat.leb_refl. rewrite <- app_assoc. cbn [app]. rewrite E. reflexivity.
      - destruct (IHd (S j) ltac:(lia) ltac:(lia) ltac:(lia)) as [f E].
        exists (S (S f)). apply step_level; auto; try lia.
        + apply pr_par_eq; lia.
        + eapply stops_mono; eauto. }
    eapply P; eauto.
Qed.

Corollary parse_print_top : forall t, wf t -> exists f, p f 0 (pr 0 t) = Some (t, []).
Proof.
  intros t H. destruct (parse_print (size t) t (le_n _) H 0 ltac:(unfold N; lia) [] I) as [f E].
  exists f. rewrite app_nil_r in E. exact E.
Qed.
Print Assumptions parse_print_top.
