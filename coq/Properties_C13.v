(* C13 - the preprocessor equals the reference expansion; strings are inviolate.
   Theorems only (about the reference expander PP/Spec.v, defect setting irrelevant unless stated);
   proofs live in PP/ReaderProofs.v, PP/ExpandProofs.v, PP/TopProofs.v. The reference is tied to
   src/parser/preprocessor/default.cpp by the correspondence run of checks/C13.py.
   This property is partial by construction: no theorem is about a model of default.cpp itself. *)
From Coq Require Import ZArith List Bool.
Import ListNotations.
From SqfVerif Require Import PP.Spec PP.ReaderProofs PP.ExpandProofs PP.TopProofs.
Local Open Scope Z_scope.

(* ---- strings_inviolate ---------------------------------------------------------------------
   reader: from the opening quote to the closing one every byte becomes a character with its own
   position and an empty gap: no comment is cut out, no continuation joined (CR is dropped: S1). *)
Theorem C13_strings_inviolate_reader : forall body rest ln col gap, ~ In QUOTE body -> ~ In CR body ->
  exists ln' col',
  rd RNormal ln col gap (QUOTE :: body ++ QUOTE :: rest) =
  mkpc QUOTE ln col gap :: pos_chars ln (col + 1) (body ++ [QUOTE]) ++ rd RNormal ln' col' [] rest.
Proof. exact strings_inviolate_reader. Qed.
Print Assumptions C13_strings_inviolate_reader.

(* lexer: the literal is one token - no directive, word or macro name is seen inside *)
Theorem C13_strings_inviolate_lexer : forall q1 sc q2 rest bol,
  pc_b q1 = QUOTE -> pc_b q2 = QUOTE -> Forall (fun c => pc_b c <> QUOTE) sc ->
  lex (MNorm bol) (q1 :: sc ++ q2 :: rest) = LS (q1 :: sc ++ [q2]) :: lex (MNorm bol) rest.
Proof. exact strings_inviolate_lexer. Qed.
Print Assumptions C13_strings_inviolate_lexer.

(* file level: in an active region the token is written character for character *)
Theorem C13_strings_inviolate_top : forall d file eof_line dfuel incl st s rest,
  active (add_pend st (hid_sum s) true) = true ->
  top d file eof_line dfuel incl st 0 (LS s :: rest) =
  bind (top d file eof_line dfuel incl (add_pend st (hid_sum s) true) 0 rest)
       (fun r => Ok (map (src file) s ++ fst r, snd r)).
Proof. exact string_token_copied. Qed.
Print Assumptions C13_strings_inviolate_top.

(* inside macro arguments and macro bodies *)
Theorem C13_strings_inviolate_args : forall tbl callf inner pm s rest,
  xarg_go tbl callf inner pm 0 (BS s :: rest) =
  bind (xarg_go tbl callf inner pm 0 rest) (fun y => Ok (s ++ y)).
Proof. exact strings_inviolate_args. Qed.
Print Assumptions C13_strings_inviolate_args.
Theorem C13_strings_inviolate_bodies : forall tbl callf pm s rest,
  xbody tbl callf pm 0 (BS s :: rest) = bind (xbody tbl callf pm 0 rest) (fun y => Ok (s ++ y)).
Proof. exact strings_inviolate_bodies. Qed.
Print Assumptions C13_strings_inviolate_bodies.

(* ---- inactive_never_emitted -----------------------------------------------------------------
   any balanced stretch of an inactive branch (plain text, strings, macro uses, #define, #undef,
   #include, nested #ifdef/#ifndef with #else) contributes newline bytes only, and afterwards the
   macro table and the condition stack are what they were. *)
Theorem C13_inactive_never_emitted : forall d file eof_line dfuel incl toks, inert toks ->
  forall st rest items st', active st = false ->
  top d file eof_line dfuel incl st 0 (toks ++ rest) = Ok (items, st') ->
  exists o st1 items', items = o ++ items' /\ Forall is_nl_item o /\
    ts_tbl st1 = ts_tbl st /\ ts_conds st1 = ts_conds st /\
    top d file eof_line dfuel incl st1 0 rest = Ok (items', st').
Proof. exact inactive_never_emitted. Qed.
Print Assumptions C13_inactive_never_emitted.

(* ---- passthrough ---------------------------------------------------------------------------
   no comment start, continuation or CR (plain), no directive line and no word that is a macro
   (verbatim_tok on the tokens of the text): the body of the output is the text, byte for byte. *)
Theorem C13_passthrough : forall d fs file s,
  plain s -> Forall (verbatim_tok initial_table) (lex (MNorm true) (read s)) ->
  preprocess d fs file s = Ok (OLine 0 file :: map (src file) (read s), initial_table, false) /\
  render (map (src file) (read s)) = s.
Proof. exact passthrough. Qed.
Print Assumptions C13_passthrough.

(* ---- whole_identifier_only -----------------------------------------------------------------
   an identifier is one token however many macro names it contains, and only the whole
   identifier is looked up *)
Theorem C13_identifier_is_one_token : forall w c rest bol, w <> [] -> Forall wordc w -> ~ wordc c ->
  lex (MNorm bol) (w ++ c :: rest) = LW w :: lex (MNorm false) (c :: rest).
Proof. exact lex_word. Qed.
Print Assumptions C13_identifier_is_one_token.
Theorem C13_whole_identifier_only : forall d file eof_line dfuel incl st w rest,
  active (add_pend st (hid_sum w) true) = true -> lookup (ts_tbl st) (bytes w) = None ->
  top d file eof_line dfuel incl st 0 (LW w :: rest) =
  bind (top d file eof_line dfuel incl (add_pend st (hid_sum w) true) 0 rest)
       (fun r => Ok (map (src file) w ++ fst r, snd r)).
Proof. exact whole_identifier_only. Qed.
Print Assumptions C13_whole_identifier_only.
Theorem C13_object_macro_expanded : forall d file eof_line dfuel incl st w rest m x,
  active (add_pend st (hid_sum w) true) = true ->
  lookup (ts_tbl st) (bytes w) = Some m -> callable m = false ->
  call dfuel (ts_tbl st) file
       (match rest with t :: _ => match tok_line t with Some l => l | None => eof_line end | [] => eof_line end)
       [] (bytes w) m [] = Ok x ->
  exists st2, top d file eof_line dfuel incl st 0 (LW w :: rest) =
              bind (top d file eof_line dfuel incl st2 0 rest) (fun r => Ok (map mac x ++ fst r, snd r)).
Proof. exact object_macro_expanded. Qed.
Print Assumptions C13_object_macro_expanded.

(* ---- define_undef_table -------------------------------------------------------------------- *)
Theorem C13_define_undef_table : forall d file eof_line dfuel incl ds st rest items st',
  active st = true -> Forall wf_ltok ds -> Forall is_defundef ds ->
  top d file eof_line dfuel incl st 0 (ds ++ rest) = Ok (items, st') ->
  exists o st1 items', items = o ++ items' /\ Forall is_nl_item o /\
    ts_tbl st1 = fold_left apply_dir (map dir_or_unknown ds) (ts_tbl st) /\
    ts_conds st1 = ts_conds st /\ top d file eof_line dfuel incl st1 0 rest = Ok (items', st').
Proof. exact define_undef_table. Qed.
Print Assumptions C13_define_undef_table.
Theorem C13_table_laws : forall t n m k,
  lookup (define t n m) n = Some m /\ lookup (remove t n) n = None /\
  (n <> k -> lookup (define t n m) k = lookup t k /\ lookup (remove t n) k = lookup t k).
Proof.
  intros. split; [apply lookup_define_same|]. split; [apply lookup_remove_same|].
  intros. split; [apply lookup_define_other | apply lookup_remove_other]; auto.
Qed.
Print Assumptions C13_table_laws.

(* ---- args_balanced ------------------------------------------------------------------------- *)
Theorem C13_args_balanced : forall np args rest, args <> [] -> Forall (bal true) args -> np <> O ->
  exists n, split_args np (join_args args ++ BC RPAR :: rest) = Some (args, n).
Proof. exact args_balanced. Qed.
Print Assumptions C13_args_balanced.
Theorem C13_string_is_one_argument_token : forall body rest, ~ In QUOTE body ->
  blex (QUOTE :: body ++ QUOTE :: rest) = BS (QUOTE :: body ++ [QUOTE]) :: blex rest.
Proof. exact blex_string. Qed.
Print Assumptions C13_string_is_one_argument_token.

(* ---- stringify_concat ---------------------------------------------------------------------- *)
Theorem C13_stringify : forall tbl callf pm x v rest, plookup pm x = Some v ->
  xbody tbl callf pm 0 (BC HASH :: BW x :: rest) =
  bind (xbody tbl callf pm 0 rest) (fun y => Ok (QUOTE :: v ++ [QUOTE] ++ y)).
Proof. exact stringify. Qed.
Print Assumptions C13_stringify.
Theorem C13_concat : forall tbl callf pm x y vx vy rest,
  plookup pm x = Some vx -> plookup pm y = Some vy ->
  xbody tbl callf pm 0 (BW x :: BC HASH :: BC HASH :: BW y :: rest) =
  bind (xbody tbl callf pm 0 rest) (fun z => Ok (vx ++ vy ++ z)).
Proof. exact concat. Qed.
Print Assumptions C13_concat.
Theorem C13_concat_word : forall tbl callf pm x vx w rest,
  plookup pm x = Some vx -> plookup pm w = None -> lookup tbl w = None ->
  xbody tbl callf pm 0 (BW w :: BC HASH :: BC HASH :: BW x :: rest) =
  bind (xbody tbl callf pm 0 rest) (fun z => Ok (w ++ vx ++ z)).
Proof. exact concat_word. Qed.
Print Assumptions C13_concat_word.

(* ---- termination and recursion ------------------------------------------------------------- *)
Theorem C13_call_fuel_enough : forall d tbl cfile cline stack name m args,
  NoDup stack -> incl stack (names tbl) -> lookup tbl name = Some m ->
  (length (names tbl) < d + length stack)%nat ->
  call d tbl cfile cline stack name m args <> Err EOutOfFuel.
Proof. exact call_fuel_enough. Qed.
Print Assumptions C13_call_fuel_enough.
Theorem C13_call_terminates : forall tbl cfile cline name m args, lookup tbl name = Some m ->
  call (S (length tbl)) tbl cfile cline [] name m args <> Err EOutOfFuel.
Proof. exact call_terminates. Qed.
Print Assumptions C13_call_terminates.
Theorem C13_recursive_macro_detected : forall d tbl cfile cline stack name m args,
  m_builtin m = None -> length args = nparams m -> mem name stack = true ->
  call (S d) tbl cfile cline stack name m args = Err ERecursiveMacro.
Proof. exact recursive_macro_detected. Qed.
Print Assumptions C13_recursive_macro_detected.

(* ---- non-vacuity: the hypotheses are satisfiable, the definitions compute ------------------ *)
Definition bs (l:list Z) := l.
(*  #define F(X,Y) X##Y #X NL #define A 1 NL F(a,(b,c)) A AB "A // x" NL  *)
Definition ex_src : list Z :=
  [35;100;101;102;105;110;101;32;70;40;88;44;89;41;32;88;35;35;89;32;35;88;10;
   35;100;101;102;105;110;101;32;65;32;49;10;
   70;40;97;44;40;98;44;99;41;41;32;65;32;65;66;32;34;65;32;47;47;32;120;34;10].
Example ex_expansion : exists items t h,
  preprocess repaired (fun _ => None) [109] ex_src = Ok (items, t, h) /\
  render items = [35;108;105;110;101;32;48;32;34;109;34;10; 10; 10;
                  97;40;98;44;99;41;32;34;97;34;32;49;32;65;66;32;34;65;32;47;47;32;120;34;10].
Proof. eexists. eexists. eexists. split; vm_compute; reflexivity. Qed.
Example ex_recursive : preprocess repaired (fun _ => None) [109] [35;100;101;102;105;110;101;32;65;32;65;10;65]
                       = Err ERecursiveMacro.
Proof. vm_compute. reflexivity. Qed.
Example ex_plain : plain [120;32;61;32;49;32;47;32;50;59;10;34;97;47;98;34].
Proof.
  simpl. repeat match goal with
  | H: _ = _ |- _ => discriminate H
  | |- _ /\ _ => split
  | |- _ <> _ => discriminate
  | |- _ = _ -> _ => intros ?
  | |- True => exact I end.
Qed.
Example ex_bal : bal true [BW [97]; BC LPAR; BW [98]; BC COMMA; BS [34;44;34]; BC RPAR].
Proof.
  apply bal_tok; [simpl; auto|].
  apply (bal_par true [BW [98]; BC COMMA; BS [34;44;34]] []).
  - apply bal_tok; [simpl; auto|]. apply bal_comma. apply bal_tok; [simpl; auto|]. constructor.
  - constructor.
Qed.
