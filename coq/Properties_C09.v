(* C09 - every operator is total and memory-safe on type-correct arguments.   PARTIAL by design.

   What is proved here:
   (a) the dispatcher (call_nular / call_unary / call_binary) over the registry of the built runtime
       (Gen/RegistryFull.v, regenerated on every run): it always ends in one of its outcomes, finds a registered
       signature exactly when one accepts the operand types, prefers the exact signature, tries the ANY fallbacks in
       the order of the code, never looks anything up for a nil operand; the registry has one callback per key.
   (b) for the operators whose index / size arithmetic the property names (the list is in Ops/Guards.v), the guard
       model of the REPAIRED code (proposed_fixes/C09-01..10 applied) never reaches undefined behaviour or an escaping
       C++ exception, refers only to existing elements, ends within its fuel, and allocates at most a constant times
       (size of the arguments + explicitly requested size) - for `format` the bound is |format| * (1 + longest printed
       argument), because one placeholder can be repeated.  For the code AS IT IS the `_refuted` theorems exhibit
       arguments for which the faithful model reaches UB / Throw; the check replays them on the implementation.
       A second list (Ops/Guards2.v: matrices, vectors, IF then ARRAY, private, getVariable / setVariable with an
       array, markers, CONFIG select SCALAR, callExtension with an array) is proved for the code as it is.
   What is NOT proved: anything about the ~2800 operator bodies outside those lists, about the C++ library, about
   memory exhaustion (std::bad_alloc) or about the part of the listed operators that is not argument validation
   (values are trees here: aliasing and the recursion test are C08's subject).  Those are only sampled under
   sanitizers by checks/C09.py (the registry-wide sweep is exploration, not proof). *)
From Coq Require Import ZArith List String Bool.
From SqfVerif Require Import Gen.RegistryFull Ops.OpsBase Ops.Guards Ops.SortOrder Ops.GuardProofs Ops.Dispatch.
From SqfVerif Require Import Ops.Guards2 Ops.Guard2Proofs.
Import ListNotations.
Local Open Scope Z_scope.

(* ================================================================================================================ *)
(* (a) dispatch *)

Theorem C09_dispatch_total : forall n tl tr,
  (exists l' r', d_binary n (Val tl) (Val tr) = BFound l' r' /\ In (n, (l', r')) reg_binary /\
                 accepts l' tl /\ accepts r' tr)
  \/ (d_binary n (Val tl) (Val tr) = BUnknown /\ ~ type_correct_b reg_binary n tl tr).
Proof. exact (dispatch_binary_total reg_binary). Qed.
Print Assumptions C09_dispatch_total.

Theorem C09_dispatch_total_unary : forall n tr,
  (exists r', d_unary n (Val tr) = UFound r' /\ In (n, r') reg_unary /\ accepts r' tr)
  \/ (d_unary n (Val tr) = UUnknown /\ ~ type_correct_u reg_unary n tr).
Proof. exact (dispatch_unary_total reg_unary). Qed.
Print Assumptions C09_dispatch_total_unary.

Theorem C09_dispatch_total_nular : forall n,
  (d_nular n = NFound /\ In n reg_nular) \/ (d_nular n = NUnknown /\ ~ In n reg_nular).
Proof. exact (dispatch_nular_total reg_nular). Qed.
Print Assumptions C09_dispatch_total_nular.

Theorem C09_dispatch_rejects_nil : forall n l,
  d_unary n Nil = UNilRight /\ d_binary n l Nil = BNilRight /\ d_binary n Nil (Val "x"%string) = BNilLeft.
Proof. exact (dispatch_rejects_nil reg_unary reg_binary). Qed.
Print Assumptions C09_dispatch_rejects_nil.

Theorem C09_exact_before_any : forall n tl tr,
  In (n, (tl, tr)) reg_binary -> d_binary n (Val tl) (Val tr) = BFound tl tr.
Proof. exact (exact_before_any_b reg_binary). Qed.
Print Assumptions C09_exact_before_any.

Theorem C09_fallback_order : forall n tl tr,
  ~ In (n, (tl, tr)) reg_binary ->
  (In (n, (ANY, tr)) reg_binary -> d_binary n (Val tl) (Val tr) = BFound ANY tr) /\
  (~ In (n, (ANY, tr)) reg_binary -> In (n, (tl, ANY)) reg_binary -> d_binary n (Val tl) (Val tr) = BFound tl ANY) /\
  (~ In (n, (ANY, tr)) reg_binary -> ~ In (n, (tl, ANY)) reg_binary -> In (n, (ANY, ANY)) reg_binary ->
     d_binary n (Val tl) (Val tr) = BFound ANY ANY).
Proof. exact (fallback_order reg_binary). Qed.
Print Assumptions C09_fallback_order.

(* type-correct operands always reach a registered signature that accepts them *)
Theorem C09_type_correct_dispatched : forall n tl tr,
  type_correct_b reg_binary n tl tr ->
  exists l' r', d_binary n (Val tl) (Val tr) = BFound l' r' /\ In (n, (l', r')) reg_binary /\ accepts l' tl /\ accepts r' tr.
Proof. exact (type_correct_dispatched_b reg_binary). Qed.
Print Assumptions C09_type_correct_dispatched.

Theorem C09_type_correct_dispatched_unary : forall n tr,
  type_correct_u reg_unary n tr ->
  exists r', d_unary n (Val tr) = UFound r' /\ In (n, r') reg_unary /\ accepts r' tr.
Proof. exact (type_correct_dispatched_u reg_unary). Qed.
Print Assumptions C09_type_correct_dispatched_unary.

(* dispatch_deterministic: the dispatcher is a function of (name, operand types), and a found key names exactly one
   registered callback - finite-table fact, the bound is the generated table *)
Theorem C09_dispatch_deterministic : NoDup reg_nular /\ NoDup reg_unary /\ NoDup reg_binary.
Proof. exact registry_keys_unique. Qed.
Print Assumptions C09_dispatch_deterministic.

Theorem C09_registry_no_nothing :
  (forall k, In k reg_unary -> snd k <> "NOTHING"%string) /\
  (forall k, In k reg_binary -> fst (snd k) <> "NOTHING"%string /\ snd (snd k) <> "NOTHING"%string).
Proof. exact registry_no_nothing. Qed.
Print Assumptions C09_registry_no_nothing.

Theorem C09_registry_all_reachable :
  (forall n r, In (n, r) reg_unary -> d_unary n (Val r) = UFound r) /\
  (forall n l r, In (n, (l, r)) reg_binary -> d_binary n (Val l) (Val r) = BFound l r) /\
  (forall n, In n reg_nular -> d_nular n = NFound).
Proof. exact registry_all_reachable. Qed.
Print Assumptions C09_registry_all_reachable.

(* non-vacuity: the tables are the real ones *)
Example ex_dispatch_select : d_binary "select" (Val "ARRAY") (Val "SCALAR") = BFound "ARRAY"%string "SCALAR"%string.
Proof. vm_compute. reflexivity. Qed.
Example ex_dispatch_any : d_binary "isequalto" (Val "ARRAY") (Val "SCALAR") = BFound ANY ANY.
Proof. vm_compute. reflexivity. Qed.
Example ex_dispatch_unknown : d_binary "select" (Val "SCALAR") (Val "SCALAR") = BUnknown.
Proof. vm_compute. reflexivity. Qed.
Example ex_dispatch_param : d_binary "param" (Val "SCALAR") (Val "ARRAY") = BFound ANY "ARRAY"%string.
Proof. vm_compute. reflexivity. Qed.

(* ================================================================================================================ *)
(* (b) guard models.  n, len = size of the array / string operand; the hypothesis n <= INT_MAX is the modelling
   assumption about static_cast<int>(size) stated in Ops/OpsBase.v *)

Theorem C09_select_scalar_safe : forall n f, 0 <= n ->
  safe (select_scalar repaired n f) /\ res_ok n (select_scalar repaired n f) /\ alloc_of (select_scalar repaired n f) <= n.
Proof. exact select_scalar_safe. Qed.
Print Assumptions C09_select_scalar_safe.

Theorem C09_select_scalar_refuted : exists n f, select_scalar as_is n f = UB_CAST.
Proof. exact select_scalar_refuted. Qed.
Print Assumptions C09_select_scalar_refuted.

Theorem C09_select_bool_safe : forall n flag, 0 <= n ->
  safe (select_bool n flag) /\ res_ok n (select_bool n flag) /\ alloc_of (select_bool n flag) <= n.
Proof. exact select_bool_safe. Qed.
Print Assumptions C09_select_bool_safe.

Theorem C09_select_range_safe : forall n args, 0 <= n ->
  safe (select_range repaired n args) /\ res_ok n (select_range repaired n args) /\
  alloc_of (select_range repaired n args) <= 2 * n + zlen args.
Proof. exact select_range_safe. Qed.
Print Assumptions C09_select_range_safe.

Theorem C09_select_range_refuted :
  select_range as_is 200 [VNum (FFin (200 * SCALE)); VNum (FFin (2147483520 * SCALE))]
  = UB "signed integer overflow: start + length".
Proof. exact select_range_refuted. Qed.
Print Assumptions C09_select_range_refuted.

Theorem C09_select_string_safe : forall len args, 0 <= len ->
  safe (select_string repaired len args) /\ res_ok len (select_string repaired len args) /\
  alloc_of (select_string repaired len args) <= 2 * len + zlen args.
Proof. exact select_string_safe. Qed.
Print Assumptions C09_select_string_safe.

(* the allocation of resize is the requested size (k * 2^-149 is the float), itself at most d_array::max_size() *)
Theorem C09_resize_safe : forall n f,
  safe (resize_model repaired n f) /\ alloc_of (resize_model repaired n f) <= ARR_MAX /\
  (forall k, f = FFin k -> alloc_of (resize_model repaired n f) * SCALE <= Z.max 0 k).
Proof. exact resize_safe. Qed.
Print Assumptions C09_resize_safe.

Theorem C09_resize_refuted :
  resize_model as_is 3 (FFin (1000000000000000019884624838656 * SCALE))
    = UB "float-cast-overflow: the value is not representable in size_t" /\
  resize_model as_is 3 (FFin (4611686018427387904 * SCALE)) = Throw "std::length_error (vector::resize)".
Proof. exact resize_refuted. Qed.
Print Assumptions C09_resize_refuted.

Theorem C09_delete_range_safe : forall n args, 0 <= n -> n <= INT_MAX ->
  safe (delete_range repaired n args) /\ res_ok n (delete_range repaired n args) /\
  alloc_of (delete_range repaired n args) <= zlen args.
Proof. exact delete_range_safe. Qed.
Print Assumptions C09_delete_range_safe.

Theorem C09_delete_at_safe : forall n f, 0 <= n ->
  safe (delete_at repaired n f) /\ res_ok n (delete_at repaired n f) /\ alloc_of (delete_at repaired n f) <= 0.
Proof. exact delete_at_safe. Qed.
Print Assumptions C09_delete_at_safe.

Theorem C09_delete_at_refuted : exists n f, delete_at as_is n f = UB_CAST.
Proof. exact delete_at_refuted. Qed.
Print Assumptions C09_delete_at_refuted.

Theorem C09_set_safe : forall n args, 0 <= n -> n <= INT_MAX ->
  safe (set_model repaired n args) /\ res_ok n (set_model repaired n args) /\
  alloc_of (set_model repaired n args) <= zlen args + ARR_MAX.
Proof. exact set_safe. Qed.
Print Assumptions C09_set_safe.

(* as is: NaN index is an undefined cast; with only the cast repaired, an index of 2e9 is still honoured with an
   allocation of 2000000001 elements (the missing limit, defect 08) *)
Theorem C09_set_refuted :
  set_model as_is 3 [VNum FNan; VNum FNan] = UB_CAST /\
  set_model (Build_defects false true true true true true true true true true) 3 [VNum (FFin (2000000000 * SCALE)); VNum FNan]
    = Ret [] (RStored 2000000000 2000000001) 2000000003.
Proof. exact set_refuted. Qed.
Print Assumptions C09_set_refuted.

Theorem C09_push_append_safe : forall n m found, 0 <= n -> 0 <= m ->
  safe (push_back n) /\ alloc_of (push_back n) <= 2 * n + 1 /\
  safe (push_back_unique n found) /\ alloc_of (push_back_unique n found) <= 2 * n + 1 /\
  safe (append_model n m) /\ alloc_of (append_model n m) <= 3 * (n + m).
Proof. exact push_append_safe. Qed.
Print Assumptions C09_push_append_safe.

(* sort: for every array and flag the repaired operator either refuses the array or hands std::sort a comparator that
   is a strict weak ordering on its elements (irreflexive, transitive, transitive incomparability), defined on them *)
Theorem C09_sort_safe : forall elems flag, safe (sort_model repaired elems flag).
Proof. exact sort_safe. Qed.
Print Assumptions C09_sort_safe.

(* sort_cmp_strict_weak for the three accepted shapes, stated on the comparator itself *)
Theorem C09_sort_cmp_strict_weak : forall flag l,
  ((forall v, In v l -> ty_of v = TString) \/ (forall v, In v l -> ty_of v = TScalar) \/
   (exists tys, forall v, In v l -> exists r, v = VArr r /\ map ty_of r = tys)) ->
  swo_check (sort_cmp repaired flag) l = true.
Proof.
  intros flag l [H | [H | [tys H]]];
    [apply swo_strings | apply swo_scalars | eapply swo_rows]; eauto.
Qed.
Print Assumptions C09_sort_cmp_strict_weak.

Theorem C09_sort_cmp_refuted :
  sort_cmp as_is false (VArr [VNum (FFin 0)]) (VArr [VNum (FFin 0)]) = Some true /\
  sort_model as_is [VArr [VNum (FFin 0)]; VArr [VNum (FFin SCALE)]] false
    = UB "std::sort: the comparator is not a strict weak ordering on the elements" /\
  sort_model as_is [VNum (FFin SCALE); VNum FNan; VNum (FFin (2 * SCALE))] true
    = UB "std::sort: the comparator is not a strict weak ordering on the elements".
Proof. destruct sort_cmp_refuted_rows as [A B]. split; [exact A | split; [exact B | exact sort_cmp_refuted_nan]]. Qed.
Print Assumptions C09_sort_cmp_refuted.

Theorem C09_check_type_safe : forall elems tys mn mx, mx <= zlen tys -> check_typeN elems tys mn mx <> None.
Proof. exact check_typeN_safe. Qed.
Print Assumptions C09_check_type_safe.

(* the hypothesis is needed: a type vector shorter than max is read behind its end (no caller does that) *)
Theorem C09_check_type_refuted : check_typeN [VNum FNan; VNum FNan] [TScalar] 0 5 = None.
Proof. exact check_typeN_refuted. Qed.
Print Assumptions C09_check_type_refuted.

Theorem C09_param_safe : forall input d,
  safe (param_model repaired input d) /\ res_ok (zlen input) (param_model repaired input d) /\
  alloc_of (param_model repaired input d) <=
    zlen input + 2 * zlen d + fold_right (fun v a => a + match v with VArr l => zlen l | _ => 0 end) 0 d.
Proof. exact param_safe. Qed.
Print Assumptions C09_param_safe.

Theorem C09_param_refuted :
  param_model as_is [VNum (FFin SCALE)] [VNum (FFin 0); VNum (FFin 0); VArr []; VNum (FFin SCALE)]
    = UB "static_pointer_cast<d_array> of a scalar, then size() and at() on it".
Proof. exact param_refuted. Qed.
Print Assumptions C09_param_refuted.

Theorem C09_params_safe : forall elements fmt, safe (params_model elements fmt).
Proof. exact params_safe. Qed.
Print Assumptions C09_params_safe.

(* format: the scanner ends within |format| + 2 rounds, never indexes behind the terminator, never throws; it
   writes at most (|format| + 1) * (1 + M) bytes, M = the longest printed argument *)
Theorem C09_format_safe : forall args plens M, 0 <= M -> (forall x, In x plens -> 0 <= x <= M) ->
  safe (format_model repaired args plens) /\
  (forall s r, args = VStr s :: r -> alloc_of (format_model repaired args plens) <= (zlen s + 1) + (zlen s + 1) * M) /\
  ((forall s r, args <> VStr s :: r) -> alloc_of (format_model repaired args plens) <= 0).
Proof. exact format_safe. Qed.
Print Assumptions C09_format_safe.

Theorem C09_format_refuted :
  format_model as_is [VStr [37;57;57;57;57;57;57;57;57;57;57;57]] [14] = Throw "std::out_of_range (stoi)".
Proof. exact format_refuted. Qed.
Print Assumptions C09_format_refuted.

Theorem C09_to_string_safe : forall l, safe (to_string repaired l) /\ alloc_of (to_string repaired l) <= zlen l.
Proof. exact to_string_safe. Qed.
Print Assumptions C09_to_string_safe.

Theorem C09_to_string_refuted : to_string as_is [VNum (FFin (10000000000 * SCALE))] = UB_CAST.
Proof. exact to_string_refuted. Qed.
Print Assumptions C09_to_string_refuted.

Theorem C09_to_array_safe : forall len, safe (to_array len) /\ alloc_of (to_array len) <= len.
Proof. exact to_array_safe. Qed.
Print Assumptions C09_to_array_safe.

Theorem C09_split_string_safe : forall l delims,
  tokens_ok (zlen l) (split_string l delims) /\ alloc_of (split_string l delims) <= 3 * zlen l + 2.
Proof. exact split_string_safe. Qed.
Print Assumptions C09_split_string_safe.

Theorem C09_select_minmax_safe : forall elems, zlen elems <= INT_MAX ->
  safe (select_minmax elems) /\ alloc_of (select_minmax elems) <= 0.
Proof. exact select_minmax_safe. Qed.
Print Assumptions C09_select_minmax_safe.

Theorem C09_select_random_safe : forall n r, 0 <= n -> 0 <= r ->
  safe (select_random repaired n r) /\ res_ok n (select_random repaired n r) /\ alloc_of (select_random repaired n r) <= 0.
Proof. exact select_random_safe. Qed.
Print Assumptions C09_select_random_safe.

Theorem C09_select_random_refuted : forall r, select_random as_is 0 r = UB "integer division by zero: rand() % size()".
Proof. exact select_random_refuted. Qed.
Print Assumptions C09_select_random_refuted.

Theorem C09_to_fixed_safe : forall f,
  (exists d, to_fixed_unary repaired f = Ret [] (RNum d) 0 /\ -1 <= d <= 20) /\
  (exists d, to_fixed_binary repaired f = Ret [] (RNum d) (64 + d) /\ 0 <= d <= 20).
Proof. exact to_fixed_safe. Qed.
Print Assumptions C09_to_fixed_safe.

Theorem C09_to_fixed_refuted : to_fixed_unary as_is FPInf = UB_CAST /\ to_fixed_binary as_is FNan = UB_CAST.
Proof. exact to_fixed_refuted. Qed.
Print Assumptions C09_to_fixed_refuted.

(* config iterator: whatever entries were deleted (slots holding invalid_id) and however many remain - none included -
   the walk of configClasses / configProperties visits exactly the remaining entries in order and ends *)
Theorem C09_config_iter_safe : forall children ncont,
  (forall id, In id children -> id = INVALID \/ 0 <= id < ncont) ->
  cfg_iterate repaired children ncont = Ret [] (RWalk (filter cfg_valid children)) (zlen (filter cfg_valid children)).
Proof. exact cfg_iterate_safe. Qed.
Print Assumptions C09_config_iter_safe.

(* as is: a deleted entry is dereferenced; operator++ on an empty class steps to index 1 (size() - 1 wraps) - the
   latter is kept from the operators by their `size() == 0` test *)
Theorem C09_config_iter_refuted :
  cfg_iterate as_is [INVALID; 5] 10 = UB "m_containers[id] / container[m_index]: index out of range" /\
  cfg_next_asis [] 0 = Some 1.
Proof. exact cfg_iterate_refuted. Qed.
Print Assumptions C09_config_iter_refuted.

Theorem C09_from_sqf_safe : forall v, safe (from_sqf repaired v) /\ alloc_of (from_sqf repaired v) <= 2 * zlen v.
Proof. exact from_sqf_safe. Qed.
Print Assumptions C09_from_sqf_safe.

Theorem C09_from_sqf_refuted : from_sqf as_is [] = UB "string_view::operator[]: position out of range".
Proof. exact from_sqf_refuted. Qed.
Print Assumptions C09_from_sqf_refuted.

Theorem C09_asm_make_array_safe : forall arg sf codesize,
  safe (asm_make_array repaired arg sf codesize) /\
  (forall n ds al, asm_make_array repaired arg sf codesize = Ret ds (RNum n) al -> 0 <= n <= codesize).
Proof. exact asm_make_array_safe. Qed.
Print Assumptions C09_asm_make_array_safe.

Theorem C09_asm_make_array_refuted :
  asm_make_array as_is [120] SInvalid 0 = Throw "std::invalid_argument (stof)" /\
  asm_make_array as_is [45;49] (SVal (FFin (- SCALE))) 0 = UB "float-cast-overflow: the value is not representable in size_t".
Proof. exact asm_make_array_refuted. Qed.
Print Assumptions C09_asm_make_array_refuted.

Theorem C09_asm_call_binary_safe : forall registered lower name,
  (forall x, lower (lower x) = lower x) -> safe (asm_call_binary repaired registered lower name).
Proof. exact asm_call_binary_safe. Qed.
Print Assumptions C09_asm_call_binary_safe.

Theorem C09_asm_call_binary_refuted :
  asm_call_binary as_is (fun n => match n with [115] => true | _ => false end) (fun n => [115]) [83]
    = Throw "std::out_of_range (unordered_map::at)".
Proof. exact asm_call_binary_refuted. Qed.
Print Assumptions C09_asm_call_binary_refuted.

Theorem C09_asm_split_safe : forall full a b, asm_split full = Some (a, b) -> zlen a + zlen b <= zlen full.
Proof. exact asm_split_safe. Qed.
Print Assumptions C09_asm_split_safe.

(* the whole decode loop of fromAssembly__ (push arguments excepted: they go to the SQF parser) *)
Theorem C09_from_assembly_safe : forall registered lower l sf,
  (forall x, lower (lower x) = lower x) -> safe (from_assembly repaired registered lower l sf).
Proof. exact from_assembly_safe. Qed.
Print Assumptions C09_from_assembly_safe.

Theorem C09_from_assembly_refuted :
  from_assembly as_is (fun n => match n with [115] => true | _ => false end) (fun n => n)
                [VStr [109;97;107;101;97;114;114;97;121;32;120]] SInvalid
    = Throw "std::invalid_argument (stof)" /\
  from_assembly as_is (fun _ => false) (fun n => n) [VStr [97;115;115;105;103;110;116;111]] SInvalid
    = UB "string_view::operator[]: position out of range".
Proof. exact from_assembly_refuted. Qed.
Print Assumptions C09_from_assembly_refuted.

(* BOM sniff of read_file_from_disk: no read behind the buffer and never more bytes skipped than the file has, for
   every file content *)
Theorem C09_bom_safe : forall b, exists k, bom_model repaired b = BSkip k /\ 0 <= k <= zlen b.
Proof. exact bom_safe. Qed.
Print Assumptions C09_bom_safe.

Theorem C09_bom_refuted :
  bom_model as_is [239] = BUB /\ bom_model as_is [0; 0] = BUB /\ bom_model as_is [251; 238; 40] = BUB.
Proof. exact bom_refuted. Qed.
Print Assumptions C09_bom_refuted.

(* ================================================================================================================ *)
(* (b), second list: Ops/Guards2.v.  These operators needed no repair: the theorems are about the code as it is.
   Each says: for ALL arguments the guard model ends in Ret - no undefined behaviour (no out-of-range operator[], no
   downcast of an element to a class it is not), no exception leaving the operator (no vector::at out of range) -
   and names the result class and the allocation. *)

(* is_matrix never throws and never casts wrongly; when it says yes, the array is a rows x cols block of numbers *)
Theorem C09_is_matrix_safe : forall arr,
  is_matrix arr <> AThrow /\ is_matrix arr <> AUB /\ (is_matrix arr = AOk -> exists cols, matrix_shape arr cols).
Proof. intro arr. destruct (is_matrix_defined arr) as [A B]. split; [exact A | split; [exact B | exact (is_matrix_shape arr)]]. Qed.
Print Assumptions C09_is_matrix_safe.

(* matrixTranspose: [] or, for a rows x cols block of numbers, a cols x rows array; nothing else *)
Theorem C09_matrix_transpose_safe : forall l,
  matrix_transpose l = Ret [] (RShape 0 0) 0 \/
  exists cols, matrix_shape l cols /\ matrix_transpose l = Ret [] (RShape cols (zlen l)) (cols + cols * zlen l).
Proof. exact matrix_transpose_safe. Qed.
Print Assumptions C09_matrix_transpose_safe.

(* matrixMultiply: [] or, for n x k and k x m blocks of numbers, an n x m array *)
Theorem C09_matrix_multiply_safe : forall l r,
  matrix_multiply l r = Ret [] (RShape 0 0) 0 \/
  exists k m, matrix_shape l k /\ matrix_shape r m /\ k = zlen r /\
              matrix_multiply l r = Ret [] (RShape (zlen l) m) (zlen l + zlen l * m).
Proof. exact matrix_multiply_safe. Qed.
Print Assumptions C09_matrix_multiply_safe.

(* the is_matrix test is what keeps the bodies defined (the code before repair 46cfd3b had only a test of row 0) *)
Theorem C09_matrix_unguarded_refuted :
  transpose_body [VArr [VNum (FFin 0)]; VNum (FFin 0)]
    = UB "data<T>() of an element of another type (static_pointer_cast to the wrong class)" /\
  transpose_body [VArr [VStr []]]
    = UB "data<T>() of an element of another type (static_pointer_cast to the wrong class)" /\
  multiply_body [VArr [VNum (FFin 0)]] [VArr [VBool true]]
    = UB "data<T>() of an element of another type (static_pointer_cast to the wrong class)".
Proof. exact matrix_unguarded_refuted. Qed.
Print Assumptions C09_matrix_unguarded_refuted.

(* the vector operators: a value comes back only for three numbers (in both operands), without a diagnostic *)
Theorem C09_vec3_unary_safe : forall k l,
  safe (vec3_unary k l) /\ alloc_of (vec3_unary k l) <= 3 /\
  (forall ds v al, vec3_unary k l = Ret ds v al -> v <> RNil -> zlen l = 3 /\ all_num l /\ ds = []).
Proof. exact vec3_unary_safe. Qed.
Print Assumptions C09_vec3_unary_safe.

Theorem C09_vec3_binary_safe : forall k l r,
  safe (vec3_binary k l r) /\ alloc_of (vec3_binary k l r) <= 3 /\
  (forall ds v al, vec3_binary k l r = Ret ds v al -> v <> RNil -> zlen l = 3 /\ all_num l /\ zlen r = 3 /\ all_num r /\ ds = []).
Proof. exact vec3_binary_safe. Qed.
Print Assumptions C09_vec3_binary_safe.

(* IF then ARRAY: the element that is run exists, is the one the condition selects, and is code *)
Theorem C09_then_if_array_safe : forall cond arr,
  safe (then_if_array cond arr) /\ res_ok (zlen arr) (then_if_array cond arr) /\ alloc_of (then_if_array cond arr) <= zlen arr /\
  (forall ds i al, then_if_array cond arr = Ret ds (RElem i) al ->
     i = (if cond then 0 else 1) /\ exists v, nth_error arr (Z.to_nat i) = Some v /\ is_code v = true).
Proof. exact then_if_array_safe. Qed.
Print Assumptions C09_then_if_array_safe.

Theorem C09_private_array_safe : forall arr, safe (private_array arr) /\ alloc_of (private_array arr) <= zlen arr.
Proof. exact private_array_safe. Qed.
Print Assumptions C09_private_array_safe.

Theorem C09_ns_getvar_safe : forall found r,
  safe (ns_getvar found r) /\ res_ok (zlen r) (ns_getvar found r) /\ alloc_of (ns_getvar found r) <= 0.
Proof. exact ns_getvar_safe. Qed.
Print Assumptions C09_ns_getvar_safe.

Theorem C09_ns_setvar_safe : forall r,
  safe (ns_setvar r) /\ res_ok (zlen r) (ns_setvar r) /\ alloc_of (ns_setvar r) <= 0.
Proof. exact ns_setvar_safe. Qed.
Print Assumptions C09_ns_setvar_safe.

(* markers: a position / size is stored only from two (three) numbers of an existing marker *)
Theorem C09_set_marker_pos_safe : forall ex arr,
  safe (set_marker_pos ex arr) /\ alloc_of (set_marker_pos ex arr) <= 0 /\
  (forall ds k n al, set_marker_pos ex arr = Ret ds (RStored k n) al -> ex = true /\ 2 <= zlen arr <= 3 /\ all_num arr /\ k = zlen arr - 1).
Proof. exact set_marker_pos_safe. Qed.
Print Assumptions C09_set_marker_pos_safe.

Theorem C09_set_marker_size_safe : forall ex arr,
  safe (set_marker_size ex arr) /\ alloc_of (set_marker_size ex arr) <= 0 /\
  (forall ds k n al, set_marker_size ex arr = Ret ds (RStored k n) al -> ex = true /\ zlen arr = 2 /\ all_num arr).
Proof. exact set_marker_size_safe. Qed.
Print Assumptions C09_set_marker_size_safe.

Theorem C09_create_marker_safe : forall nullobj ex arr,
  safe (create_marker nullobj ex arr) /\ alloc_of (create_marker nullobj ex arr) <= zlen arr.
Proof. exact create_marker_safe. Qed.
Print Assumptions C09_create_marker_safe.

(* CONFIG select SCALAR: for every float and every class (deleted entries included) the answer is configNull or one
   of the slots of the class *)
Theorem C09_cfg_select_safe : forall null children f,
  safe (cfg_select repaired null children f) /\ alloc_of (cfg_select repaired null children f) <= 0 /\
  (forall ds id al, cfg_select repaired null children f = Ret ds (RNum id) al -> null = false /\ ds = [] /\ In id children).
Proof. exact cfg_select_safe. Qed.
Print Assumptions C09_cfg_select_safe.

(* with plain casts (the code before repair 370eb9e) the index conversion is undefined for NaN *)
Theorem C09_cfg_select_refuted : cfg_select as_is false [1; 2] FNan = UB_CAST.
Proof. reflexivity. Qed.
Print Assumptions C09_cfg_select_refuted.

(* callExtension with an argument array: the extension is reached only with a string name and at most RVARGSLIMIT
   arguments of the four printable types; the buffers are bounded whatever the array holds *)
Theorem C09_callext_args_safe : forall hp ld rvec,
  safe (callext_args hp ld rvec) /\
  alloc_of (callext_args hp ld rvec) <= CALLEXTBUFFSIZE + 2 * RVARGSLIMIT + 2 /\
  (forall ds al, callext_args hp ld rvec = Ret ds ROther al -> hp = true \/
     (ld = true /\ exists name v1, at_ rvec 0 = Some (VStr name) /\ at_ rvec 1 = Some v1 /\
        forall a, In a (match v1 with VArr l => l | v => [v] end) -> ext_arg_ok a = true)).
Proof. exact callext_args_safe. Qed.
Print Assumptions C09_callext_args_safe.

(* ---------------------------------------------------------------------------------------------------------------- *)
(* non-vacuity: the repaired models do real work on the witnesses of the refutations and on ordinary arguments *)
Example ex_select_scalar : select_scalar repaired 3 (FFin (3 * SCALE / 2)) = Ret [] (RElem 2) 3.
Proof. vm_compute. reflexivity. Qed.
Example ex_select_scalar_huge : select_scalar repaired 3 (FFin (100000000000000000000 * SCALE)) = Ret [IndexOutOfRange] RNil 3.
Proof. vm_compute. reflexivity. Qed.
Example ex_select_range : select_range repaired 200 [VNum (FFin (200 * SCALE)); VNum (FFin (2147483520 * SCALE))]
                          = Ret [] (RSlice 200 0) 202.
Proof. vm_compute. reflexivity. Qed.
Example ex_select_range2 : select_range repaired 5 [VNum (FFin SCALE); VNum (FFin (2 * SCALE))] = Ret [] (RSlice 1 2) 9.
Proof. vm_compute. reflexivity. Qed.
Example ex_sort_rows : sort_model repaired [VArr [VNum (FFin 0)]; VArr [VNum (FFin SCALE)]] false = Ret [] ROther 3.
Proof. vm_compute. reflexivity. Qed.
Example ex_sort_nan : sort_model repaired [VNum (FFin SCALE); VNum FNan; VNum (FFin (2 * SCALE))] true = Ret [] ROther 0.
Proof. vm_compute. reflexivity. Qed.
Example ex_format : format_model repaired [VStr [97;37;49;98;37;50]; VNum (FFin (5 * SCALE))] [6; 1]
                    = Ret [IndexOutOfRangeWeak] ROther 3.
Proof. vm_compute. reflexivity. Qed.
Example ex_format_long : format_model repaired [VStr [37;57;57;57;57;57;57;57;57;57;57;57]] [14] = Ret [IndexOutOfRangeWeak] ROther 0.
Proof. vm_compute. reflexivity. Qed.
Example ex_param : param_model repaired [VNum (FFin SCALE)] [VNum (FFin 0); VNum (FFin 0); VArr []; VNum (FFin SCALE)]
                   = Ret [] (RElem 0) 5.
Proof. vm_compute. reflexivity. Qed.
Example ex_split : split_string [97;44;98;44;44;99] [44] = Ret [] (RTokens [(0,1); (2,1); (5,1)]) 12.
Proof. vm_compute. reflexivity. Qed.
Example ex_cfg : cfg_iterate repaired [INVALID; 5; INVALID; 7] 10 = Ret [] (RWalk [5; 7]) 2.
Proof. vm_compute. reflexivity. Qed.
Example ex_bom : bom_model repaired [239; 187; 191; 97] = BSkip 3 /\ bom_model repaired [239] = BSkip 0.
Proof. split; vm_compute; reflexivity. Qed.
Example ex_delete_range : delete_range repaired 3 [VNum (FFin SCALE); VNum (FFin (100000000000000000000 * SCALE))]
                          = Ret [IndexOutOfRangeWeak] (RErased 1 2) 2.
Proof. vm_compute. reflexivity. Qed.
Example ex_transpose : matrix_transpose [VArr [VNum (FFin 0); VNum (FFin SCALE)]; VArr [VNum FNan; VNum FPInf]; VArr [VNum (FFin 0); VNum (FFin 0)]]
                       = Ret [] (RShape 2 3) 8.
Proof. vm_compute. reflexivity. Qed.
Example ex_transpose_ragged : matrix_transpose [VArr [VNum (FFin 0); VNum (FFin SCALE)]; VArr [VNum FNan]] = Ret [] (RShape 0 0) 0.
Proof. vm_compute. reflexivity. Qed.
Example ex_multiply : matrix_multiply [VArr [VNum (FFin 0); VNum (FFin SCALE)]] [VArr [VNum (FFin 0)]; VArr [VNum (FFin 0)]] = Ret [] (RShape 1 1) 2.
Proof. vm_compute. reflexivity. Qed.
Example ex_multiply_unguarded_witness : matrix_multiply [VArr [VNum (FFin 0)]] [VArr [VBool true]] = Ret [] (RShape 0 0) 0.
Proof. vm_compute. reflexivity. Qed.
Example ex_vec3 : vec3_binary VkAt [VNum (FFin 0); VNum (FFin 0); VNum FNan] [VNum (FFin 0); VNum (FFin 0)] = Ret [ExpectedArraySizeMissmatch] RNil 0.
Proof. vm_compute. reflexivity. Qed.
Example ex_then_if : then_if_array false [VNum (FFin 0); VOther TCODE] = Ret [ExpectedArrayTypeMissmatchWeak] (RElem 1) 2.
Proof. vm_compute. reflexivity. Qed.
Example ex_create_marker : create_marker false false [VStr [109]; VArr [VNum (FFin 0); VNum (FFin 0)]] = Ret [ExpectedArrayTypeMissmatch] (RStored 0 1) 2.
Proof. vm_compute. reflexivity. Qed.
Example ex_cfg_select : cfg_select repaired false [5; INVALID; 7] (FFin (5 * SCALE / 2)) = Ret [] (RNum 7) 0.
Proof. vm_compute. reflexivity. Qed.
Example ex_callext : callext_args false false [VStr [102]; VArr [VNum (FFin 0); VOther TOBJECT]] = Ret [ExpectedArrayTypeMissmatch; ReturningErrorCode] (RNum 102) 10244.
Proof. vm_compute. reflexivity. Qed.
