From Coq Require Import ZArith List ExtrOcamlBasic.
From SqfVerif Require Import Syntax.SyntaxDefs.
Extraction Language OCaml.
Extraction "../ocaml/gen/syntax_model.ml" lex classify parse_toks parse_text compile_block postorder_block
  print_raw reconstruct pretty_program pretty_asis_program pieces_text pieces_toks rtok_text as_is repaired
  wfb_stmt strip_stmt lower layout_min.
