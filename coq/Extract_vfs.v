From Coq Require Import ZArith List ExtrOcamlBasic.
From SqfVerif Require Import VFS.VfsDefs.
Extraction Language OCaml.
Extraction "../ocaml/gen/vfs_model.ml" as_is repaired vfs_empty add_mapping add_pbo get_info read_file
  op_loadfile op_preprocess op_execvm op_include cli_pbo_config os_kind
  lexnorm pcomps pjoin parent_path relative_path extension is_rel gsplit trim cleanse split_on.
