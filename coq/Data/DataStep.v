(* C08: every operation of the (repaired) model keeps the heap well formed and acyclic. *)
From Coq Require Import ZArith List ListDec Arith Lia Bool.
From SqfVerif Require Import Data.DataDefs Data.DataGraph Data.DataHeap Data.DataSort.
Import ListNotations.

Lemma mk_good s st ds r : Inv st -> vwf (st_heap st) r -> Good (mk s st ds r).
Proof. intros; split; auto. Qed.
Lemma invalid_good st : Inv st -> Good (invalid st).
Proof. intros; apply mk_good; auto. exact I. Qed.
#[local] Hint Resolve invalid_good : core.

Lemma with1_good st x k : Inv st ->
  (forall st1 v, Inv st1 -> vwf (st_heap st1) v -> gext (st_heap st) (st_heap st1) -> st_vars st1 = st_vars st -> Good (k st1 v)) ->
  Good (with1 st x k).
Proof.
  intros Hi H. unfold with1. destruct (eval_opnd st x) as [[st1 v]|] eqn:E; auto.
  destruct (eval_opnd_good _ _ _ _ Hi E) as (I1 & V1 & G1 & E1). auto.
Qed.
Lemma with2_good st x y k : Inv st ->
  (forall st2 v w, Inv st2 -> vwf (st_heap st2) v -> vwf (st_heap st2) w -> gext (st_heap st) (st_heap st2) ->
                   st_vars st2 = st_vars st -> Good (k st2 v w)) ->
  Good (with2 st x y k).
Proof.
  intros Hi H. unfold with2. apply with1_good; auto. intros st1 v I1 V1 G1 E1.
  destruct (eval_opnd st1 y) as [[st2 w]|] eqn:E; auto.
  destruct (eval_opnd_good _ _ _ _ I1 E) as (I2 & V2 & G2 & E2).
  apply H; auto.
  - eapply vwf_mono; [apply gext_kinds; exact G2|exact V1].
  - eapply gext_trans; eauto.
  - congruence.
Qed.
Lemma of_res_good {A} st (r : res A) k : Inv st -> (forall a, r = Ok a -> Good (k a)) -> Good (of_res st r k).
Proof. intros Hi H. destruct r; cbn; auto; apply mk_good; auto; exact I. Qed.

Lemma assign_result_good st0 dst o : Inv st0 -> Good o -> Good (assign_result st0 dst o).
Proof.
  intros H0 [Ho Vo]. unfold assign_result. destruct (o_status o) eqn:Es; try (split; auto; fail).
  destruct (existsb is_error (o_diags o)); auto.
  destruct (setvar (o_state o) dst (o_result o)) as [st'|] eqn:E; auto.
  apply mk_good; [eapply setvar_good; eauto|exact I].
Qed.

Lemma Forall_firstn_my {A} (P : A -> Prop) n l : Forall P l -> Forall P (firstn n l).
Proof. intros F. apply Forall_forall. intros x H. eapply Forall_forall in F; eauto. eapply In_firstn_my; eauto. Qed.
Lemma Forall_skipn_my {A} (P : A -> Prop) n l : Forall P l -> Forall P (skipn n l).
Proof. intros F. apply Forall_forall. intros x H. eapply Forall_forall in F; eauto. eapply In_skipn_my; eauto. Qed.

Lemma vwf_resize h l n : Forall (vwf h) l -> Forall (vwf h) (resize_list l n).
Proof. intros F. eapply sub_vals_vwf; [apply sub_vals_resize|exact F]. Qed.
Lemma vwf_put h l i v : Forall (vwf h) l -> vwf h v -> Forall (vwf h) (put l i v).
Proof.
  intros F V. unfold put, zfirstn, zskipn. apply Forall_app. split; [apply Forall_firstn_my; auto|].
  constructor; auto. apply Forall_skipn_my; auto.
Qed.
Lemma vnum_noref z b : vnum z <> VRef b. Proof. discriminate. Qed.
Lemma vnil_noref b : VNil <> VRef b. Proof. discriminate. Qed.
#[local] Hint Resolve vnum_noref vnil_noref : core.

Lemma cell_wf st a c : Inv st -> nth_error (st_heap st) a = Some c -> cwf (st_heap st) c.
Proof. intros Hi E. exact (hwf_nth _ _ _ (proj1 (proj1 Hi)) E). Qed.

Lemma upd_arr_shrink_good st a l l' r : Inv st -> nth_error (st_heap st) a = Some (CArr l) -> sub_vals l' l ->
  vwf (st_heap (upd st a (CArr l'))) r -> Good (mk Done (upd st a (CArr l')) [] r).
Proof.
  intros Hi E S V. apply mk_good; auto. eapply Inv_upd_shrink; [exact Hi|exact E|exact I| |].
  - cbn. eapply sub_vals_vwf; eauto. exact (cell_wf _ _ _ Hi E).
  - cbn. apply sub_vals_refs; auto.
Qed.

Lemma vwf_upd_same st a c c' v : nth_error (st_heap st) a = Some c -> same_kind c c' ->
  vwf (st_heap st) v -> vwf (st_heap (upd st a c')) v.
Proof. intros E S V. eapply vwf_mono; [eapply kinds_le_set_nth; eauto|exact V]. Qed.

Lemma key_cells_gext h n : hwf h -> gext h (h ++ repeat CKey n).
Proof.
  intros W. induction n as [|n IH]; cbn; [rewrite app_nil_r; apply gext_refl; auto|].
  replace (CKey :: repeat CKey n) with (repeat CKey n ++ [CKey]).
  - rewrite app_assoc. eapply gext_trans; [exact IH|]. apply gext_alloc_key. apply IH.
  - clear. induction n; cbn; auto. rewrite IHn. reflexivity.
Qed.

Theorem step_good : forall st o, Inv st -> Good (step repaired st o).
Proof.
  intros st o Hi. destruct o; cbn [step].
  - (* set *)
    apply with2_good; auto. intros st2 tv xv I2 Vt Vx G2 E2.
    destruct (arr_of st2 tv) as [[a l]|] eqn:Ea; auto. apply arr_of_nth in Ea. destruct Ea as [-> Ea].
    destruct (Z.ltb (trunc_half idx) 0); [apply mk_good; auto; exact I|].
    cbn [d_set_growth_kept repaired].
    eapply commit_arr_good; eauto; [|apply sub_vals_refl].
    apply vwf_put; auto. pose proof (cell_wf _ _ _ I2 Ea) as Wl. cbn in Wl.
    destruct (Z.leb (zlen l) (trunc_half idx)); auto. apply vwf_resize; auto.
  - (* pushBack *)
    apply with2_good; auto. intros st2 tv xv I2 Vt Vx G2 E2.
    destruct (arr_of st2 tv) as [[a l]|] eqn:Ea; auto. apply arr_of_nth in Ea. destruct Ea as [-> Ea].
    eapply commit_arr_good; eauto; [|apply sub_vals_refl].
    apply Forall_app. split; [exact (cell_wf _ _ _ I2 Ea)|constructor; auto].
  - (* pushBackUnique *)
    apply with2_good; auto. intros st2 tv xv I2 Vt Vx G2 E2.
    destruct (arr_of st2 tv) as [[a l]|] eqn:Ea; auto. apply arr_of_nth in Ea. destruct Ea as [-> Ea].
    apply of_res_good; auto. intros r _. destruct r; [apply mk_good; auto; exact I|].
    eapply commit_arr_good; eauto; [|apply sub_vals_refl].
    apply Forall_app. split; [exact (cell_wf _ _ _ I2 Ea)|constructor; auto].
  - (* append *)
    apply with2_good; auto. intros st2 tv xv I2 Vt Vx G2 E2.
    destruct (arr_of st2 tv) as [[a l]|] eqn:Ea; auto. apply arr_of_nth in Ea. destruct Ea as [-> Ea].
    destruct (arr_of st2 xv) as [[b r]|] eqn:Eb; auto. apply arr_of_nth in Eb. destruct Eb as [-> Eb].
    cbn [d_append_untested repaired].
    eapply commit_arr_good; eauto; [|apply sub_vals_refl].
    apply Forall_app. split; [exact (cell_wf _ _ _ I2 Ea)|exact (cell_wf _ _ _ I2 Eb)].
  - (* deleteAt *)
    apply with1_good; auto. intros st1 tv I1 Vt G1 E1.
    destruct (arr_of st1 tv) as [[a l]|] eqn:Ea; auto. apply arr_of_nth in Ea. destruct Ea as [-> Ea].
    destruct (Z.leb (zlen l) (trunc_half idx)); [apply mk_good; auto; exact I|].
    destruct (Z.ltb (trunc_half idx) 0) eqn:Eneg; [apply mk_good; auto; exact I|].
    destruct (znth l (trunc_half idx)) as [v|] eqn:Ez; [|apply mk_good; auto; exact I].
    eapply upd_arr_shrink_good; eauto; [apply sub_vals_cut|].
    eapply vwf_upd_same; eauto; [exact I|].
    pose proof (cell_wf _ _ _ I1 Ea) as Wl. cbn in Wl. eapply Forall_forall in Wl; [exact Wl|].
    unfold znth in Ez. rewrite Eneg in Ez. eapply nth_error_In; eauto.
  - (* deleteRange *)
    apply with1_good; auto. intros st1 tv I1 Vt G1 E1.
    destruct (arr_of st1 tv) as [[a l]|] eqn:Ea; auto. apply arr_of_nth in Ea. destruct Ea as [-> Ea].
    destruct (Z.ltb (round_half to) (round_half from)).
    + destruct (Z.ltb (round_half from) 0); [apply mk_good; auto; exact I|].
      destruct (Z.leb (zlen l) (round_half from)).
      * destruct (Z.ltb (zlen l - 1 + 1) (round_half from)); cbn [d_delrange_unchecked repaired]; [apply mk_good; auto; exact I|].
        eapply upd_arr_shrink_good; eauto; [apply sub_vals_cut|exact I].
      * destruct (Z.ltb (round_half from + 1) (round_half from)); cbn [d_delrange_unchecked repaired]; [apply mk_good; auto; exact I|].
        eapply upd_arr_shrink_good; eauto; [apply sub_vals_cut|exact I].
    + destruct (Z.ltb (round_half from) 0); [apply mk_good; auto; exact I|].
      destruct (Z.leb (zlen l) (round_half to)).
      * destruct (Z.ltb (zlen l - 1 + 1) (round_half from)); cbn [d_delrange_unchecked repaired]; [apply mk_good; auto; exact I|].
        eapply upd_arr_shrink_good; eauto; [apply sub_vals_cut|exact I].
      * destruct (Z.ltb (round_half to + 1) (round_half from)); cbn [d_delrange_unchecked repaired]; [apply mk_good; auto; exact I|].
        eapply upd_arr_shrink_good; eauto; [apply sub_vals_cut|exact I].
  - (* resize *)
    apply with1_good; auto. intros st1 tv I1 Vt G1 E1.
    destruct (arr_of st1 tv) as [[a l]|] eqn:Ea; auto. apply arr_of_nth in Ea. destruct Ea as [-> Ea].
    destruct (Z.ltb n 0).
    + cbn [d_resize_unchecked repaired negb orb]. rewrite Bool.orb_true_r. apply mk_good; auto; exact I.
    + eapply upd_arr_shrink_good; eauto; [apply sub_vals_resize|exact I].
  - (* reverse *)
    apply with1_good; auto. intros st1 tv I1 Vt G1 E1.
    destruct (arr_of st1 tv) as [[a l]|] eqn:Ea; auto. apply arr_of_nth in Ea. destruct Ea as [-> Ea].
    eapply upd_arr_shrink_good; eauto; [|exact I]. intros x Hx. left. apply in_rev; auto.
  - (* sort *)
    apply with1_good; auto. intros st1 tv I1 Vt G1 E1.
    destruct (arr_of st1 tv) as [[a l]|] eqn:Ea; auto. apply arr_of_nth in Ea. destruct Ea as [-> Ea].
    destruct (Nat.leb (length l) 1); [apply mk_good; auto; exact I|].
    destruct (sortable_nums l); [eapply upd_arr_shrink_good; eauto; [|exact I]; intros x Hx; left; apply In_sort_by in Hx; auto|].
    destruct (sortable_strs l); [eapply upd_arr_shrink_good; eauto; [|exact I]; intros x Hx; left; apply In_sort_by in Hx; auto|].
    apply of_res_good; auto. intros r Er. destruct r as [l'|ds|]; auto.
    + (* a table: the same element references in another order *)
      destruct (sort_table_inv _ _ _ _ Er) as (r0 & tl & row0 & rows & types & _ & _ & _ & _ & _ & _ & _ & ->).
      eapply upd_arr_shrink_good; eauto; [|exact I]. intros x Hx. left. apply In_sort_by in Hx. auto.
    + apply mk_good; auto. exact I.
  - (* assign *)
    apply with1_good; auto. intros st1 v I1 Vv G1 E1. apply assign_result_good; auto. apply mk_good; auto.
  - (* copy *)
    apply with1_good; auto. intros st1 v I1 Vv G1 E1.
    destruct (arr_of st1 v) as [[a l]|] eqn:Ea.
    + apply arr_of_nth in Ea. destruct Ea as [-> Ea].
      apply of_res_good; auto. intros [h' a'] Ec. apply assign_result_good; auto.
      destruct (copy_deep_gext _ _ _ _ _ (proj1 (proj1 I1)) Ec) as [Gc Ia].
      apply mk_good; [apply Inv_gext; auto|]. cbn. apply is_arr_cont; auto.
    + destruct (map_of st1 v) as [[a es]|] eqn:Em; auto. apply map_of_nth in Em. destruct Em as [-> Em].
      destruct (alloc st1 (CMap es)) as [st2 r] eqn:Eal.
      destruct (alloc_good st1 (CMap es) I1) as (I2 & V2 & G2); [exact (cell_wf _ _ _ I1 Em)|discriminate|].
      rewrite Eal in *. cbn [fst snd] in *. apply assign_result_good; auto. apply mk_good; auto.
  - (* concat *)
    apply with2_good; auto. intros st2 v w I2 Vv Vw G2 E2.
    destruct (arr_of st2 v) as [[a l]|] eqn:Ea; auto. apply arr_of_nth in Ea. destruct Ea as [-> Ea].
    destruct (arr_of st2 w) as [[b r]|] eqn:Eb; auto. apply arr_of_nth in Eb. destruct Eb as [-> Eb].
    destruct (alloc st2 (CArr (l ++ r))) as [st3 res] eqn:Eal.
    destruct (alloc_good st2 (CArr (l ++ r)) I2) as (I3 & V3 & G3); [|discriminate|].
    { cbn. apply Forall_app. split; [exact (cell_wf _ _ _ I2 Ea)|exact (cell_wf _ _ _ I2 Eb)]. }
    rewrite Eal in *. cbn [fst snd] in *. apply assign_result_good; auto. apply mk_good; auto.
  - (* minus *)
    apply with2_good; auto. intros st2 v w I2 Vv Vw G2 E2.
    destruct (arr_of st2 v) as [[a l]|] eqn:Ea; auto. apply arr_of_nth in Ea. destruct Ea as [-> Ea].
    destruct (arr_of st2 w) as [[b r]|] eqn:Eb; auto. apply arr_of_nth in Eb. destruct Eb as [-> Eb].
    apply of_res_good; auto. intros marks Em.
    destruct (alloc st2 (CArr (map snd (filter fst marks)))) as [st3 res] eqn:Eal.
    destruct (alloc_good st2 (CArr (map snd (filter fst marks))) I2) as (I3 & V3 & G3); [|discriminate|].
    { cbn. pose proof (cell_wf _ _ _ I2 Ea) as Wl. cbn in Wl.
      assert (M: forall xs ms, Forall (vwf (st_heap st2)) xs ->
                 res_map (fun e => rbind (find_index (st_heap st2) r e)
                                     (fun o => Ok (match o with Some _ => false | None => true end, e))) xs = Ok ms ->
                 Forall (fun m => vwf (st_heap st2) (snd m)) ms).
      { induction xs as [|q xs IHx]; intros ms F R; cbn in R.
        - inversion R; constructor.
        - destruct (find_index (st_heap st2) r q); try discriminate. cbn in R.
          match type of R with match ?rm with _ => _ end = _ => destruct rm as [ys| |] eqn:Ey; try discriminate end.
          inversion R; subst. inversion F; subst. constructor; auto. }
      specialize (M l marks Wl Em).
      apply Forall_forall. intros z Hx. apply in_map_iff in Hx. destruct Hx as (m & <- & Hm).
      apply filter_In in Hm. eapply Forall_forall in M; [exact M|apply Hm]. }
    rewrite Eal in *. cbn [fst snd] in *. apply assign_result_good; auto. apply mk_good; auto.
  - (* select range *)
    apply with1_good; auto. intros st1 v I1 Vv G1 E1.
    destruct (arr_of st1 v) as [[a l]|] eqn:Ea; auto. apply arr_of_nth in Ea. destruct Ea as [-> Ea].
    assert (Emp: forall ds, Good (let '(st2, res) := alloc st1 (CArr []) in assign_result st dst (mk Done st2 ds res))).
    { intros ds. destruct (alloc st1 (CArr [])) as [st2 res] eqn:Eal.
      destruct (alloc_good st1 (CArr []) I1) as (I3 & V3 & G3); [constructor|discriminate|].
      rewrite Eal in *. cbn [fst snd] in *. apply assign_result_good; auto. apply mk_good; auto. }
    destruct (Z.ltb (round_half start) 0); [apply Emp|].
    destruct (Z.ltb (zlen l) (round_half start)); [apply Emp|].
    destruct (Z.ltb (round_half len) 0); [apply Emp|].
    destruct (alloc st1 (CArr (zfirstn (round_half len) (zskipn (round_half start) l)))) as [st2 res] eqn:Eal.
    destruct (alloc_good st1 (CArr (zfirstn (round_half len) (zskipn (round_half start) l))) I1) as (I3 & V3 & G3); [|discriminate|].
    { cbn. apply Forall_firstn_my, Forall_skipn_my. exact (cell_wf _ _ _ I1 Ea). }
    rewrite Eal in *. cbn [fst snd] in *. apply assign_result_good; auto. apply mk_good; auto.
  - (* createHashMap *)
    destruct (alloc st (CMap [])) as [st2 res] eqn:Eal.
    destruct (alloc_good st (CMap []) Hi) as (I3 & V3 & G3); [constructor|discriminate|].
    rewrite Eal in *. cbn [fst snd] in *. apply assign_result_good; auto. apply mk_good; auto.
  - (* createHashMapFromArray *)
    apply with1_good; auto. intros st1 v I1 Vv G1 E1.
    destruct (arr_of st1 v) as [[a l]|] eqn:Ea; auto. apply arr_of_nth in Ea. destruct Ea as [-> Ea].
    apply of_res_good; auto. intros r Er. destruct r as [[[n es] ds]|]; auto.
    cbn [fst snd].
    assert (M: forall xs n0 es0 ds0 n1 es1 ds1, Forall (vwf (st_heap st1)) xs ->
               Forall (fun e : tree * nat * value => vwf (st_heap st1) (snd e)) es0 ->
               mfa_go st1 xs n0 es0 ds0 = Ok (Some (n1, es1, ds1)) ->
               Forall (fun e : tree * nat * value => vwf (st_heap st1) (snd e)) es1).
    { induction xs as [|q xs IHx]; intros n0 es0 ds0 n1 es1 ds1 F F0 R; cbn [mfa_go] in R.
      - inversion R; subst; auto.
      - inversion F as [|? ? Fx Fxs]; subst.
        destruct (arr_of st1 q) as [[b [|k [|y [|z rest]]]]|] eqn:Eb; try (eapply IHx; eauto; fail).
        destruct (key_of st1 k) as [kt| |]; try discriminate.
        destruct (key_ok kt); [|discriminate].
        eapply IHx; [exact Fxs| |exact R]. apply dict_set_vwf; auto.
        apply arr_of_nth in Eb. destruct Eb as [-> Eb].
        pose proof (cell_wf _ _ _ I1 Eb) as Wb. cbn in Wb. inversion Wb as [|? ? _ Wb']; subst. inversion Wb'; subst; auto. }
    specialize (M l O [] [] n es ds (cell_wf _ _ _ I1 Ea) (Forall_nil _) Er).
    set (st1' := {| st_heap := st_heap st1 ++ repeat CKey n; st_vars := st_vars st1 |}).
    assert (Gk: gext (st_heap st1) (st_heap st1')) by (apply key_cells_gext; apply I1).
    assert (I1': Inv st1') by (apply (Inv_gext st1 _ I1 Gk)).
    destruct (alloc st1' (CMap es)) as [st2 res] eqn:Eal.
    destruct (alloc_good st1' (CMap es) I1') as (I3 & V3 & G3); [|discriminate|].
    { cbn. eapply Forall_mono_kinds; [apply gext_kinds; exact Gk|exact M]. }
    rewrite Eal in *. cbn [fst snd] in *. apply assign_result_good; auto. apply mk_good; auto.
  - (* keys *)
    apply with1_good; auto. intros st1 v I1 Vv G1 E1.
    destruct (map_of st1 v) as [[a es]|] eqn:Em; auto. apply map_of_nth in Em. destruct Em as [-> Em].
    match goal with |- Good (if negb (distinct_prints (map _ ?s)) then _ else _) => set (sorted := s) end.
    destruct (negb (distinct_prints (map (print_tree true) sorted))); auto.
    assert (F: forall ks h0 h2 vs, hwf h0 -> thaw_list h0 ks = (h2, vs) -> gext h0 h2 /\ Forall (vwf h2) vs).
    { induction ks as [|k ks IHk]; intros h0 h2 vs W0 R; cbn in R.
      - inversion R; subst. split; [apply gext_refl; auto|constructor].
      - destruct (thaw h0 k) as [h' kv] eqn:Et. destruct (thaw_gext _ _ _ _ W0 Et) as [Gt Vt].
        destruct (thaw_list h' ks) as [h3 vs3] eqn:Er. inversion R; subst h2 vs.
        destruct (IHk h' h3 vs3 (proj1 (proj2 Gt)) Er) as [G2 V2].
        split; [eapply gext_trans; eauto|]. constructor; auto. eapply vwf_mono; [apply gext_kinds; exact G2|exact Vt]. }
    destruct (thaw_list (st_heap st1) sorted) as [h2 ks] eqn:Ef.
    destruct (F sorted (st_heap st1) h2 ks (proj1 (proj1 I1)) Ef) as [G2 V2].
    set (st2 := {| st_heap := h2; st_vars := st_vars st1 |}).
    assert (I2: Inv st2) by (apply (Inv_gext st1 _ I1 G2)).
    destruct (alloc st2 (CArr ks)) as [st3 res] eqn:Eal.
    destruct (alloc_good st2 (CArr ks) I2) as (I3 & V3 & G3); [exact V2|discriminate|].
    rewrite Eal in *. cbn [fst snd] in *. apply assign_result_good; auto. apply mk_good; auto.
  - (* get to *)
    apply with2_good; auto. intros st2 mv kv I2 Vm Vk G2 E2.
    destruct (map_of st2 mv) as [[a es]|] eqn:Em; auto. apply map_of_nth in Em. destruct Em as [-> Em].
    apply of_res_good; auto. intros kt _.
    destruct (dict_find es kt) as [e|] eqn:Ef; auto.
    destruct (vnil (snd e)); auto. apply assign_result_good; auto. apply mk_good; auto.
    pose proof (cell_wf _ _ _ I2 Em) as Wm. cbn in Wm. eapply Forall_forall in Wm; [exact Wm|].
    unfold dict_find in Ef. apply find_some in Ef. apply Ef.
  - (* isEqualTo *)
    apply with2_good; auto. intros st2 v w I2 Vv Vw G2 E2. apply of_res_good; auto. intros b _. apply mk_good; auto. exact I.
  - (* == *)
    apply with2_good; auto. intros st2 v w I2 Vv Vw G2 E2.
    destruct v, w; auto; apply mk_good; auto; exact I.
  - (* find *)
    apply with2_good; auto. intros st2 v w I2 Vv Vw G2 E2.
    destruct (arr_of st2 v) as [[a l]|]; auto. apply of_res_good; auto. intros r _. apply mk_good; auto. destruct r; exact I.
  - (* in *)
    apply with2_good; auto. intros st2 v w I2 Vv Vw G2 E2.
    destruct (arr_of st2 w) as [[a l]|].
    + apply of_res_good; auto. intros r _. apply mk_good; auto. exact I.
    + destruct (map_of st2 w) as [[a es]|]; auto. apply of_res_good; auto. intros r _. apply mk_good; auto. exact I.
  - (* count *)
    apply with1_good; auto. intros st1 v I1 Vv G1 E1.
    destruct (arr_of st1 v) as [[a l]|]; [apply mk_good; auto; exact I|].
    destruct (map_of st1 v) as [[a es]|]; auto. apply mk_good; auto; exact I.
  - (* get *)
    apply with2_good; auto. intros st2 mv kv I2 Vm Vk G2 E2.
    destruct (map_of st2 mv) as [[a es]|] eqn:Em; auto. apply map_of_nth in Em. destruct Em as [-> Em].
    apply of_res_good; auto. intros kt _. apply mk_good; auto.
    destruct (dict_find es kt) as [e|] eqn:Ef; [|exact I].
    pose proof (cell_wf _ _ _ I2 Em) as Wm. cbn in Wm. eapply Forall_forall in Wm; [exact Wm|].
    unfold dict_find in Ef. apply find_some in Ef. apply Ef.
  - (* map set *)
    apply with2_good; auto. intros st2 mv kv I2 Vm Vk G2 E2.
    destruct (eval_opnd st2 x) as [[st3 xv]|] eqn:Ex; auto.
    destruct (eval_opnd_good _ _ _ _ I2 Ex) as (I3 & Vx & G3 & E3).
    destruct (map_of st3 mv) as [[a es]|] eqn:Em; auto. apply map_of_nth in Em. destruct Em as [-> Em].
    apply of_res_good; auto. intros kt _.
    destruct (negb (key_ok kt)); auto.
    destruct (alloc st3 CKey) as [st4 rk] eqn:Eal. unfold alloc in Eal. inversion Eal; subst st4 rk. clear Eal.
    set (st4 := {| st_heap := st_heap st3 ++ [CKey]; st_vars := st_vars st3 |}).
    assert (G4: gext (st_heap st3) (st_heap st4)) by (apply gext_alloc_key; apply I3).
    assert (I4: Inv st4) by (apply (Inv_gext st3 _ I3 G4)).
    eapply commit_map_good; eauto.
    + cbn. rewrite nth_error_app1; [exact Em|]. apply nth_error_Some. congruence.
    + apply dict_set_vwf.
      * eapply Forall_mono_kinds; [apply gext_kinds; exact G4|]. exact (cell_wf _ _ _ I3 Em).
      * eapply vwf_mono; [apply gext_kinds; exact G4|exact Vx].
  - (* map deleteAt *)
    apply with2_good; auto. intros st2 mv kv I2 Vm Vk G2 E2.
    destruct (map_of st2 mv) as [[a es]|] eqn:Em; auto. apply map_of_nth in Em. destruct Em as [-> Em].
    apply of_res_good; auto. intros kt _.
    destruct (dict_find es kt) as [e|] eqn:Ef; [|apply mk_good; auto; exact I].
    pose proof (cell_wf _ _ _ I2 Em) as Wm. cbn in Wm.
    apply mk_good.
    + eapply Inv_upd_shrink; [exact I2|exact Em|exact I| |].
      * cbn. apply dict_del_vwf; auto.
      * cbn. apply map_snd_refs_incl. intros e0 H0. exists e0. split; auto. eapply dict_del_sub; eauto.
    + eapply vwf_upd_same; eauto; [exact I|]. eapply Forall_forall in Wm; [exact Wm|].
      unfold dict_find in Ef. apply find_some in Ef. apply Ef.
Qed.
Print Assumptions step_good.
