(* C07 / C08: remaining lemmas about the operator layer - refused insertions, index rules,
   the defects of the unrepaired code as refutations with witnesses. *)
From Coq Require Import ZArith List ListDec Arith Lia Bool.
From SqfVerif Require Import Data.DataDefs Data.DataGraph Data.DataHeap Data.DataSort Data.DataStep Data.DataTerm Data.DataFrame.
Import ListNotations.
Local Open Scope Z_scope.

Lemma set_nth_same {A} (l : list A) n x : nth_error l n = Some x -> set_nth l n x = l.
Proof. revert n; induction l; destruct n; cbn; intros H; try discriminate; [inversion H; auto|f_equal; auto]. Qed.

Lemma upd_same st a c : nth_error (st_heap st) a = Some c -> upd st a c = st.
Proof. intros E. unfold upd. rewrite set_nth_same by auto. destruct st; reflexivity. Qed.

(* same variables, and every cell that existed keeps its content *)
Definition same_old (st st' : state) : Prop :=
  st_vars st' = st_vars st /\ forall a, (a < length (st_heap st))%nat -> nth_error (st_heap st') a = nth_error (st_heap st) a.

Lemma same_old_refl st : same_old st st. Proof. split; auto. Qed.
Lemma same_old_ext st st1 : st_vars st1 = st_vars st -> (exists e, st_heap st1 = st_heap st ++ e) -> same_old st st1.
Proof. intros V [e E]. split; auto. intros a Ha. rewrite E. apply nth_error_app1; auto. Qed.

Lemma commit_arr_refused st a l l' okres : nth_error (st_heap st) a = Some (CArr l) ->
  In DArrayRecursion (o_diags (commit_arr repaired st a l' l okres)) ->
  o_state (commit_arr repaired st a l' l okres) = st.
Proof.
  intros E. unfold commit_arr. destruct (rec_test repaired (st_heap (upd st a (CArr l'))) a) as [[|]|]; cbn; try tauto.
  intros _. apply upd_same; auto.
Qed.
Lemma commit_map_refused st a es es' : nth_error (st_heap st) a = Some (CMap es) ->
  In DArrayRecursion (o_diags (commit_map repaired st a es' es)) ->
  o_state (commit_map repaired st a es' es) = st.
Proof.
  intros E. unfold commit_map. cbn [d_hset_untested repaired].
  destruct (rec_test repaired (st_heap (upd st a (CMap es'))) a) as [[|]|]; cbn; try tauto.
  intros _. apply upd_same; auto.
Qed.

Ltac evals Hi :=
  repeat match goal with
         | |- context [eval_opnd ?s ?x] =>
             let E := fresh "E" in
             destruct (eval_opnd s x) as [[? ?]|] eqn:E; [|cbn; tauto]
         end.

Lemma no_rec_in ds : ~ In DArrayRecursion ds -> In DArrayRecursion ds -> False. Proof. tauto. Qed.

Ltac norec := cbn [o_diags mk invalid In]; try tauto;
              try (intros [?|?]; try discriminate; try tauto).

Lemma assign_no_rec st0 dst o : ~ In DArrayRecursion (o_diags o) -> ~ In DArrayRecursion (o_diags (assign_result st0 dst o)).
Proof.
  intros H. unfold assign_result. destruct (o_status o); auto.
  destruct (existsb is_error (o_diags o)); [cbn; tauto|].
  destruct (setvar (o_state o) dst (o_result o)); cbn; auto.
Qed.

Theorem refused_insert_unchanged : forall st o, Inv st ->
  In DArrayRecursion (o_diags (step repaired st o)) -> same_old st (o_state (step repaired st o)).
Proof.
  intros st o Hi.
  assert (EX: forall s x s1 v, Inv s -> eval_opnd s x = Some (s1, v) ->
              Inv s1 /\ st_vars s1 = st_vars s /\ exists e, st_heap s1 = st_heap s ++ e).
  { intros s x s1 v Is E. destruct (eval_opnd_good _ _ _ _ Is E) as (I1 & _ & G & V). split; auto. split; auto. apply gext_ext; auto. }
  destruct o; cbn [step]; unfold with2, with1, of_res.
  - destruct (eval_opnd st t) as [[s1 tv]|] eqn:E1; [|cbn; tauto].
    destruct (eval_opnd s1 x) as [[s2 xv]|] eqn:E2; [|cbn; tauto].
    destruct (EX _ _ _ _ Hi E1) as (I1 & V1 & [e1 X1]). destruct (EX _ _ _ _ I1 E2) as (I2 & V2 & [e2 X2]).
    destruct (arr_of s2 tv) as [[a l]|] eqn:Ea; [|cbn; tauto]. apply arr_of_nth in Ea. destruct Ea as [-> Ea].
    destruct (Z.ltb (trunc_half idx) 0); [cbn; intros [?|[]]; discriminate|].
    cbn [d_set_growth_kept repaired]. intros H. rewrite (commit_arr_refused _ _ _ _ _ Ea H).
    apply same_old_ext; [congruence|]. exists (e1 ++ e2). rewrite X2, X1, app_assoc. auto.
  - destruct (eval_opnd st t) as [[s1 tv]|] eqn:E1; [|cbn; tauto].
    destruct (eval_opnd s1 x) as [[s2 xv]|] eqn:E2; [|cbn; tauto].
    destruct (EX _ _ _ _ Hi E1) as (I1 & V1 & [e1 X1]). destruct (EX _ _ _ _ I1 E2) as (I2 & V2 & [e2 X2]).
    destruct (arr_of s2 tv) as [[a l]|] eqn:Ea; [|cbn; tauto]. apply arr_of_nth in Ea. destruct Ea as [-> Ea].
    intros H. rewrite (commit_arr_refused _ _ _ _ _ Ea H).
    apply same_old_ext; [congruence|]. exists (e1 ++ e2). rewrite X2, X1, app_assoc. auto.
  - destruct (eval_opnd st t) as [[s1 tv]|] eqn:E1; [|cbn; tauto].
    destruct (eval_opnd s1 x) as [[s2 xv]|] eqn:E2; [|cbn; tauto].
    destruct (EX _ _ _ _ Hi E1) as (I1 & V1 & [e1 X1]). destruct (EX _ _ _ _ I1 E2) as (I2 & V2 & [e2 X2]).
    destruct (arr_of s2 tv) as [[a l]|] eqn:Ea; [|cbn; tauto]. apply arr_of_nth in Ea. destruct Ea as [-> Ea].
    destruct (find_index (st_heap s2) l xv) as [[i|]| |]; try (cbn; tauto).
    intros H. rewrite (commit_arr_refused _ _ _ _ _ Ea H).
    apply same_old_ext; [congruence|]. exists (e1 ++ e2). rewrite X2, X1, app_assoc. auto.
  - destruct (eval_opnd st t) as [[s1 tv]|] eqn:E1; [|cbn; tauto].
    destruct (eval_opnd s1 x) as [[s2 xv]|] eqn:E2; [|cbn; tauto].
    destruct (EX _ _ _ _ Hi E1) as (I1 & V1 & [e1 X1]). destruct (EX _ _ _ _ I1 E2) as (I2 & V2 & [e2 X2]).
    destruct (arr_of s2 tv) as [[a l]|] eqn:Ea; [|cbn; tauto]. apply arr_of_nth in Ea. destruct Ea as [-> Ea].
    destruct (arr_of s2 xv) as [[b r]|]; [|cbn; tauto]. cbn [d_append_untested repaired].
    intros H. rewrite (commit_arr_refused _ _ _ _ _ Ea H).
    apply same_old_ext; [congruence|]. exists (e1 ++ e2). rewrite X2, X1, app_assoc. auto.
  - destruct (eval_opnd st t) as [[s1 tv]|]; [|cbn; tauto]. destruct (arr_of s1 tv) as [[a l]|]; [|cbn; tauto].
    destruct (Z.leb (zlen l) (trunc_half idx)); [cbn; intros [?|[]]; discriminate|].
    destruct (Z.ltb (trunc_half idx) 0); [cbn; intros [?|[]]; discriminate|].
    destruct (znth l (trunc_half idx)); cbn; tauto.
  - destruct (eval_opnd st t) as [[s1 tv]|]; [|cbn; tauto]. destruct (arr_of s1 tv) as [[a l]|]; [|cbn; tauto].
    destruct (Z.ltb (round_half to) (round_half from));
      (destruct (Z.ltb (round_half from) 0); [cbn; intuition discriminate|]);
      match goal with |- context [Z.leb (zlen l) ?q] => destruct (Z.leb (zlen l) q) end;
      match goal with |- context [Z.ltb ?p (round_half from)] => destruct (Z.ltb p (round_half from)) end;
      cbn; intuition discriminate.
  - destruct (eval_opnd st t) as [[s1 tv]|]; [|cbn; tauto]. destruct (arr_of s1 tv) as [[a l]|]; [|cbn; tauto].
    destruct (Z.ltb n 0); [|cbn; tauto]. cbn [d_resize_unchecked repaired negb]. rewrite Bool.orb_true_r. cbn. intuition discriminate.
  - destruct (eval_opnd st t) as [[s1 tv]|]; [|cbn; tauto]. destruct (arr_of s1 tv) as [[a l]|]; cbn; tauto.
  - destruct (eval_opnd st t) as [[s1 tv]|]; [|cbn; tauto]. destruct (arr_of s1 tv) as [[a l]|]; [|cbn; tauto].
    destruct (Nat.leb (length l) 1); [cbn; tauto|]. destruct (sortable_nums l); [cbn; tauto|]. destruct (sortable_strs l); [cbn; tauto|].
    destruct (sort_table (st_heap s1) asc l) as [[l'|ds|]| |] eqn:Es; try (cbn; tauto).
    cbn. intros H. destruct (sort_table_refused_diags _ _ _ _ Es _ H); discriminate.
  - destruct (eval_opnd st x) as [[s1 v]|]; [|cbn; tauto]. intros H. exfalso. revert H. apply assign_no_rec. cbn; tauto.
  - destruct (eval_opnd st x) as [[s1 v]|]; [|cbn; tauto].
    destruct (arr_of s1 v) as [[a l]|].
    + destruct (copy_deep _ _ a) as [[h' a']| |]; try (cbn; tauto). intros H. exfalso. revert H. apply assign_no_rec. cbn; tauto.
    + destruct (map_of s1 v) as [[a es]|]; [|cbn; tauto]. unfold alloc. intros H. exfalso. revert H. apply assign_no_rec. cbn; tauto.
  - destruct (eval_opnd st x) as [[s1 v]|]; [|cbn; tauto]. destruct (eval_opnd s1 y) as [[s2 w]|]; [|cbn; tauto].
    destruct (arr_of s2 v) as [[a l]|]; [|cbn; tauto]. destruct (arr_of s2 w) as [[b r]|]; [|cbn; tauto].
    unfold alloc. intros H. exfalso. revert H. apply assign_no_rec. cbn; tauto.
  - destruct (eval_opnd st x) as [[s1 v]|]; [|cbn; tauto]. destruct (eval_opnd s1 y) as [[s2 w]|]; [|cbn; tauto].
    destruct (arr_of s2 v) as [[a l]|]; [|cbn; tauto]. destruct (arr_of s2 w) as [[b r]|]; [|cbn; tauto].
    match goal with |- context [res_map ?g l] => destruct (res_map g l) as [marks| |]; try (cbn; tauto) end.
    unfold alloc. intros H. exfalso. revert H. apply assign_no_rec. cbn; tauto.
  - destruct (eval_opnd st x) as [[s1 v]|]; [|cbn; tauto]. destruct (arr_of s1 v) as [[a l]|]; [|cbn; tauto].
    unfold alloc.
    destruct (Z.ltb (round_half start) 0); [intros H; exfalso; revert H; apply assign_no_rec; cbn; intuition discriminate|].
    destruct (Z.ltb (zlen l) (round_half start)); [intros H; exfalso; revert H; apply assign_no_rec; cbn; intuition discriminate|].
    destruct (Z.ltb (round_half len) 0); intros H; exfalso; revert H; apply assign_no_rec; cbn; intuition discriminate.
  - unfold alloc. intros H. exfalso. revert H. apply assign_no_rec. cbn; tauto.
  - destruct (eval_opnd st x) as [[s1 v]|]; [|cbn; tauto]. destruct (arr_of s1 v) as [[a l]|]; [|cbn; tauto].
    destruct (mfa_go s1 l 0%nat [] []) as [[[[n es] ds]|]| |] eqn:Em; try (cbn; tauto).
    unfold alloc. intros H. exfalso. revert H. apply assign_no_rec. cbn [o_diags mk snd].
    (* the loop only reports size / type mismatches *)
    assert (M: forall xs n0 es0 ds0 n1 es1 ds1, mfa_go s1 xs n0 es0 ds0 = Ok (Some (n1, es1, ds1)) ->
               ~ In DArrayRecursion ds0 -> ~ In DArrayRecursion ds1).
    { induction xs as [|q xs IHx]; intros n0 es0 ds0 n1 es1 ds1 R N; cbn [mfa_go] in R.
      - inversion R; subst; auto.
      - destruct (arr_of s1 q) as [[b [|k [|y [|z rest]]]]|];
          try (eapply IHx; [exact R|]; intros Hin; apply in_app_or in Hin; destruct Hin as [?|[?|[]]]; [tauto|discriminate]).
        destruct (key_of s1 k) as [kt| |]; try discriminate. destruct (key_ok kt); [|discriminate]. eapply IHx; eauto. }
    eapply M; eauto.
  - destruct (eval_opnd st m) as [[s1 v]|]; [|cbn; tauto]. destruct (map_of s1 v) as [[a es]|]; [|cbn; tauto].
    match goal with |- context [distinct_prints ?s] => destruct (negb (distinct_prints s)); [cbn; tauto|] end.
    match goal with |- context [thaw_list ?h ?ks] => destruct (thaw_list h ks) as [h2 vs] end.
    unfold alloc. intros H. exfalso. revert H. apply assign_no_rec. cbn; tauto.
  - destruct (eval_opnd st m) as [[s1 v]|]; [|cbn; tauto]. destruct (eval_opnd s1 k) as [[s2 w]|]; [|cbn; tauto].
    destruct (map_of s2 v) as [[a es]|]; [|cbn; tauto]. destruct (key_of s2 w) as [kt| |]; try (cbn; tauto).
    destruct (dict_find es kt) as [e|]; [|cbn; tauto]. destruct (vnil (snd e)); [cbn; tauto|].
    intros H. exfalso. revert H. apply assign_no_rec. cbn; tauto.
  - destruct (eval_opnd st x) as [[s1 v]|]; [|cbn; tauto]. destruct (eval_opnd s1 y) as [[s2 w]|]; [|cbn; tauto].
    destruct (veq _ _ v w) as [b| |]; cbn; tauto.
  - destruct (eval_opnd st x) as [[s1 v]|]; [|cbn; tauto]. destruct (eval_opnd s1 y) as [[s2 w]|]; [|cbn; tauto].
    destruct v, w; cbn; tauto.
  - destruct (eval_opnd st x) as [[s1 v]|]; [|cbn; tauto]. destruct (eval_opnd s1 y) as [[s2 w]|]; [|cbn; tauto].
    destruct (arr_of s2 v) as [[a l]|]; [|cbn; tauto]. destruct (find_index _ l w) as [r| |]; cbn; tauto.
  - destruct (eval_opnd st x) as [[s1 v]|]; [|cbn; tauto]. destruct (eval_opnd s1 y) as [[s2 w]|]; [|cbn; tauto].
    destruct (arr_of s2 w) as [[a l]|]; [destruct (find_index _ l v) as [r| |]; cbn; tauto|].
    destruct (map_of s2 w) as [[a es]|]; [|cbn; tauto]. destruct (key_of s2 v) as [kt| |]; cbn; tauto.
  - destruct (eval_opnd st x) as [[s1 v]|]; [|cbn; tauto]. destruct (arr_of s1 v) as [[a l]|]; [cbn; tauto|].
    destruct (map_of s1 v) as [[a es]|]; cbn; tauto.
  - destruct (eval_opnd st m) as [[s1 v]|]; [|cbn; tauto]. destruct (eval_opnd s1 k) as [[s2 w]|]; [|cbn; tauto].
    destruct (map_of s2 v) as [[a es]|]; [|cbn; tauto]. destruct (key_of s2 w) as [kt| |]; cbn; tauto.
  - destruct (eval_opnd st m) as [[s1 mv]|] eqn:E1; [|cbn; tauto].
    destruct (eval_opnd s1 k) as [[s2 kv]|] eqn:E2; [|cbn; tauto].
    destruct (eval_opnd s2 x) as [[s3 xv]|] eqn:E3; [|cbn; tauto].
    destruct (EX _ _ _ _ Hi E1) as (I1 & V1 & [e1 X1]). destruct (EX _ _ _ _ I1 E2) as (I2 & V2 & [e2 X2]).
    destruct (EX _ _ _ _ I2 E3) as (I3 & V3 & [e3 X3]).
    destruct (map_of s3 mv) as [[a es]|] eqn:Em; [|cbn; tauto]. apply map_of_nth in Em. destruct Em as [-> Em].
    destruct (key_of s3 kv) as [kt| |]; try (cbn; tauto). destruct (negb (key_ok kt)); [cbn; tauto|].
    unfold alloc.
    set (s4 := {| st_heap := st_heap s3 ++ [CKey]; st_vars := st_vars s3 |}).
    assert (E4: nth_error (st_heap s4) a = Some (CMap es)).
    { cbn. rewrite nth_error_app1; auto. apply nth_error_Some. congruence. }
    intros H. rewrite (commit_map_refused _ _ _ _ E4 H).
    apply same_old_ext; [cbn; congruence|]. cbn. exists (e1 ++ e2 ++ e3 ++ [CKey]). rewrite X3, X2, X1, !app_assoc. auto.
  - destruct (eval_opnd st m) as [[s1 v]|]; [|cbn; tauto]. destruct (eval_opnd s1 k) as [[s2 w]|]; [|cbn; tauto].
    destruct (map_of s2 v) as [[a es]|]; [|cbn; tauto]. destruct (key_of s2 w) as [kt| |]; try (cbn; tauto).
    destruct (dict_find es kt); cbn; tauto.
Qed.
Print Assumptions refused_insert_unchanged.

(* ------------------------------------------------------------------ index rules *)
Lemma zlen_nonneg {A} (l : list A) : 0 <= zlen l. Proof. unfold zlen. lia. Qed.

Lemma firstn_exact {A} (a b : list A) n : n = length a -> firstn n (a ++ b) = a.
Proof. intros ->. induction a; cbn; [destruct b; auto|f_equal; auto]. Qed.
Lemma skipn_exact {A} (a b : list A) n : n = length a -> skipn n (a ++ b) = b.
Proof. intros ->. induction a; cbn; auto. Qed.
Lemma repeat_snoc {A} (x : A) k : repeat x (S k) = repeat x k ++ [x].
Proof. induction k; cbn; auto. cbn in IHk. rewrite IHk at 1. reflexivity. Qed.

(* set beyond the end: the array grows, the new slots in between are nil *)
Theorem set_grows_with_nils : forall l i v, zlen l <= i ->
  put (resize_list l (i + 1)) i v = l ++ repeat VNil (Z.to_nat (i - zlen l)) ++ [v].
Proof.
  intros l i v H. pose proof (zlen_nonneg l) as Hl. unfold put, resize_list, zfirstn, zskipn.
  destruct (Z.leb_spec (i + 1) (zlen l)); [lia|].
  replace (Z.to_nat (i + 1 - zlen l)) with (S (Z.to_nat (i - zlen l))) by lia.
  rewrite repeat_snoc. set (A := l ++ repeat VNil (Z.to_nat (i - zlen l))).
  assert (Hlen: length A = Z.to_nat i).
  { unfold A. rewrite app_length, repeat_length. unfold zlen in *. lia. }
  replace (l ++ repeat VNil (Z.to_nat (i - zlen l)) ++ [VNil]) with (A ++ [VNil]) by (unfold A; rewrite app_assoc; auto).
  rewrite firstn_exact by lia.
  replace (Z.to_nat (i + 1)) with (length (A ++ [VNil])) by (rewrite app_length; cbn; lia).
  rewrite skipn_all. unfold A. rewrite <- app_assoc. reflexivity.
Qed.

(* set inside the array: the length stays, slot i holds the value *)
Theorem set_inside : forall l i v, 0 <= i < zlen l ->
  length (put l i v) = length l /\ znth (put l i v) i = Some v.
Proof.
  intros l i v H. unfold put, zfirstn, zskipn, znth, zlen in *.
  assert (Hf: length (firstn (Z.to_nat i) l) = Z.to_nat i) by (rewrite firstn_length; lia).
  split.
  - rewrite !app_length, Hf, skipn_length. cbn. lia.
  - destruct (Z.ltb_spec i 0); [lia|]. rewrite nth_error_app2 by lia. rewrite Hf, Nat.sub_diag. reflexivity.
Qed.

Lemma var_array st n a l : nth_error (st_vars st) n = Some (VRef a) -> nth_error (st_heap st) a = Some (CArr l) ->
  eval_opnd st (OVar n) = Some (st, VRef a) /\ arr_of st (VRef a) = Some (a, l).
Proof. intros V E. cbn. rewrite V. unfold arr_of. rewrite E. auto. Qed.

(* a negative index is rejected with an error and nothing changes *)
Theorem set_negative_rejected_unchanged : forall d st n a l idx m v,
  nth_error (st_vars st) n = Some (VRef a) -> nth_error (st_heap st) a = Some (CArr l) ->
  eval_opnd st (OVar m) = Some (st, v) -> trunc_half idx < 0 ->
  step d st (OpSet (OVar n) idx (OVar m)) = mk Done st [DNegativeIndex] VNil.
Proof.
  intros d st n a l idx m v V E X H. destruct (var_array _ _ _ _ V E) as [E1 E2].
  cbn [step]. unfold with2, with1. rewrite E1, X, E2. destruct (Z.ltb_spec (trunc_half idx) 0); [reflexivity|lia].
Qed.

(* deleteAt: an index at or beyond the end, or a negative one, is rejected with a warning and nothing changes *)
Theorem deleteAt_out_of_range_unchanged : forall d st n a l idx,
  nth_error (st_vars st) n = Some (VRef a) -> nth_error (st_heap st) a = Some (CArr l) ->
  zlen l <= trunc_half idx \/ trunc_half idx < 0 ->
  exists w, (w = DIndexOutOfRangeWeak \/ w = DNegativeIndexWeak) /\
            step d st (OpDeleteAt (OVar n) idx) = mk Done st [w] VNil.
Proof.
  intros d st n a l idx V E H. destruct (var_array _ _ _ _ V E) as [E1 E2].
  cbn [step]. unfold with1. rewrite E1, E2.
  destruct (Z.leb_spec (zlen l) (trunc_half idx)); [eexists; split; [left; reflexivity|reflexivity]|].
  destruct (Z.ltb_spec (trunc_half idx) 0); [eexists; split; [right; reflexivity|reflexivity]|lia].
Qed.

(* deleteAt inside: exactly that element goes, it is the result *)
Theorem deleteAt_inside : forall d st n a l idx,
  nth_error (st_vars st) n = Some (VRef a) -> nth_error (st_heap st) a = Some (CArr l) ->
  0 <= trunc_half idx < zlen l ->
  exists v, znth l (trunc_half idx) = Some v /\
    step d st (OpDeleteAt (OVar n) idx) =
      mk Done (upd st a (CArr (zfirstn (trunc_half idx) l ++ zskipn (trunc_half idx + 1) l))) [] v.
Proof.
  intros d st n a l idx V E H. destruct (var_array _ _ _ _ V E) as [E1 E2].
  cbn [step]. unfold with1. rewrite E1, E2.
  destruct (Z.leb_spec (zlen l) (trunc_half idx)); [lia|]. destruct (Z.ltb_spec (trunc_half idx) 0); [lia|].
  unfold znth. destruct (Z.ltb_spec (trunc_half idx) 0); [lia|].
  destruct (nth_error l (Z.to_nat (trunc_half idx))) as [v|] eqn:En; [eauto|].
  apply nth_error_None in En. unfold zlen in *. lia.
Qed.

(* resize to a negative size is rejected with an error and nothing changes (repaired code) *)
Theorem resize_negative_rejected_unchanged : forall st n a l k,
  nth_error (st_vars st) n = Some (VRef a) -> nth_error (st_heap st) a = Some (CArr l) -> k < 0 ->
  step repaired st (OpResize (OVar n) k) = mk Done st [DNegativeSize] VNil.
Proof.
  intros st n a l k V E H. destruct (var_array _ _ _ _ V E) as [E1 E2].
  cbn [step]. unfold with1. rewrite E1, E2. destruct (Z.ltb_spec k 0); [|lia].
  cbn [d_resize_unchecked repaired negb]. rewrite Bool.orb_true_r. reflexivity.
Qed.
(* ... whereas the unrepaired code converts the negative float to size_t *)
Theorem resize_negative_refuted : exists st k, k < 0 /\
  o_status (step as_is st (OpResize (OVar 0%nat) k)) = Undefined.
Proof. exists {| st_heap := [CArr []]; st_vars := [VRef 0%nat] |}, (-4). split; [lia|reflexivity]. Qed.

(* deleteRange that starts beyond the end leaves the array unchanged (repaired code) *)
Theorem deleteRange_beyond_unchanged : forall st n a l from to,
  nth_error (st_vars st) n = Some (VRef a) -> nth_error (st_heap st) a = Some (CArr l) ->
  zlen l < round_half from -> round_half from <= round_half to ->
  step repaired st (OpDeleteRange (OVar n) from to) = mk Done st [DIndexOutOfRangeWeak] VNil.
Proof.
  intros st n a l from to V E H1 H2. destruct (var_array _ _ _ _ V E) as [E1 E2].
  pose proof (zlen_nonneg l).
  cbn [step]. unfold with1. rewrite E1, E2.
  destruct (Z.ltb_spec (round_half to) (round_half from)); [lia|].
  destruct (Z.ltb_spec (round_half from) 0); [lia|].
  destruct (Z.leb_spec (zlen l) (round_half to)); [|lia].
  destruct (Z.ltb_spec (zlen l - 1 + 1) (round_half from)); [reflexivity|lia].
Qed.
Theorem deleteRange_beyond_refuted : exists st from to,
  o_status (step as_is st (OpDeleteRange (OVar 0%nat) from to)) = Undefined.
Proof. exists {| st_heap := [CArr [VNum (SHalf 2); VNum (SHalf 4)]]; st_vars := [VRef 0%nat] |}, 10, 10. reflexivity. Qed.

(* ------------------------------------------------------------------ the unrepaired code: refutations *)
Local Close Scope Z_scope.

Definition st_one : state := {| st_heap := [CArr [VNum (SHalf 2)]]; st_vars := [VRef 0] |}.
Lemma st_one_inv : Inv st_one.
Proof.
  split; [split|]; cbn.
  - repeat constructor.
  - repeat constructor.
  - intros a C. inversion C as [? ? He|? ? ? He _]; unfold edge, succs in He; destruct a as [|[|a]]; cbn in He; contradiction.
Qed.

(* _a append [_a] : the unrepaired append inserts without the recursion test *)
Theorem acyclic_preserved_refuted_append : exists st o, Inv st /\
  o_status (step as_is st o) = Done /\ ~ HAcyclic (st_heap (o_state (step as_is st o))) /\
  observe (o_state (step as_is st o)) (VRef 0) = OutOfFuel.
Proof.
  exists st_one, (OpAppend (OVar 0) (OWrap 0)). split; [apply st_one_inv|]. split; [reflexivity|]. split; [|reflexivity].
  intros A. apply (A 0). constructor. unfold edge. cbn. auto.
Qed.

Definition st_map : state := {| st_heap := [CMap []]; st_vars := [VRef 0] |}.
Lemma st_map_inv : Inv st_map.
Proof.
  split; [split|]; cbn.
  - repeat constructor.
  - repeat constructor.
  - intros a C. inversion C as [? ? He|? ? ? He _]; unfold edge, succs in He; destruct a as [|[|a]]; cbn in He; contradiction.
Qed.
(* _m set [1, _m] *)
Theorem acyclic_preserved_refuted_hset : exists st o, Inv st /\
  o_status (step as_is st o) = Done /\ ~ HAcyclic (st_heap (o_state (step as_is st o))) /\
  observe (o_state (step as_is st o)) (VRef 0) = OutOfFuel.
Proof.
  exists st_map, (OpMapSet (OVar 0) (OLit (TNum (SHalf 2))) (OVar 0)). split; [apply st_map_inv|]. split; [reflexivity|].
  split; [|reflexivity]. intros A. apply (A 0). constructor. unfold edge. cbn. auto.
Qed.

(* _a pushBack _m where _m holds _a: the unrepaired test does not look into HashMaps *)
Definition st_am : state := {| st_heap := [CArr []; CKey; CMap [(TNum (SHalf 2), 1, VRef 0)]]; st_vars := [VRef 0; VRef 2] |}.
Lemma st_am_inv : Inv st_am.
Proof.
  split; [split|]; cbn.
  - repeat constructor.
  - repeat constructor.
  - intros a C.
    assert (R: forall x y, reach (succs (st_heap st_am)) x y -> x = 2 /\ y = 0).
    { induction 1 as [x y He|x m y He Hr IH]; unfold edge, succs in He; destruct x as [|[|[|x]]]; cbn in He; try contradiction;
        try (destruct x; cbn in He; contradiction).
      - destruct He as [<-|[]]; auto.
      - destruct He as [<-|[]]. destruct IH; discriminate. }
    destruct (R _ _ C) as [-> E]. discriminate.
Qed.
Theorem acyclic_preserved_refuted_via_map : exists st o, Inv st /\
  o_status (step as_is st o) = Done /\ o_diags (step as_is st o) = [] /\
  ~ HAcyclic (st_heap (o_state (step as_is st o))).
Proof.
  exists st_am, (OpPushBack (OVar 0) (OVar 1)). split; [apply st_am_inv|]. split; [reflexivity|]. split; [reflexivity|].
  intros A. apply (A 0). apply (reach_step _ 0 2 0); [|constructor]; unfold edge; cbn; auto.
Qed.

(* a refused set leaves the array grown in the unrepaired code: [] set [3, itself] *)
Theorem refused_insert_unchanged_refuted : exists st o,
  In DArrayRecursion (o_diags (step as_is st o)) /\
  nth_error (st_heap (o_state (step as_is st o))) 0 <> nth_error (st_heap st) 0.
Proof.
  exists {| st_heap := [CArr []]; st_vars := [VRef 0] |}, (OpSet (OVar 0) 6%Z (OVar 0)).
  split; [vm_compute; auto|]. vm_compute. discriminate.
Qed.

(* acyclic_preserved for the repaired code, as a statement about single operations and histories *)
Theorem acyclic_preserved : forall st o, Inv st -> Inv (o_state (step repaired st o)).
Proof. intros st o Hi. apply step_good; auto. Qed.
Print Assumptions set_grows_with_nils.
Print Assumptions acyclic_preserved_refuted_via_map.

(* ------------------------------------------------------------------ HashMap: keys by value, copies independent *)
(* after  m set [k, x]  the map cell holds the entry under the key's value at that moment, and
   every later history that does not work on the map itself - whatever it does to the array
   that was used as key - leaves the cell, hence the entry, exactly as it is *)
Theorem keys_captured_by_value : forall st m k x, Inv st ->
  o_status (step repaired st (OpMapSet m k x)) = Done -> o_diags (step repaired st (OpMapSet m k x)) = [] ->
  let st' := o_state (step repaired st (OpMapSet m k x)) in
  exists a s1 s2 s3 kv xv kt es,
    eval_opnd st m = Some (s1, VRef a) /\ eval_opnd s1 k = Some (s2, kv) /\ eval_opnd s2 x = Some (s3, xv) /\
    key_of s3 kv = Ok kt /\ nth_error (st_heap s3) a = Some (CMap es) /\
    nth_error (st_heap st') a = Some (CMap (dict_set es kt (length (st_heap s3)) xv)) /\
    forall os, untouched repaired a st' os ->
      nth_error (st_heap (run repaired st' os)) a = Some (CMap (dict_set es kt (length (st_heap s3)) xv)).
Proof.
  intros st m k x Hi. pose proof (step_good st (OpMapSet m k x) Hi) as [G' _]. revert G'.
  cbn [step]. unfold with2, with1.
  destruct (eval_opnd st m) as [[s1 mv]|] eqn:E1; [|cbn; discriminate].
  destruct (eval_opnd s1 k) as [[s2 kv]|] eqn:E2; [|cbn; discriminate].
  destruct (eval_opnd s2 x) as [[s3 xv]|] eqn:E3; [|cbn; discriminate].
  destruct (map_of s3 mv) as [[a es]|] eqn:Em; [|cbn; discriminate]. apply map_of_nth in Em. destruct Em as [-> Em].
  destruct (key_of s3 kv) as [kt| |] eqn:Ek; cbn [of_res]; try (cbn; discriminate).
  destruct (negb (key_ok kt)); [cbn; discriminate|].
  unfold alloc, commit_map. cbn [d_hset_untested repaired].
  set (s4 := {| st_heap := st_heap s3 ++ [CKey]; st_vars := st_vars s3 |}).
  assert (La: a < length (st_heap s3)) by (apply nth_error_Some; congruence).
  destruct (rec_test repaired (st_heap (upd s4 a (CMap (dict_set es kt (length (st_heap s3)) xv)))) a) as [[|]|];
    cbn [o_status o_diags o_state mk]; try discriminate.
  intros G' _ _.
  assert (Ec: nth_error (st_heap (upd s4 a (CMap (dict_set es kt (length (st_heap s3)) xv)))) a =
              Some (CMap (dict_set es kt (length (st_heap s3)) xv))).
  { cbn. apply nth_error_set_nth_eq. rewrite app_length. lia. }
  exists a, s1, s2, s3, kv, xv, kt, es. repeat (split; auto).
  intros os U. rewrite run_frame; auto. cbn. rewrite length_set_nth, app_length. lia.
Qed.

(* the entry is found under every key that compares equal to the captured key value *)
Lemma dict_find_after_set es k ka v q :
  (forall e, In e es -> teq q (ekey e) = teq k (ekey e)) -> teq q k = true ->
  exists e, dict_find (dict_set es k ka v) q = Some e /\ snd e = v.
Proof.
  intros C Q. unfold dict_find. induction es as [|e es IH]; cbn.
  - unfold ekey. cbn. rewrite Q. eauto.
  - destruct (teq k (ekey e)) eqn:Ek; cbn.
    + unfold ekey in *. cbn. rewrite (C e (or_introl eq_refl)), Ek. eauto.
    + rewrite (C e (or_introl eq_refl)), Ek. apply IH. intros; apply C; right; auto.
Qed.

(* a copy of a HashMap is a new cell with the same entries; what is done to one of the two
   later does not change the other *)
Theorem copy_independent : forall st n a es dst, Inv st ->
  nth_error (st_vars st) n = Some (VRef a) -> nth_error (st_heap st) a = Some (CMap es) ->
  o_status (step repaired st (OpCopy dst (OVar n))) = Done ->
  let st' := o_state (step repaired st (OpCopy dst (OVar n))) in
  exists r, nth_error (st_vars st') dst = Some (VRef r) /\ r <> a /\
            nth_error (st_heap st') r = Some (CMap es) /\ nth_error (st_heap st') a = Some (CMap es) /\
            (forall os, untouched repaired r st' os -> nth_error (st_heap (run repaired st' os)) r = Some (CMap es)) /\
            (forall os, untouched repaired a st' os -> nth_error (st_heap (run repaired st' os)) a = Some (CMap es)).
Proof.
  intros st n a es dst Hi V E S st'.
  destruct (fresh_results_independent st (OpCopy dst (OVar n)) dst Hi eq_refl S) as (r & Hv & Hl & Hf).
  pose proof (step_good st (OpCopy dst (OVar n)) Hi) as [G' _].
  assert (La: a < length (st_heap st)) by (apply nth_error_Some; congruence).
  (* the content of the new cell *)
  assert (C: nth_error (st_heap st') r = Some (CMap es) /\ nth_error (st_heap st') a = Some (CMap es) /\ r < length (st_heap st')).
  { subst st'. revert S Hv. cbn [step]. unfold with1. cbn [eval_opnd]. rewrite V.
    unfold arr_of, map_of. cbn [st_heap]. rewrite E. unfold alloc. intros S Hv.
    destruct (assign_done _ _ _ _ S eq_refl) as (_ & Hh & Hv'). cbn [o_state o_result mk st_heap] in Hh, Hv'.
    rewrite Hv' in Hv. inversion Hv; subst r. rewrite Hh. split; [|split].
    - rewrite nth_error_app2 by lia. rewrite Nat.sub_diag. reflexivity.
    - rewrite nth_error_app1; auto.
    - rewrite app_length. cbn. lia. }
  destruct C as (Cr & Ca & Lr).
  exists r. split; auto. split; [lia|]. split; auto. split; auto. split.
  - intros os U. rewrite Hf; auto.
  - intros os U. rewrite run_frame; auto. pose proof (step_frame repaired st (OpCopy dst (OVar n)) Hi) as [L _]. fold st' in L. lia.
Qed.
Print Assumptions keys_captured_by_value.
Print Assumptions copy_independent.
