(* C07, value level: isEqualTo / == on trees (tdeq, teq of DataDefs.v) form a partial
   equivalence that is reflexive on values without nil, == differs from isEqualTo by string
   case only, equal values hash equally (with the two hash repairs), and they do not with
   the unrepaired hashes. *)
From Coq Require Import ZArith List Bool Arith Lia Permutation.
From SqfVerif Require Import Data.DataDefs.
Import ListNotations.
Local Open Scope Z_scope.

(* ------------------------------------------------------------------ induction principle *)
Section TreeInd.
  Variable P : tree -> Prop.
  Hypothesis Hnil : P TNil.
  Hypothesis Hnum : forall s, P (TNum s).
  Hypothesis Hbool : forall b, P (TBool b).
  Hypothesis Hstr : forall s, P (TStr s).
  Hypothesis Hcode : forall c, P (TCode c).
  Hypothesis Harr : forall l, Forall P l -> P (TArr l).
  Hypothesis Hmap : forall es, Forall (fun e => P (fst e) /\ P (snd e)) es -> P (TMap es).
  Fixpoint tree_ind' (t : tree) : P t :=
    match t with
    | TNil => Hnil | TNum s => Hnum s | TBool b => Hbool b | TStr s => Hstr s | TCode c => Hcode c
    | TArr l => Harr l ((fix go (l : list tree) : Forall P l :=
                           match l with [] => Forall_nil _ | x :: l' => Forall_cons _ (tree_ind' x) (go l') end) l)
    | TMap es => Hmap es ((fix go (es : list (tree * tree)) : Forall (fun e => P (fst e) /\ P (snd e)) es :=
                             match es with
                             | [] => Forall_nil _
                             | e :: es' => Forall_cons _ (conj (tree_ind' (fst e)) (tree_ind' (snd e))) (go es')
                             end) es)
    end.
End TreeInd.

(* ------------------------------------------------------------------ leaves *)
Ltac case_z := repeat match goal with
                       | |- context [match ?v with Z0 => _ | Zpos _ => _ | Zneg _ => _ end] => destruct v
                       | H : context [match ?v with Z0 => _ | Zpos _ => _ | Zneg _ => _ end] |- _ => destruct v
                       end.
Lemma feq_sym a b : feq a b = feq b a.
Proof. destruct a, b; cbn; auto; try apply Z.eqb_sym; case_z; reflexivity. Qed.
Lemma fzero_feq a b : fzero a = true -> fzero b = true -> feq a b = true.
Proof. destruct a, b; cbn; try discriminate; auto; case_z; cbn; try discriminate; auto. Qed.
Lemma feq_fzero a b : feq a b = true -> fzero a = fzero b.
Proof.
  destruct a, b; cbn; try discriminate; auto; try (intros H; apply Z.eqb_eq in H; subst; reflexivity);
    case_z; cbn; auto; discriminate.
Qed.
Lemma feq_trans a b c : feq a b = true -> feq b c = true -> feq a c = true.
Proof.
  intros H1 H2. pose proof (feq_fzero _ _ H1) as Z1. pose proof (feq_fzero _ _ H2) as Z2.
  destruct (fzero a) eqn:Za.
  - apply fzero_feq; congruence.
  - destruct a, b, c; cbn in *; try discriminate; auto;
      try (apply Z.eqb_eq in H1; apply Z.eqb_eq in H2; apply Z.eqb_eq; congruence);
      case_z; cbn in *; try discriminate; auto.
Qed.
Lemma feq_refl a : feq a a = true.
Proof. destruct a; cbn; auto; apply Z.eqb_refl. Qed.

Lemma streq_eq a b : streq a b = true <-> a = b.
Proof.
  revert b; induction a as [|x a IH]; destruct b as [|y b]; cbn; try (split; congruence).
  rewrite andb_true_iff, Z.eqb_eq, IH. split; [intros [-> ->]; auto|intros H; inversion H; auto].
Qed.
Lemma streq_refl a : streq a a = true. Proof. apply streq_eq; auto. Qed.
Lemma streq_sym a b : streq a b = streq b a.
Proof. destruct (streq a b) eqn:E; [apply streq_eq in E; subst; symmetry; apply streq_refl|].
  destruct (streq b a) eqn:E'; auto. apply streq_eq in E'; subst. rewrite streq_refl in E. discriminate. Qed.
Lemma streq_trans a b c : streq a b = true -> streq b c = true -> streq a c = true.
Proof. rewrite !streq_eq. congruence. Qed.
Lemma streq_ci_sym a b : streq_ci a b = streq_ci b a. Proof. apply streq_sym. Qed.
Lemma streq_ci_trans a b c : streq_ci a b = true -> streq_ci b c = true -> streq_ci a c = true.
Proof. apply streq_trans. Qed.

Lemma ieq_sym a b : ieq a b = ieq b a.
Proof. destruct a, b; cbn; auto; [apply feq_sym|apply streq_sym|rewrite Z.eqb_sym, streq_sym; auto]. Qed.
Lemma ieq_trans a b c : ieq a b = true -> ieq b c = true -> ieq a c = true.
Proof.
  destruct a, b, c; cbn; try discriminate; [apply feq_trans|apply streq_trans|].
  rewrite !andb_true_iff, !Z.eqb_eq. intros [-> H1] [-> H2]. split; auto. eapply streq_trans; eauto.
Qed.
Lemma ieq_refl a : ieq a a = true.
Proof. destruct a; cbn; [apply feq_refl|apply streq_refl|rewrite Z.eqb_refl, streq_refl; auto]. Qed.

Section Forall2b.
  Context {A : Type}.
  Variable f : A -> A -> bool.
  Lemma forall2b_sym_on l1 l2 : (forall x y, In x l1 -> f x y = f y x) -> forall2b f l1 l2 = forall2b f l2 l1.
  Proof.
    revert l2; induction l1 as [|x l1 IH]; destruct l2 as [|y l2]; cbn; auto. intros H.
    rewrite H by auto. rewrite IH; auto.
  Qed.
  Lemma forall2b_trans_on l1 l2 l3 : (forall x y z, In x l1 -> f x y = true -> f y z = true -> f x z = true) ->
    forall2b f l1 l2 = true -> forall2b f l2 l3 = true -> forall2b f l1 l3 = true.
  Proof.
    revert l2 l3; induction l1 as [|x l1 IH]; destruct l2 as [|y l2], l3 as [|z l3]; cbn; auto; try discriminate.
    intros H. rewrite !andb_true_iff. intros [A1 A2] [B1 B2]. split; [eapply H; eauto|eapply IH; eauto].
  Qed.
  Lemma forall2b_refl_on l : (forall x, In x l -> f x x = true) -> forall2b f l l = true.
  Proof. induction l as [|x l IH]; cbn; auto. intros H. rewrite H by auto. rewrite IH; auto. Qed.
  Lemma forall2b_Forall2 l1 l2 : forall2b f l1 l2 = true <-> Forall2 (fun x y => f x y = true) l1 l2.
  Proof.
    revert l2; induction l1 as [|x l1 IH]; destruct l2 as [|y l2]; cbn; split; intros H; try discriminate; auto;
      try (inversion H; fail).
    - apply andb_true_iff in H. destruct H. constructor; auto. apply IH; auto.
    - inversion H; subst. apply andb_true_iff. split; auto. apply IH; auto.
  Qed.
End Forall2b.

Lemma ceq_sym a b : ceq a b = ceq b a.
Proof. apply forall2b_sym_on. intros; apply ieq_sym. Qed.
Lemma ceq_trans a b c : ceq a b = true -> ceq b c = true -> ceq a c = true.
Proof. apply forall2b_trans_on. intros; eapply ieq_trans; eauto. Qed.
Lemma ceq_refl a : ceq a a = true.
Proof. apply forall2b_refl_on. intros; apply ieq_refl. Qed.

(* ------------------------------------------------------------------ matching two entry lists *)
Section Matching.
  Context {A B : Type}.
  Variable R : A -> B -> bool.
  Variable Q : B -> Prop.
  (* no two elements of the list can be matched with the same (Q-)partner *)
  Fixpoint incompat (l : list A) : Prop :=
    match l with
    | [] => True
    | x :: l' => (forall x' y, In x' l' -> Q y -> R x y = true -> R x' y = true -> False) /\ incompat l'
    end.

  Lemma match_perm : forall l1 l2, length l1 = length l2 -> (forall y, In y l2 -> Q y) ->
    (forall x, In x l1 -> exists y, In y l2 /\ R x y = true) -> incompat l1 ->
    exists l2', Permutation l2 l2' /\ Forall2 (fun x y => R x y = true) l1 l2'.
  Proof.
    induction l1 as [|x l1 IH]; intros l2 L HQ H I.
    - destruct l2; [|discriminate]. exists []. split; constructor.
    - destruct (H x (or_introl eq_refl)) as (y0 & Hy0 & Rxy).
      pose proof (HQ _ Hy0) as Qy0.
      apply in_split in Hy0. destruct Hy0 as (p & q & ->).
      destruct I as [I1 I2].
      destruct (IH (p ++ q)) as (l2' & P & F).
      + rewrite app_length in *. cbn in L. lia.
      + intros y Hy. apply HQ. apply in_app_or in Hy. apply in_or_app. destruct Hy; [left|right; right]; auto.
      + intros x' Hx'. destruct (H x' (or_intror Hx')) as (y' & Hy' & Rx'y').
        exists y'. split; auto. apply in_app_or in Hy'. apply in_or_app.
        destruct Hy' as [?|[<-|?]]; auto. exfalso. eapply I1; eauto.
      + exact I2.
      + exists (y0 :: l2'). split; [|constructor; auto].
        eapply Permutation_trans; [apply Permutation_sym, Permutation_middle|]. constructor. exact P.
  Qed.

  Lemma Forall2_find_l l1 l2 y : Forall2 (fun x y => R x y = true) l1 l2 -> In y l2 -> exists x, In x l1 /\ R x y = true.
  Proof.
    induction 1 as [|x y0 l1 l2 Rxy F IHF]; intros Hy; [contradiction|]. destruct Hy as [<-|Hy].
    - exists x. split; [left; auto|auto].
    - destruct (IHF Hy) as (x' & Hx' & Rx'). exists x'. split; [right; auto|auto].
  Qed.
End Matching.

(* ------------------------------------------------------------------ the comparison of trees *)
(* entry e of this against entry e' of other, as in tdeq (TMap) *)
Definition pair_eq (e e' : tree * tree) : bool :=
  (if tnil (fst e) then tnil (fst e') else negb (tnil (fst e')) && tdeq false (fst e) (fst e')) &&
  (if tnil (snd e) then tnil (snd e') else negb (tnil (snd e')) && tdeq false (snd e) (snd e')).
Definition slot_eq (inv : bool) (x y : tree) : bool := negb (tnil x) && negb (tnil y) && tdeq inv x y.

Lemma tdeq_arr inv l1 l2 : tdeq inv (TArr l1) (TArr l2) = forall2b (slot_eq inv) l1 l2.
Proof. reflexivity. Qed.
Lemma tdeq_map inv e1 e2 : tdeq inv (TMap e1) (TMap e2) =
  Nat.eqb (length e1) (length e2) && forallb (fun e => existsb (pair_eq e) e2) e1.
Proof. reflexivity. Qed.

Lemma teq_alt a b : teq a b = (if tnil a then tnil b else negb (tnil b) && tdeq false a b).
Proof. reflexivity. Qed.
Lemma pair_eq_teq e e' : pair_eq e e' = teq (fst e) (fst e') && teq (snd e) (snd e').
Proof. reflexivity. Qed.

Definition trans_at (a : tree) : Prop := forall inv b c, tdeq inv a b = true -> tdeq inv b c = true -> tdeq inv a c = true.

Lemma teq_trans_at a : trans_at a -> forall b c, teq a b = true -> teq b c = true -> teq a c = true.
Proof.
  intros T b c. rewrite !teq_alt. destruct (tnil a) eqn:Na, (tnil b) eqn:Nb, (tnil c) eqn:Nc; cbn; auto; try discriminate.
  apply T.
Qed.

(* transitive on ALL values (a NaN or a nil only ever makes a comparison false) *)
Lemma tdeq_trans_all : forall a, trans_at a.
Proof.
  induction a using tree_ind'; intros inv u w; try (destruct u, w; cbn; try discriminate; auto; fail).
  - destruct u, w; cbn; try discriminate. apply feq_trans.
  - destruct u, w; cbn; try discriminate. destruct b, b0, b1; cbn; auto.
  - destruct u, w; cbn; try discriminate. destruct inv; [apply streq_ci_trans|apply streq_trans].
  - destruct u, w; cbn; try discriminate. apply ceq_trans.
  - destruct u, w; try (cbn; discriminate). rewrite !tdeq_arr. apply forall2b_trans_on.
    intros x y z Hx. unfold slot_eq. rewrite !andb_true_iff. intros [[X1 X2] X3] [[Y1 Y2] Y3].
    split; [split; auto|]. eapply Forall_forall in H; eauto.
  - destruct u, w; try (cbn; discriminate). rewrite !tdeq_map, !andb_true_iff, !Nat.eqb_eq, !forallb_forall.
    intros [L1 F1] [L2 F2]. split; [congruence|]. intros e He.
    specialize (F1 e He). apply existsb_exists in F1. destruct F1 as (e' & He' & P1).
    specialize (F2 e' He'). apply existsb_exists in F2. destruct F2 as (e'' & He'' & P2).
    apply existsb_exists. exists e''. split; auto.
    eapply Forall_forall in H; eauto. destruct H as [Tk Tv].
    rewrite pair_eq_teq in *. apply andb_true_iff in P1, P2. apply andb_true_iff.
    split; [eapply teq_trans_at; [exact Tk|apply P1|apply P2]|eapply teq_trans_at; [exact Tv|apply P1|apply P2]].
Qed.

Theorem tdeq_trans inv a b c : tdeq inv a b = true -> tdeq inv b c = true -> tdeq inv a c = true.
Proof. apply tdeq_trans_all. Qed.
Theorem teq_trans a b c : teq a b = true -> teq b c = true -> teq a c = true.
Proof. apply teq_trans_at, tdeq_trans_all. Qed.

Lemma wf_tree_map es : wf_tree (TMap es) = true ->
  keys_distinct (map fst es) = true /\ forall e, In e es -> wf_tree (fst e) = true /\ wf_tree (snd e) = true.
Proof.
  cbn. rewrite andb_true_iff, forallb_forall. intros [K F]. split; auto.
  intros e He. specialize (F e He). apply andb_true_iff in F. exact F.
Qed.
Lemma wf_tree_arr l : wf_tree (TArr l) = true -> forall x, In x l -> wf_tree x = true.
Proof. cbn. rewrite forallb_forall. auto. Qed.

Definition wfe (e : tree * tree) : Prop := wf_tree (fst e) = true /\ wf_tree (snd e) = true.

(* the unique-key invariant gives the incompatibility needed for matching *)
Lemma keys_distinct_incompat (Q : tree * tree -> Prop) es :
  (forall e y, In e es -> Q y -> teq (fst e) (fst y) = teq (fst y) (fst e)) ->
  keys_distinct (map fst es) = true -> incompat pair_eq Q es.
Proof.
  induction es as [|e es IH]; intros S K; cbn; auto. cbn in K. apply andb_true_iff in K. destruct K as [K1 K2].
  split; [|apply IH; auto; intros; apply S; auto; right; auto].
  intros e' y He' Qy R1 R2. rewrite pair_eq_teq in R1, R2. apply andb_true_iff in R1, R2.
  destruct R1 as [R1 _], R2 as [R2 _].
  assert (S': teq (fst y) (fst e') = true) by (rewrite <- (S e' y (or_intror He') Qy); exact R2).
  pose proof (teq_trans _ _ _ R1 S') as T.
  apply negb_true_iff in K1. assert (X: existsb (fun k' => teq (fst e) k') (map fst es) = true).
  { apply existsb_exists. exists (fst e'). split; [apply in_map; auto|exact T]. }
  congruence.
Qed.

(* one direction of the HashMap comparison implies the other *)
Lemma map_dir (Q : tree * tree -> Prop) (l1 l2 : list (tree * tree)) : length l1 = length l2 ->
  (forall y, In y l2 -> Q y) ->
  (forall e e', In e l1 -> In e' l2 -> pair_eq e e' = pair_eq e' e) ->
  incompat pair_eq Q l1 ->
  forallb (fun e => existsb (pair_eq e) l2) l1 = true ->
  forallb (fun e => existsb (pair_eq e) l1) l2 = true.
Proof.
  intros Ll HQ Sy Inc F. rewrite forallb_forall in F.
  destruct (match_perm pair_eq Q l1 l2 Ll HQ) as (l2' & P & F2); auto.
  { intros x Hx. specialize (F x Hx). apply existsb_exists in F. exact F. }
  apply forallb_forall. intros y Hy. apply existsb_exists.
  assert (Hy': In y l2') by (eapply Permutation_in; eauto).
  destruct (Forall2_find_l _ _ _ _ F2 Hy') as (x & Hx & Rx). exists x. split; auto. rewrite <- Sy; auto.
Qed.

(* symmetry; for HashMaps it rests on the unique-key invariant of the container (wf_tree) *)
Theorem tdeq_sym : forall a, wf_tree a = true -> forall inv b, wf_tree b = true -> tdeq inv a b = tdeq inv b a.
Proof.
  induction a using tree_ind'; intros Wa inv u Wb; try (destruct u; reflexivity).
  - destruct u; cbn; auto. apply feq_sym.
  - destruct u; cbn; auto. destruct b, b0; reflexivity.
  - destruct u; cbn; auto. destruct inv; [apply streq_ci_sym|apply streq_sym].
  - destruct u; cbn; auto. apply ceq_sym.
  - destruct u; try reflexivity. rewrite !tdeq_arr.
    pose proof (wf_tree_arr _ Wa) as Wl. pose proof (wf_tree_arr _ Wb) as Wl0.
    clear Wa Wb. revert l0 Wl0. induction l as [|x l IHl]; intros [|y l0] Wl0; cbn; auto.
    inversion H as [|? ? Hx Hl]; subst.
    rewrite IHl; auto; [|intros; apply Wl; right; auto|intros; apply Wl0; right; auto].
    f_equal. unfold slot_eq. rewrite (Hx (Wl x (or_introl eq_refl)) inv y (Wl0 y (or_introl eq_refl))).
    destruct (tnil x), (tnil y); reflexivity.
  - destruct u; try reflexivity.
    destruct (wf_tree_map _ Wa) as [Ka Fa]. destruct (wf_tree_map _ Wb) as [Kb Fb].
    assert (TS: forall e y, In e es -> wfe y -> teq (fst e) (fst y) = teq (fst y) (fst e)).
    { intros e y He [Wk' _]. eapply Forall_forall in H; eauto. destruct H as [Sk _]. destruct (Fa e He) as [Wk _].
      rewrite !teq_alt. rewrite (Sk Wk false (fst y) Wk'). destruct (tnil (fst e)), (tnil (fst y)); reflexivity. }
    assert (PS: forall e e', In e es -> In e' es0 -> pair_eq e e' = pair_eq e' e).
    { intros e e' He He'. eapply Forall_forall in H; eauto. destruct H as [Sk Sv].
      destruct (Fa e He) as [Wk Wv]. destruct (Fb e' He') as [Wk' Wv'].
      unfold pair_eq. rewrite (Sk Wk false (fst e') Wk'), (Sv Wv false (snd e') Wv').
      destruct (tnil (fst e)), (tnil (fst e')), (tnil (snd e)), (tnil (snd e')); reflexivity. }
    rewrite !tdeq_map. rewrite (Nat.eqb_sym (length es0)).
    destruct (Nat.eqb (length es) (length es0)) eqn:L; [|reflexivity]. apply Nat.eqb_eq in L. cbn.
    destruct (forallb (fun e => existsb (pair_eq e) es0) es) eqn:F1.
    + symmetry. apply (map_dir wfe es es0 L);
        [intros y Hy; exact (Fb y Hy)|exact PS|apply keys_distinct_incompat; auto|exact F1].
    + destruct (forallb (fun e => existsb (pair_eq e) es) es0) eqn:F2; auto.
      exfalso. assert (X: forallb (fun e => existsb (pair_eq e) es0) es = true); [|congruence].
      apply (map_dir (fun y => In y es) es0 es (eq_sym L));
        [intros y Hy; exact Hy|intros e e' He He'; symmetry; apply PS; auto| |exact F2].
      apply keys_distinct_incompat; auto. intros e y He Hy. symmetry. apply TS; auto. exact (Fb e He).
Qed.

Theorem teq_sym a b : wf_tree a = true -> wf_tree b = true -> teq a b = teq b a.
Proof.
  intros Wa Wb. rewrite !teq_alt. rewrite (tdeq_sym a Wa false b Wb). destruct (tnil a), (tnil b); reflexivity.
Qed.

(* reflexive on values without nil (in this model a NaN compared with ITSELF - the same
   object - is equal, data.h:75; two different NaN objects are not) *)
Fixpoint nil_free_t (t : tree) : bool :=
  match t with
  | TNil => false
  | TArr l => forallb nil_free_t l
  | TMap es => forallb (fun e => nil_free_t (fst e) && nil_free_t (snd e)) es
  | _ => true
  end.
Lemma nil_nan_free_nil_free t : nil_nan_free t = true -> nil_free_t t = true.
Proof.
  induction t using tree_ind'; cbn; auto.
  - rewrite !forallb_forall. intros F x Hx. eapply Forall_forall in H; eauto.
  - rewrite !forallb_forall. intros F e He. eapply Forall_forall in H; eauto. destruct H as [Hk Hv].
    specialize (F e He). apply andb_true_iff in F. destruct F. rewrite Hk, Hv; auto.
Qed.
Lemma nil_free_not_nil t : nil_free_t t = true -> tnil t = false.
Proof. destruct t; cbn; auto; discriminate. Qed.

Theorem tdeq_refl_nil_free : forall t inv, nil_free_t t = true -> tdeq inv t t = true.
Proof.
  induction t using tree_ind'; intros inv N; cbn in N; try discriminate; cbn [tdeq].
  - apply feq_refl.
  - destruct b; reflexivity.
  - destruct inv; [apply streq_refl|apply streq_refl].
  - apply ceq_refl.
  - rewrite forallb_forall in N. apply forall2b_refl_on. intros x Hx. eapply Forall_forall in H; eauto.
    rewrite (nil_free_not_nil _ (N x Hx)). cbn. apply H; auto.
  - rewrite Nat.eqb_refl. cbn. rewrite forallb_forall in N. apply forallb_forall. intros e He.
    apply existsb_exists. exists e. split; auto. eapply Forall_forall in H; eauto. destruct H as [Hk Hv].
    specialize (N e He). apply andb_true_iff in N. destruct N as [Nk Nv].
    rewrite (nil_free_not_nil _ Nk), (nil_free_not_nil _ Nv). cbn. rewrite Hk, Hv; auto.
Qed.

Theorem tdeq_refl : forall t inv, nil_nan_free t = true -> tdeq inv t t = true.
Proof. intros. apply tdeq_refl_nil_free, nil_nan_free_nil_free; auto. Qed.

(* == against isEqualTo: only the case of strings *)
Theorem eq_vs_iseq : forall a b, eqeq_defined a b = true ->
  t_eqeq a b = t_iseq (tree_lower a) (tree_lower b) /\
  (t_eqeq a b = t_iseq a b \/ exists x y, a = TStr x /\ b = TStr y).
Proof.
  intros a b D. destruct a, b; cbn in D; try discriminate; cbn; split; auto.
  right. eauto.
Qed.
Lemma lower_idem c : lower (lower c) = lower c.
Proof.
  unfold lower. destruct ((65 <=? c) && (c <=? 90)) eqn:E.
  - apply andb_true_iff in E. destruct E as [E1 E2]. apply Z.leb_le in E1, E2.
    destruct ((65 <=? c + 32) && (c + 32 <=? 90)) eqn:E'; auto.
    apply andb_true_iff in E'. destruct E' as [_ E']. apply Z.leb_le in E'. lia.
  - rewrite E. reflexivity.
Qed.
(* on strings == is isEqualTo of the lower-cased strings; on the other types they coincide *)
Theorem eqeq_is_iseq_modulo_case : forall x y, t_eqeq (TStr x) (TStr y) = t_iseq (TStr (map lower x)) (TStr (map lower y)).
Proof. reflexivity. Qed.

(* ------------------------------------------------------------------ hashing *)
Section HashLaws.
  Variable hnum : scalar -> Z.
  Variable hbool : bool -> Z.
  Variable hstr : list Z -> Z.
  Variable hop : Z -> list Z -> Z.
  Variable mix : Z -> Z -> Z.
  Variable seed : Z.
  (* libstdc++: std::hash<float> maps +0 and -0 to one value; checked on the implementation by the harness *)
  Hypothesis hnum_feq : forall a b, feq a b = true -> hnum a = hnum b.

  Definition hd_repaired : hash_defects := {| d_code_hash_text := false; d_map_hash_ordered := false |}.
  Definition hd_as_is : hash_defects := {| d_code_hash_text := true; d_map_hash_ordered := true |}.
  Notation HH := (vhash hd_repaired hnum hbool hstr hop mix seed).

  Lemma ihash_ieq i j : ieq i j = true -> ihash hnum hstr hop i = ihash hnum hstr hop j.
  Proof.
    destruct i, j; cbn; try discriminate; [apply hnum_feq|intros E; apply streq_eq in E; subst; auto|].
    rewrite andb_true_iff, Z.eqb_eq, streq_eq. intros [-> ->]. auto.
  Qed.

  Lemma Forall2_imp {A B} (P Q : A -> B -> Prop) l1 l2 : (forall x y, P x y -> Q x y) -> Forall2 P l1 l2 -> Forall2 Q l1 l2.
  Proof. intros I. induction 1; constructor; auto. Qed.

  Lemma fold_mix_eq {A} (g : A -> Z) l1 l2 : Forall2 (fun x y => g x = g y) l1 l2 ->
    forall s, fold_left (fun acc x => mix acc (g x)) l1 s = fold_left (fun acc x => mix acc (g x)) l2 s.
  Proof. induction 1 as [|x y l1 l2 E F IH]; intros s; cbn; auto. rewrite E. apply IH. Qed.

  Lemma fold_add_perm {A} (g : A -> Z) l1 l2 : Permutation l1 l2 ->
    forall s, fold_left (fun acc x => acc + g x) l1 s = fold_left (fun acc x => acc + g x) l2 s.
  Proof.
    induction 1 as [|x l1 l2 P IH|x y l|l1 l2 l3 P1 IH1 P2 IH2]; intros s; cbn; auto.
    - f_equal. lia.
    - rewrite IH1. apply IH2.
  Qed.
  Lemma fold_add_eq {A} (g : A -> Z) l1 l2 : Forall2 (fun x y => g x = g y) l1 l2 ->
    forall s, fold_left (fun acc x => acc + g x) l1 s = fold_left (fun acc x => acc + g x) l2 s.
  Proof. induction 1 as [|x y l1 l2 E F IH]; intros s; cbn; auto. rewrite E. apply IH. Qed.

  Lemma teq_hash_at a : (forall b, wf_tree b = true -> tdeq false a b = true -> HH a = HH b) ->
    forall b, wf_tree b = true -> teq a b = true -> HH a = HH b.
  Proof.
    intros IH b Wb. rewrite teq_alt. destruct (tnil a) eqn:Na.
    - destruct a; try discriminate. destruct b; cbn; try discriminate. auto.
    - rewrite andb_true_iff. intros [_ E]. apply IH; auto.
  Qed.

  (* values that compare equal hash equally (instruction-wise code hash, order-independent HashMap hash) *)
  Theorem tdeq_hash : forall a, wf_tree a = true -> forall b, wf_tree b = true -> tdeq false a b = true -> HH a = HH b.
  Proof.
    induction a using tree_ind'; intros Wa u Wb E; destruct u; cbn in E; try discriminate; cbn [vhash hd_repaired d_code_hash_text d_map_hash_ordered].
    - apply hnum_feq; auto.
    - destruct b, b0; cbn in E; try discriminate; auto.
    - apply streq_eq in E. subst; auto.
    - apply (fold_mix_eq (ihash hnum hstr hop)). apply forall2b_Forall2 in E.
      eapply Forall2_imp; [|exact E]. intros i j. apply ihash_ieq.
    - change (tdeq false (TArr l) (TArr l0) = true) in E. rewrite tdeq_arr in E. apply forall2b_Forall2 in E.
      apply (fold_mix_eq HH).
      pose proof (wf_tree_arr _ Wa) as Wl. pose proof (wf_tree_arr _ Wb) as Wl0. clear Wa Wb.
      revert H Wl Wl0. induction E as [|x y l l0 Exy F IHF]; intros IHl Wl Wl0; constructor.
      + inversion IHl as [|? ? Hx _]; subst. unfold slot_eq in Exy. apply andb_true_iff in Exy. destruct Exy as [_ Exy].
        apply Hx; auto; [apply Wl|apply Wl0]; left; auto.
      + inversion IHl; subst. apply IHF; auto; intros; [apply Wl|apply Wl0]; right; auto.
    - change (tdeq false (TMap es) (TMap es0) = true) in E. rewrite tdeq_map in E. apply andb_true_iff in E.
      destruct E as [L F]. apply Nat.eqb_eq in L.
      destruct (wf_tree_map _ Wa) as [Ka Fa]. destruct (wf_tree_map _ Wb) as [Kb Fb].
      assert (TS: forall e y, In e es -> wfe y -> teq (fst e) (fst y) = teq (fst y) (fst e)).
      { intros e y He [Wk' _]. destruct (Fa e He) as [Wk _]. apply teq_sym; auto. }
      rewrite forallb_forall in F.
      destruct (match_perm pair_eq wfe es es0 L (fun y Hy => Fb y Hy)) as (es0' & P & F2).
      { intros x Hx. specialize (F x Hx). apply existsb_exists in F. exact F. }
      { apply keys_distinct_incompat; auto. }
      set (g := fun e : tree * tree => mix (mix seed (HH (fst e))) (HH (snd e))).
      change (fold_left (fun acc e => acc + g e) es seed = fold_left (fun acc e => acc + g e) es0 seed).
      rewrite (fold_add_perm g es0 es0' P). apply fold_add_eq.
      assert (W0': forall y, In y es0' -> wfe y).
      { intros y Hy. apply Fb. eapply Permutation_in; [apply Permutation_sym; exact P|exact Hy]. }
      clear P F L Ka Kb TS Wa Wb Fb. revert H Fa W0'. induction F2 as [|x y l1 l2 Rxy F2 IHF]; intros IHl Fa W0'; constructor.
      + inversion IHl as [|? ? [Hk Hv] _]; subst. rewrite pair_eq_teq in Rxy. apply andb_true_iff in Rxy.
        destruct Rxy as [Rk Rv]. destruct (Fa x (or_introl eq_refl)) as [Wk Wv]. destruct (W0' y (or_introl eq_refl)) as [Wk' Wv'].
        unfold g. f_equal; [f_equal|].
        * apply (teq_hash_at (fst x)); auto.
        * apply (teq_hash_at (snd x)); auto.
      + inversion IHl; subst. apply IHF; auto; intros; [apply Fa|apply W0']; right; auto.
  Qed.

  Theorem teq_hash : forall a b, wf_tree a = true -> wf_tree b = true -> teq a b = true -> HH a = HH b.
  Proof. intros a b Wa Wb. apply teq_hash_at; auto. intros; apply tdeq_hash; auto. Qed.
End HashLaws.

(* ... and with the hashes as they are in the source they do not: { 0 } / { -0 }, and two equal
   HashMaps that iterate in different orders *)
Definition w_hnum (s : scalar) : Z := match s with SHalf t => t | SNegZero => 0 | SNaN _ => 7 | SPInf => 9 | SNInf => 11 end.
Lemma w_hnum_feq a b : feq a b = true -> w_hnum a = w_hnum b.
Proof.
  destruct a, b; cbn; try discriminate; auto; try (intros E; apply Z.eqb_eq in E; auto; fail);
    case_z; cbn; auto; discriminate.
Qed.
Definition w_hstr (s : list Z) : Z := Z.of_nat (length s).
Definition w_mix (a x : Z) : Z := 2 * a + x.

Theorem code_hash_refuted : exists a b, tdeq false a b = true /\
  vhash hd_as_is w_hnum (fun _ => 0) w_hstr (fun _ _ => 0) w_mix 1 a <>
  vhash hd_as_is w_hnum (fun _ => 0) w_hstr (fun _ _ => 0) w_mix 1 b.
Proof.
  exists (TCode [IPushNum (SHalf 0)]), (TCode [IPushNum SNegZero]). split; [reflexivity|]. vm_compute. discriminate.
Qed.
Theorem map_hash_order_refuted : exists a b, wf_tree a = true /\ wf_tree b = true /\ tdeq false a b = true /\
  vhash hd_as_is w_hnum (fun _ => 0) w_hstr (fun _ _ => 0) w_mix 1 a <>
  vhash hd_as_is w_hnum (fun _ => 0) w_hstr (fun _ _ => 0) w_mix 1 b.
Proof.
  exists (TMap [(TNum (SHalf 2), TNum (SHalf 4)); (TNum (SHalf 6), TNum (SHalf 8))]),
         (TMap [(TNum (SHalf 6), TNum (SHalf 8)); (TNum (SHalf 2), TNum (SHalf 4))]).
  split; [reflexivity|]. split; [reflexivity|]. split; [reflexivity|]. vm_compute. discriminate.
Qed.

Print Assumptions tdeq_sym.
Print Assumptions tdeq_trans.
Print Assumptions tdeq_refl.
Print Assumptions tdeq_hash.
