(* Graph core of C08: the path-based recursion test of d_array (rt, DataDefs.v), over an
   arbitrary successor function K.  Generalised from design-notes/proto_recursion_test.v.
     rt_true_not_bad / rt_false_bad : what the test decides
     rt_true_no_cycle               : yes  =>  the start node lies on no cycle
     bad_cycle                      : no   =>  some node lies on a cycle
     rt_fuel                        : n - |path| + 2 levels of fuel always suffice
     reach_split                    : surgery used for acyclic_preserved             *)
From Coq Require Import List ListDec Arith Lia Bool.
From SqfVerif Require Import Data.DataDefs.
Import ListNotations.

Lemma memb_In x l : memb x l = true <-> In x l.
Proof. induction l; cbn; [intuition discriminate|]. destruct (Nat.eqb_spec x a); subst; intuition. Qed.
Lemma memb_false x l : memb x l = false <-> ~ In x l.
Proof. rewrite <- memb_In. destruct (memb x l); intuition congruence. Qed.

Section Graph.
  Variable K : nat -> list nat.

  Definition edge (a b : nat) : Prop := In b (K a).

  (* one or more edges *)
  Inductive reach : nat -> nat -> Prop :=
  | reach_one a b : edge a b -> reach a b
  | reach_step a m b : edge a m -> reach m b -> reach a b.

  Lemma reach_trans a b c : reach a b -> reach b c -> reach a c.
  Proof. induction 1; intros; [eapply reach_step; eauto|eapply reach_step; eauto]. Qed.
  Lemma reach_snoc a b c : reach a b -> edge b c -> reach a c.
  Proof. intros. eapply reach_trans; eauto. constructor; auto. Qed.

  Definition Acyclic : Prop := forall a, ~ reach a a.

  Inductive Bad : list nat -> nat -> Prop :=
  | bad_here vis x r : edge x r -> In r vis -> Bad vis x
  | bad_deep vis x r : edge x r -> Bad (r :: vis) r -> Bad vis x.

  Lemma rt_true_children : forall f vis x, rt K (S f) vis x = Some true ->
    forall r, In r (K x) -> memb r vis = false /\ rt K f (r :: vis) r = Some true.
  Proof.
    intros f vis x H. cbn [rt] in H. revert H. generalize (K x) as ks.
    induction ks as [|r ks IHk]; intros H; [intros ? []|].
    destruct (memb r vis) eqn:M; [discriminate|].
    destruct (rt K f (r :: vis) r) as [[|]|] eqn:E; try discriminate.
    intros r' [<-|Hin]; auto.
  Qed.

  Lemma rt_children_true : forall f vis x,
    (forall r, In r (K x) -> memb r vis = false /\ rt K f (r :: vis) r = Some true) ->
    rt K (S f) vis x = Some true.
  Proof.
    intros f vis x H. cbn [rt]. revert H. generalize (K x) as ks.
    induction ks as [|r ks IHk]; intros H; [reflexivity|].
    destruct (H r (or_introl eq_refl)) as [M E]. rewrite M, E. apply IHk. intros; apply H; right; auto.
  Qed.

  Lemma rt_false_bad : forall f vis x, rt K f vis x = Some false -> Bad vis x.
  Proof.
    induction f as [|f IH]; intros vis x H; [discriminate|]. cbn [rt] in H.
    assert (G: forall ks, (forall r, In r ks -> edge x r) ->
       (fix go (ks0 : list nat) : option bool :=
          match ks0 with
          | [] => Some true
          | r :: ks' => if memb r vis then Some false
                        else match rt K f (r :: vis) r with Some true => go ks' | o => o end
          end) ks = Some false -> Bad vis x).
    { induction ks as [|r ks IHk]; intros Hk Hgo; [discriminate|].
      destruct (memb r vis) eqn:M.
      - apply memb_In in M. eapply bad_here; [apply Hk; left; reflexivity|exact M].
      - destruct (rt K f (r :: vis) r) as [[|]|] eqn:E; try discriminate.
        + apply IHk; auto. intros; apply Hk; right; auto.
        + eapply bad_deep; [apply Hk; left; reflexivity|]. eapply IH; eauto. }
    apply (G (K x)); auto.
  Qed.

  Lemma rt_true_not_bad : forall f vis x, rt K f vis x = Some true -> ~ Bad vis x.
  Proof.
    induction f as [|f IH]; intros vis x H; [discriminate|].
    pose proof (rt_true_children _ _ _ H) as G.
    intros B. inversion B as [? ? r He Hv|? ? r He Hb]; subst; destruct (G r He) as [M E].
    - apply memb_In in Hv. congruence.
    - eapply IH; eauto.
  Qed.

  (* a path that comes back into the visited list, or onto itself, is Bad *)
  Lemma reach_vis_bad : forall a b, reach a b -> forall vis, In b vis -> Bad vis a.
  Proof.
    induction 1 as [a b He|a m b He Hr IH]; intros vis Hin.
    - eapply bad_here; eauto.
    - eapply bad_deep; [exact He|]. apply IH. right; exact Hin.
  Qed.

  Lemma cycle_bad : forall x, reach x x -> forall vis, Bad vis x.
  Proof.
    intros x H vis. inversion H as [a b He|a m b He Hr]; subst.
    - (* self loop *) eapply bad_deep; [exact He|]. eapply bad_here; [exact He|left; reflexivity].
    - eapply bad_deep; [exact He|].
      (* from m we reach x, and x -> m again: m is on the path *)
      eapply reach_vis_bad; [eapply reach_snoc; [exact Hr|exact He]|left; reflexivity].
  Qed.

  Theorem rt_true_no_cycle : forall f x, rt K f [] x = Some true -> ~ reach x x.
  Proof. intros f x H C. eapply rt_true_not_bad; [exact H|]. apply cycle_bad; auto. Qed.

  (* and more: nothing reachable from x lies on a cycle *)
  Lemma bad_mono : forall vis x, Bad vis x -> forall vis', incl vis vis' -> Bad vis' x.
  Proof.
    induction 1 as [vis x r He Hin|vis x r He Hb IH]; intros vis' Hi.
    - eapply bad_here; eauto.
    - eapply bad_deep; [exact He|]. apply IH. intros z [<-|Hz]; [left; auto|right; auto].
  Qed.
  Lemma reach_cycle_bad : forall x y, reach x y -> reach y y -> forall vis, Bad vis x.
  Proof.
    induction 1 as [a b He|a m b He Hr IH]; intros C vis.
    - eapply bad_deep; [exact He|]. apply cycle_bad; auto.
    - eapply bad_deep; [exact He|]. apply IH; auto.
  Qed.
  Theorem rt_true_sound : forall f x, rt K f [] x = Some true ->
    ~ reach x x /\ forall y, reach x y -> ~ reach y y.
  Proof.
    intros f x H. split; [eapply rt_true_no_cycle; eauto|].
    intros y R C. eapply rt_true_not_bad; [exact H|]. eapply reach_cycle_bad; eauto.
  Qed.

  (* conversely a "no" exhibits a cycle (or a way back into the visited list) *)
  Lemma bad_cycle : forall vis x, Bad vis x ->
    (exists r, reach r r) \/ (exists r, reach x r /\ In r vis).
  Proof.
    induction 1 as [vis x r He Hin|vis x r He Hb IH].
    - right. exists r. split; [constructor; auto|auto].
    - destruct IH as [C|(r' & R & [<-|Hin])].
      + left; auto.
      + left. exists r. exact R.
      + right. exists r'. split; [eapply reach_step; eauto|auto].
  Qed.

  Theorem rt_acyclic_true : forall f x, Acyclic -> rt K f [] x <> Some false.
  Proof.
    intros f x A H. apply rt_false_bad in H. destruct (bad_cycle _ _ H) as [(r & C)|(r & _ & [])].
    exact (A r C).
  Qed.

  (* fuel: the path grows by a fresh node at every level; nodes >= n have no successors *)
  Variable n : nat.
  Hypothesis K_out : forall r, n <= r -> K r = [].

  Lemma rt_fuel : forall f vis x, NoDup vis -> (forall r, In r vis -> r < n) ->
    n - length vis + 1 < f -> rt K f vis x <> None.
  Proof.
    induction f as [|f IH]; intros vis x ND Hb Hf; [lia|]. cbn [rt].
    generalize (K x) as ks. induction ks as [|r ks IHk]; [discriminate|].
    destruct (memb r vis) eqn:M; [discriminate|].
    destruct (Nat.lt_ge_cases r n) as [Hr|Hr].
    - assert (Hlen: length vis < n).
      { assert (N1: NoDup (r :: vis)) by (constructor; auto; intros Hin; apply memb_In in Hin; congruence).
        assert (I1: incl (r :: vis) (seq 0 n)).
        { intros z [<-|Hz]; apply in_seq; [lia|]. specialize (Hb _ Hz). lia. }
        pose proof (NoDup_incl_length N1 I1) as L. rewrite seq_length in L. cbn in L. lia. }
      assert (E: rt K f (r :: vis) r <> None).
      { apply IH.
        - constructor; auto. intros Hin. apply memb_In in Hin. congruence.
        - intros z [<-|Hz]; auto.
        - cbn [length]. lia. }
      destruct (rt K f (r :: vis) r) as [[|]|]; try discriminate; [exact IHk|congruence].
    - assert (E: rt K f (r :: vis) r = Some true).
      { destruct f; [lia|]. cbn [rt]. rewrite (K_out r Hr). reflexivity. }
      rewrite E. exact IHk.
  Qed.

  Corollary rt_acyclic_yes : forall x, Acyclic -> rt K (S (S n)) [] x = Some true.
  Proof.
    intros x A. pose proof (rt_fuel (S (S n)) [] x) as F.
    assert (N: rt K (S (S n)) [] x <> None).
    { apply F; [constructor|intros ? []|cbn; lia]. }
    pose proof (rt_acyclic_true (S (S n)) x A).
    destruct (rt K (S (S n)) [] x) as [[|]|]; congruence.
  Qed.
End Graph.

(* ---- two successor functions that differ at most at x *)
Section Surgery.
  Variables K K' : nat -> list nat.
  Variable x : nat.
  Hypothesis same : forall a, a <> x -> K' a = K a.

  Lemma reach_split : forall a b, reach K' a b ->
    reach K a b \/ ((a = x \/ reach K' a x) /\ reach K' x b).
  Proof.
    induction 1 as [a b He|a m b He Hr IH].
    - destruct (Nat.eq_dec a x) as [->|Hne].
      + right. split; [left; reflexivity|constructor; auto].
      + left. constructor. unfold edge in *. rewrite <- same; auto.
    - destruct (Nat.eq_dec a x) as [->|Hne].
      + right. split; [left; reflexivity|eapply reach_step; eauto].
      + assert (E: edge K a m) by (unfold edge in *; rewrite <- same; auto).
        destruct IH as [L|[[->|R] R2]].
        * left. eapply reach_step; eauto.
        * right. split; [right; constructor; auto|auto].
        * right. split; [right; eapply reach_step; eauto|auto].
  Qed.

  (* a cycle of K' either was one of K or goes through x *)
  Lemma cycle_split : forall y, reach K' y y -> reach K y y \/ reach K' x x.
  Proof.
    intros y C. destruct (reach_split _ _ C) as [L|[[->|R] R2]]; auto.
    right. eapply reach_trans; eauto.
  Qed.

  Theorem acyclic_surgery : Acyclic K -> ~ reach K' x x -> Acyclic K'.
  Proof. intros A N y C. destruct (cycle_split _ C) as [L|L]; [exact (A y L)|exact (N L)]. Qed.
End Surgery.

Lemma reach_mono (K K' : nat -> list nat) : (forall a, incl (K' a) (K a)) ->
  forall a b, reach K' a b -> reach K a b.
Proof.
  intros H a b R. induction R as [a b He|a m b He Hr IH].
  - constructor. apply H; auto.
  - eapply reach_step; [apply H; exact He|exact IH].
Qed.

Lemma acyclic_mono (K K' : nat -> list nat) : (forall a, incl (K' a) (K a)) -> Acyclic K -> Acyclic K'.
Proof. intros H A a C. apply (A a). eapply reach_mono; eauto. Qed.

(* new nodes (>= n) only point downwards, old nodes keep their successors and stay below n *)
Lemma acyclic_extend (K K' : nat -> list nat) (n : nat) :
  (forall a, a < n -> K' a = K a) ->
  (forall a b, a < n -> In b (K a) -> b < n) ->
  (forall a b, n <= a -> In b (K' a) -> b < a) ->
  Acyclic K -> Acyclic K'.
Proof.
  intros Hold Hclosed Hdown A.
  assert (R1: forall a b, reach K' a b -> a < n -> b < n /\ reach K a b).
  { induction 1 as [a b He|a m b He Hr IH]; intros Ha.
    - unfold edge in He. rewrite Hold in He by auto. split; [eapply Hclosed; eauto|constructor; auto].
    - unfold edge in He. rewrite Hold in He by auto.
      destruct (IH (Hclosed _ _ Ha He)) as [Hb R]. split; auto. eapply reach_step; eauto. }
  assert (R2: forall a b, reach K' a b -> n <= a -> b < a).
  { induction 1 as [a b He|a m b He Hr IH]; intros Ha.
    - eapply Hdown; eauto.
    - pose proof (Hdown _ _ Ha He) as Hm.
      destruct (Nat.lt_ge_cases m n) as [Hlt|Hge].
      + destruct (R1 _ _ Hr Hlt) as [Hb _]. lia.
      + specialize (IH Hge). lia. }
  intros a C. destruct (Nat.lt_ge_cases a n) as [Hlt|Hge].
  - destruct (R1 _ _ C Hlt) as [_ R]. exact (A a R).
  - specialize (R2 _ _ C Hge). lia.
Qed.

Print Assumptions rt_true_sound.
Print Assumptions rt_fuel.
Print Assumptions acyclic_surgery.
Print Assumptions acyclic_extend.
