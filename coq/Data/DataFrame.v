(* C07/C08: the frame property of the operations - an operation changes at most the one
   container it works on in place and otherwise only adds new cells.  From it: results of
   + - select keys copy are independent of later changes of their operands, a HashMap entry
   survives any change of the array that was used as its key, a copy of a HashMap is
   independent of the original. *)
From Coq Require Import ZArith List ListDec Arith Lia Bool.
From SqfVerif Require Import Data.DataDefs Data.DataGraph Data.DataHeap Data.DataStep Data.DataTerm.
Import ListNotations.

(* the container an operation modifies in place *)
Definition tgt_of (st : state) (t : opnd) : option nat :=
  match eval_opnd st t with Some (_, VRef a) => Some a | _ => None end.
Definition target_of (st : state) (o : op) : option nat :=
  match o with
  | OpSet t _ _ | OpPushBack t _ | OpPushBackUnique t _ | OpAppend t _ | OpDeleteAt t _
  | OpDeleteRange t _ _ | OpResize t _ | OpReverse t | OpSort t _ => tgt_of st t
  | OpMapSet m _ _ | OpMapDeleteAt m _ => tgt_of st m
  | _ => None
  end.

Definition Frame (h0 : list cell) (tgt : option nat) (o : outcome) : Prop :=
  length h0 <= length (st_heap (o_state o)) /\
  forall a, a < length h0 -> tgt <> Some a -> nth_error (st_heap (o_state o)) a = nth_error h0 a.

Lemma frame_here s st ds r tgt : Frame (st_heap st) tgt (mk s st ds r).
Proof. split; cbn; auto. Qed.
Lemma frame_upd s st a c ds r : Frame (st_heap st) (Some a) (mk s (upd st a c) ds r).
Proof.
  split; cbn; [rewrite length_set_nth; auto|]. intros b Hb Hne. apply nth_error_set_nth_neq. congruence.
Qed.
Lemma frame_ext h0 h1 tgt o : (exists e, h1 = h0 ++ e) -> Frame h1 tgt o -> Frame h0 tgt o.
Proof.
  intros [e ->] [L F]. rewrite app_length in L. split; [lia|].
  intros a Ha Hne. rewrite F; auto; [|rewrite app_length; lia]. apply nth_error_app1; auto.
Qed.
Lemma frame_weaken h0 tgt o : Frame h0 None o -> Frame h0 tgt o.
Proof. intros [L F]. split; auto. intros a Ha _. apply F; auto. discriminate. Qed.
Lemma frame_invalid st0 st tgt : (exists e, st_heap st = st_heap st0 ++ e) -> Frame (st_heap st0) tgt (invalid st0) /\ True.
Proof. intros _. split; auto. apply frame_here. Qed.

Lemma frame_commit_arr d st a l' lfail okres : Frame (st_heap st) (Some a) (commit_arr d st a l' lfail okres).
Proof.
  unfold commit_arr. destruct (rec_test d (st_heap (upd st a (CArr l'))) a) as [[|]|];
    [apply frame_upd|apply frame_upd|apply frame_here].
Qed.
Lemma frame_commit_map d st a es' es : Frame (st_heap st) (Some a) (commit_map d st a es' es).
Proof.
  unfold commit_map. destruct (d_hset_untested d); [apply frame_upd|].
  destruct (rec_test d (st_heap (upd st a (CMap es'))) a) as [[|]|];
    [apply frame_upd|apply frame_upd|apply frame_here].
Qed.

Lemma frame_assign h0 st0 dst o tgt : st_heap st0 = h0 -> Frame h0 tgt o -> Frame h0 tgt (assign_result st0 dst o).
Proof.
  intros E F. unfold assign_result. destruct (o_status o); auto.
  destruct (existsb is_error (o_diags o)); [subst; apply frame_here|].
  destruct (setvar (o_state o) dst (o_result o)) as [st'|] eqn:Es; [|subst; apply frame_here].
  unfold setvar in Es. destruct (Nat.ltb dst (length (st_vars (o_state o)))); [|discriminate].
  inversion Es; subst st'. exact F.
Qed.

Lemma frame_of_res {A} h0 st tgt (r : res A) k : st_heap st = h0 ->
  (forall a, r = Ok a -> Frame h0 tgt (k a)) -> Frame h0 tgt (of_res st r k).
Proof. intros E H. destruct r; cbn; auto; subst; apply frame_here. Qed.

Lemma gext_ext h h' : gext h h' -> exists e, h' = h ++ e.
Proof. intros [E _]; exact E. Qed.

Lemma frame_alloc_assign st0 st1 dst c ds tgt : (exists e, st_heap st1 = st_heap st0 ++ e) ->
  Frame (st_heap st0) tgt (let '(st2, res) := alloc st1 c in assign_result st0 dst (mk Done st2 ds res)).
Proof.
  intros X. unfold alloc. apply frame_assign; auto. eapply frame_ext; [exact X|].
  apply frame_weaken. split; cbn; [rewrite app_length; lia|]. intros a Ha _. apply nth_error_app1; auto.
Qed.

(* an operand that is evaluated first: relate tgt_of to the value the operation sees *)
Lemma with1_frame st x k tgt : Inv st ->
  (forall st1 v, eval_opnd st x = Some (st1, v) -> Inv st1 -> (exists e, st_heap st1 = st_heap st ++ e) ->
                 Frame (st_heap st) tgt (k st1 v)) ->
  Frame (st_heap st) tgt (with1 st x k).
Proof.
  intros Hi H. unfold with1. destruct (eval_opnd st x) as [[st1 v]|] eqn:E; [|apply frame_here].
  destruct (eval_opnd_good _ _ _ _ Hi E) as (I1 & V1 & G1 & E1). apply H; auto. apply gext_ext; auto.
Qed.
Lemma with2_frame st x y k tgt : Inv st ->
  (forall st1 st2 v w, eval_opnd st x = Some (st1, v) -> Inv st2 -> (exists e, st_heap st2 = st_heap st ++ e) ->
                       (forall a c, nth_error (st_heap st1) a = Some c -> nth_error (st_heap st2) a = Some c) ->
                       Frame (st_heap st) tgt (k st2 v w)) ->
  Frame (st_heap st) tgt (with2 st x y k).
Proof.
  intros Hi H. unfold with2. apply with1_frame; auto. intros st1 v E I1 X1.
  destruct (eval_opnd st1 y) as [[st2 w]|] eqn:E2; [|apply frame_here].
  destruct (eval_opnd_good _ _ _ _ I1 E2) as (I2 & V2 & G2 & E2').
  eapply H; eauto.
  - destruct X1 as [e1 X1]. destruct (gext_ext _ _ G2) as [e2 X2]. exists (e1 ++ e2). rewrite X2, X1, app_assoc. auto.
  - intros a c Ea. rewrite (gext_old _ _ _ G2); auto. apply nth_error_Some. congruence.
Qed.

Lemma tgt_of_eq st t st1 a : eval_opnd st t = Some (st1, VRef a) -> tgt_of st t = Some a.
Proof. intros E. unfold tgt_of. rewrite E. reflexivity. Qed.

Lemma frame_tgt h0 st1 a tgt o : (exists e, st_heap st1 = h0 ++ e) -> tgt = Some a ->
  Frame (st_heap st1) (Some a) o -> Frame h0 tgt o.
Proof. intros X -> F. eapply frame_ext; eauto. Qed.

Theorem step_frame : forall d st o, Inv st -> Frame (st_heap st) (target_of st o) (step d st o).
Proof.
  intros d st o Hi.
  assert (INV: forall tgt, Frame (st_heap st) tgt (invalid st)) by (intros; apply frame_here).
  destruct o; cbn [step target_of].
  - apply with2_frame; auto. intros st1 st2 tv xv Et I2 X2 Keep.
    destruct (arr_of st2 tv) as [[a l]|] eqn:Ea; auto. apply arr_of_nth in Ea. destruct Ea as [-> Ea].
    eapply frame_tgt; [exact X2|eapply tgt_of_eq; eauto|].
    destruct (Z.ltb (trunc_half idx) 0); [apply frame_here|apply frame_commit_arr].
  - apply with2_frame; auto. intros st1 st2 tv xv Et I2 X2 Keep.
    destruct (arr_of st2 tv) as [[a l]|] eqn:Ea; auto. apply arr_of_nth in Ea. destruct Ea as [-> Ea].
    eapply frame_tgt; [exact X2|eapply tgt_of_eq; eauto|]. apply frame_commit_arr.
  - apply with2_frame; auto. intros st1 st2 tv xv Et I2 X2 Keep.
    destruct (arr_of st2 tv) as [[a l]|] eqn:Ea; auto. apply arr_of_nth in Ea. destruct Ea as [-> Ea].
    apply frame_of_res; auto. intros r _.
    eapply frame_tgt; [exact X2|eapply tgt_of_eq; eauto|].
    destruct r; [apply frame_here|apply frame_commit_arr].
  - apply with2_frame; auto. intros st1 st2 tv xv Et I2 X2 Keep.
    destruct (arr_of st2 tv) as [[a l]|] eqn:Ea; auto. apply arr_of_nth in Ea. destruct Ea as [-> Ea].
    destruct (arr_of st2 xv) as [[b r]|] eqn:Eb; auto.
    eapply frame_tgt; [exact X2|eapply tgt_of_eq; eauto|].
    destruct (d_append_untested d); [apply frame_upd|apply frame_commit_arr].
  - apply with1_frame; auto. intros st1 tv Et I1 X1.
    destruct (arr_of st1 tv) as [[a l]|] eqn:Ea; auto. apply arr_of_nth in Ea. destruct Ea as [-> Ea].
    assert (T: forall s c ds r, Frame (st_heap st) (tgt_of st t) (mk s (upd st1 a c) ds r)).
    { intros. eapply frame_tgt; [exact X1|eapply tgt_of_eq; eauto|apply frame_upd]. }
    assert (H: forall s ds r, Frame (st_heap st) (tgt_of st t) (mk s st1 ds r)).
    { intros. eapply frame_ext; [exact X1|apply frame_here]. }
    destruct (Z.leb (zlen l) (trunc_half idx)); [apply H|].
    destruct (Z.ltb (trunc_half idx) 0); [apply H|].
    destruct (znth l (trunc_half idx)); [apply T|apply frame_here].
  - apply with1_frame; auto. intros st1 tv Et I1 X1.
    destruct (arr_of st1 tv) as [[a l]|] eqn:Ea; auto. apply arr_of_nth in Ea. destruct Ea as [-> Ea].
    assert (U: forall ds, Frame (st_heap st) (tgt_of st t) (mk Undefined st ds VNil)) by (intros; apply frame_here).
    assert (T: forall s c ds r, Frame (st_heap st) (tgt_of st t) (mk s (upd st1 a c) ds r)).
    { intros. eapply frame_tgt; [exact X1|eapply tgt_of_eq; eauto|apply frame_upd]. }
    assert (H: forall s ds r, Frame (st_heap st) (tgt_of st t) (mk s st1 ds r)).
    { intros. eapply frame_ext; [exact X1|apply frame_here]. }
    destruct (Z.ltb (round_half to) (round_half from));
      (destruct (Z.ltb (round_half from) 0); [apply H|]);
      match goal with |- context [Z.leb (zlen l) ?q] => destruct (Z.leb (zlen l) q) end;
      match goal with |- context [Z.ltb ?p (round_half from)] => destruct (Z.ltb p (round_half from)) end;
      try apply T; destruct (d_delrange_unchecked d); auto.
  - apply with1_frame; auto. intros st1 tv Et I1 X1.
    destruct (arr_of st1 tv) as [[a l]|] eqn:Ea; auto. apply arr_of_nth in Ea. destruct Ea as [-> Ea].
    assert (T: forall s c ds r, Frame (st_heap st) (tgt_of st t) (mk s (upd st1 a c) ds r)).
    { intros. eapply frame_tgt; [exact X1|eapply tgt_of_eq; eauto|apply frame_upd]. }
    assert (H: forall s ds r, Frame (st_heap st) (tgt_of st t) (mk s st1 ds r)).
    { intros. eapply frame_ext; [exact X1|apply frame_here]. }
    destruct (Z.ltb n 0); [|apply T].
    destruct ((Z.ltb n (-1)) || negb (d_resize_unchecked d)); [|apply T].
    destruct (d_resize_unchecked d); [apply frame_here|apply H].
  - apply with1_frame; auto. intros st1 tv Et I1 X1.
    destruct (arr_of st1 tv) as [[a l]|] eqn:Ea; auto. apply arr_of_nth in Ea. destruct Ea as [-> Ea].
    eapply frame_tgt; [exact X1|eapply tgt_of_eq; eauto|apply frame_upd].
  - apply with1_frame; auto. intros st1 tv Et I1 X1.
    destruct (arr_of st1 tv) as [[a l]|] eqn:Ea; auto. apply arr_of_nth in Ea. destruct Ea as [-> Ea].
    assert (T: forall s c ds r, Frame (st_heap st) (tgt_of st t) (mk s (upd st1 a c) ds r)).
    { intros. eapply frame_tgt; [exact X1|eapply tgt_of_eq; eauto|apply frame_upd]. }
    destruct (Nat.leb (length l) 1); [eapply frame_ext; [exact X1|apply frame_here]|].
    destruct (sortable_nums l); [apply T|]. destruct (sortable_strs l); [apply T|].
    apply frame_of_res; auto. intros [l'|ds|] _; auto; try apply T; eapply frame_ext; [exact X1|apply frame_here].
  - apply with1_frame; auto. intros st1 v Et I1 X1. apply frame_assign; auto.
    eapply frame_ext; [exact X1|apply frame_here].
  - apply with1_frame; auto. intros st1 v Et I1 X1.
    destruct (arr_of st1 v) as [[a l]|] eqn:Ea.
    + apply arr_of_nth in Ea. destruct Ea as [-> Ea]. apply frame_of_res; auto. intros [h' a'] Ec.
      apply frame_assign; auto. destruct (copy_deep_gext _ _ _ _ _ (proj1 (proj1 I1)) Ec) as [Gc _].
      eapply frame_ext; [exact X1|]. eapply frame_ext; [apply gext_ext; exact Gc|]. split; cbn; auto.
    + destruct (map_of st1 v) as [[a es]|]; auto. apply frame_alloc_assign; auto.
  - apply with2_frame; auto. intros st1 st2 v w Et I2 X2 Keep.
    destruct (arr_of st2 v) as [[a l]|]; auto. destruct (arr_of st2 w) as [[b r]|]; auto. apply frame_alloc_assign; auto.
  - apply with2_frame; auto. intros st1 st2 v w Et I2 X2 Keep.
    destruct (arr_of st2 v) as [[a l]|]; auto. destruct (arr_of st2 w) as [[b r]|]; auto.
    apply frame_of_res; auto. intros marks _. apply frame_alloc_assign; auto.
  - apply with1_frame; auto. intros st1 v Et I1 X1.
    destruct (arr_of st1 v) as [[a l]|]; auto.
    destruct (Z.ltb (round_half start) 0); [apply frame_alloc_assign; auto|].
    destruct (Z.ltb (zlen l) (round_half start)); [apply frame_alloc_assign; auto|].
    destruct (Z.ltb (round_half len) 0); apply frame_alloc_assign; auto.
  - apply frame_alloc_assign. exists []. rewrite app_nil_r; auto.
  - apply with1_frame; auto. intros st1 v Et I1 X1.
    destruct (arr_of st1 v) as [[a l]|]; auto. apply frame_of_res; auto. intros [[[n es] ds]|] _; auto.
    apply frame_alloc_assign. cbn. destruct X1 as [e ->]. exists (e ++ repeat CKey n). rewrite app_assoc. auto.
  - apply with1_frame; auto. intros st1 v Et I1 X1.
    destruct (map_of st1 v) as [[a es]|] eqn:Em; auto.
    match goal with |- context [distinct_prints ?s] => destruct (negb (distinct_prints s)); auto end.
    match goal with |- context [thaw_list ?h ?ks] => destruct (thaw_list h ks) as [h2 vs] eqn:Et2 end.
    assert (F: forall ks h0 h2 vs, hwf h0 -> thaw_list h0 ks = (h2, vs) -> gext h0 h2).
    { induction ks as [|k ks IHk]; intros h0 h3 vs3 W0 R; cbn in R.
      - inversion R; subst. apply gext_refl; auto.
      - destruct (thaw h0 k) as [h' kv] eqn:Et3. destruct (thaw_gext _ _ _ _ W0 Et3) as [Gt Vt].
        destruct (thaw_list h' ks) as [h4 vs4] eqn:Er. inversion R; subst h3 vs3.
        eapply gext_trans; [exact Gt|]. eapply IHk; eauto. apply Gt. }
    apply frame_alloc_assign. cbn. destruct X1 as [e X1].
    destruct (gext_ext _ _ (F _ _ _ _ (proj1 (proj1 I1)) Et2)) as [e2 X2]. exists (e ++ e2). rewrite X2, X1, app_assoc. auto.
  - apply with2_frame; auto. intros st1 st2 mv kv Et I2 X2 Keep.
    destruct (map_of st2 mv) as [[a es]|]; auto. apply frame_of_res; auto. intros kt _.
    destruct (dict_find es kt) as [e|]; auto. destruct (vnil (snd e)); auto.
    apply frame_assign; auto. eapply frame_ext; [exact X2|apply frame_here].
  - apply with2_frame; auto. intros st1 st2 v w Et I2 X2 Keep. apply frame_of_res; auto. intros b _.
    eapply frame_ext; [exact X2|apply frame_here].
  - apply with2_frame; auto. intros st1 st2 v w Et I2 X2 Keep.
    destruct v, w; auto; eapply frame_ext; try exact X2; apply frame_here.
  - apply with2_frame; auto. intros st1 st2 v w Et I2 X2 Keep.
    destruct (arr_of st2 v) as [[a l]|]; auto. apply frame_of_res; auto. intros r _. eapply frame_ext; [exact X2|apply frame_here].
  - apply with2_frame; auto. intros st1 st2 v w Et I2 X2 Keep.
    destruct (arr_of st2 w) as [[a l]|].
    + apply frame_of_res; auto. intros r _. eapply frame_ext; [exact X2|apply frame_here].
    + destruct (map_of st2 w) as [[a es]|]; auto. apply frame_of_res; auto. intros r _. eapply frame_ext; [exact X2|apply frame_here].
  - apply with1_frame; auto. intros st1 v Et I1 X1.
    destruct (arr_of st1 v) as [[a l]|]; [eapply frame_ext; [exact X1|apply frame_here]|].
    destruct (map_of st1 v) as [[a es]|]; auto. eapply frame_ext; [exact X1|apply frame_here].
  - apply with2_frame; auto. intros st1 st2 mv kv Et I2 X2 Keep.
    destruct (map_of st2 mv) as [[a es]|]; auto. apply frame_of_res; auto. intros kt _. eapply frame_ext; [exact X2|apply frame_here].
  - apply with2_frame; auto. intros st1 st2 mv kv Et I2 X2 Keep.
    destruct (eval_opnd st2 x) as [[st3 xv]|] eqn:Ex; auto.
    destruct (eval_opnd_good _ _ _ _ I2 Ex) as (I3 & Vx & G3 & E3).
    destruct (map_of st3 mv) as [[a es]|] eqn:Em; auto. apply map_of_nth in Em. destruct Em as [-> Em].
    apply frame_of_res; auto. intros kt _. destruct (negb (key_ok kt)); auto.
    assert (X3: exists e, st_heap st3 = st_heap st ++ e).
    { destruct X2 as [e2 X2]. destruct (gext_ext _ _ G3) as [e3 X3]. exists (e2 ++ e3). rewrite X3, X2, app_assoc. auto. }
    unfold alloc.
    eapply frame_tgt with (st1 := {| st_heap := st_heap st3 ++ [CKey]; st_vars := st_vars st3 |});
      [|eapply tgt_of_eq; eauto|apply frame_commit_map].
    cbn. destruct X3 as [e ->]. exists (e ++ [CKey]). rewrite app_assoc. auto.
  - apply with2_frame; auto. intros st1 st2 mv kv Et I2 X2 Keep.
    destruct (map_of st2 mv) as [[a es]|] eqn:Em; auto. apply map_of_nth in Em. destruct Em as [-> Em].
    apply frame_of_res; auto. intros kt _.
    eapply frame_tgt; [exact X2|eapply tgt_of_eq; eauto|].
    destruct (dict_find es kt); [apply frame_upd|apply frame_here].
Qed.
Print Assumptions step_frame.

(* ------------------------------------------------------------------ along a history *)
(* no operation of the history works in place on the container at address a *)
Fixpoint untouched (d : defects) (a : nat) (st : state) (os : list op) : Prop :=
  match os with
  | [] => True
  | o :: os' => target_of st o <> Some a /\
                match o_status (step d st o) with
                | Done => untouched d a (o_state (step d st o)) os'
                | Invalid => untouched d a st os'
                | _ => True
                end
  end.

Theorem run_frame : forall os st a, Inv st -> a < length (st_heap st) -> untouched repaired a st os ->
  nth_error (st_heap (run repaired st os)) a = nth_error (st_heap st) a.
Proof.
  induction os as [|o os IH]; intros st a Hi Ha U; cbn; auto.
  destruct U as [Ht U]. pose proof (step_frame repaired st o Hi) as [L F]. pose proof (step_good st o Hi) as [G _].
  destruct (o_status (step repaired st o)); auto.
  rewrite IH; auto. lia.
Qed.

(* operations whose result is a new container assigned to dst *)
Definition fresh_op (o : op) (dst : nat) : Prop :=
  match o with
  | OpCopy d _ | OpConcat d _ _ | OpMinus d _ _ | OpSelRange d _ _ _ | OpNewMap d | OpMapFromArray d _ | OpKeys d _ => d = dst
  | _ => False
  end.

Lemma assign_done st0 dst o st' : o_status (assign_result st0 dst o) = Done -> o_state (assign_result st0 dst o) = st' ->
  o_status o = Done /\ st_heap st' = st_heap (o_state o) /\ nth_error (st_vars st') dst = Some (o_result o).
Proof.
  unfold assign_result. destruct (o_status o) eqn:Es; try (intros H; rewrite Es in H; discriminate).
  destruct (existsb is_error (o_diags o)); [cbn; discriminate|].
  destruct (setvar (o_state o) dst (o_result o)) as [s|] eqn:E; [|cbn; discriminate].
  cbn. intros _ <-. unfold setvar in E. destruct (Nat.ltb dst (length (st_vars (o_state o)))) eqn:El; [|discriminate].
  inversion E; subst s. cbn. split; auto. split; auto. apply Nat.ltb_lt in El.
  apply nth_error_set_nth_eq; auto.
Qed.

Lemma alloc_assign_fresh st0 st1 dst c ds st' :
  length (st_heap st0) <= length (st_heap st1) ->
  o_status (let '(st2, res) := alloc st1 c in assign_result st0 dst (mk Done st2 ds res)) = Done ->
  o_state (let '(st2, res) := alloc st1 c in assign_result st0 dst (mk Done st2 ds res)) = st' ->
  exists r, nth_error (st_vars st') dst = Some (VRef r) /\ length (st_heap st0) <= r /\ r < length (st_heap st').
Proof.
  intros L S E. unfold alloc in *. destruct (assign_done _ _ _ _ S E) as (_ & Hh & Hv). cbn in Hh, Hv.
  exists (length (st_heap st1)). split; auto. split; auto. rewrite Hh, app_length. cbn. lia.
Qed.

Lemma ext_len (h h' : list cell) : (exists e, h' = h ++ e) -> length h <= length h'.
Proof. intros [e ->]. rewrite app_length. lia. Qed.

Ltac fresh_tac L :=
  match goal with
  | S : o_status (let '(_, _) := alloc ?s1 _ in assign_result ?s0 _ _) = Done |- _ =>
      eapply (alloc_assign_fresh s0 s1); [L|exact S|reflexivity]
  end.

Theorem fresh_result : forall st o dst, Inv st -> fresh_op o dst -> o_status (step repaired st o) = Done ->
  exists r, nth_error (st_vars (o_state (step repaired st o))) dst = Some (VRef r) /\
            length (st_heap st) <= r /\ r < length (st_heap (o_state (step repaired st o))).
Proof.
  intros st o dst Hi Fo. destruct o; cbn in Fo; try contradiction; subst; cbn [step]; unfold with2, with1.
  - (* copy *)
    destruct (eval_opnd st x) as [[st1 v]|] eqn:E; [|intros S0; cbn in S0; discriminate S0].
    destruct (eval_opnd_good _ _ _ _ Hi E) as (I1 & V1 & G1 & E1).
    destruct (arr_of st1 v) as [[a l]|] eqn:Ea.
    + destruct (copy_deep (fuel_of (st_heap st1)) (st_heap st1) a) as [[h' a']| |] eqn:Ec; cbn [of_res]; try (intros S0; cbn in S0; discriminate S0).
      intros S. destruct (assign_done _ _ _ _ S eq_refl) as (_ & Hh & Hv). cbn [o_state o_result mk st_heap] in Hh, Hv.
      destruct (copy_deep_gext3 _ _ _ _ _ (proj1 (proj1 I1)) Ec) as (Gc & Ia & La).
      exists a'. split; auto. rewrite Hh. pose proof (gext_len _ _ G1). split; [lia|].
      apply cont_lt, is_arr_cont; auto.
    + destruct (map_of st1 v) as [[a es]|]; [|intros S0; cbn in S0; discriminate S0].
      intros S. fresh_tac ltac:(apply gext_len; auto).
  - destruct (eval_opnd st x) as [[st1 v]|] eqn:E; [|intros S0; cbn in S0; discriminate S0].
    destruct (eval_opnd_good _ _ _ _ Hi E) as (I1 & V1 & G1 & E1).
    destruct (eval_opnd st1 y) as [[st2 w]|] eqn:E2; [|intros S0; cbn in S0; discriminate S0].
    destruct (eval_opnd_good _ _ _ _ I1 E2) as (I2 & V2 & G2 & E2').
    destruct (arr_of st2 v) as [[a l]|]; [|intros S0; cbn in S0; discriminate S0]. destruct (arr_of st2 w) as [[b r]|]; [|intros S0; cbn in S0; discriminate S0].
    intros S. fresh_tac ltac:(pose proof (gext_len _ _ G1); pose proof (gext_len _ _ G2); lia).
  - destruct (eval_opnd st x) as [[st1 v]|] eqn:E; [|intros S0; cbn in S0; discriminate S0].
    destruct (eval_opnd_good _ _ _ _ Hi E) as (I1 & V1 & G1 & E1).
    destruct (eval_opnd st1 y) as [[st2 w]|] eqn:E2; [|intros S0; cbn in S0; discriminate S0].
    destruct (eval_opnd_good _ _ _ _ I1 E2) as (I2 & V2 & G2 & E2').
    destruct (arr_of st2 v) as [[a l]|]; [|intros S0; cbn in S0; discriminate S0]. destruct (arr_of st2 w) as [[b r]|]; [|intros S0; cbn in S0; discriminate S0].
    match goal with |- context [of_res st ?m _] => destruct m as [marks| |]; cbn [of_res]; try (intros S0; cbn in S0; discriminate S0) end.
    intros S. fresh_tac ltac:(pose proof (gext_len _ _ G1); pose proof (gext_len _ _ G2); lia).
  - destruct (eval_opnd st x) as [[st1 v]|] eqn:E; [|intros S0; cbn in S0; discriminate S0].
    destruct (eval_opnd_good _ _ _ _ Hi E) as (I1 & V1 & G1 & E1).
    destruct (arr_of st1 v) as [[a l]|]; [|intros S0; cbn in S0; discriminate S0].
    pose proof (gext_len _ _ G1).
    destruct (Z.ltb (round_half start) 0); [intros S; fresh_tac ltac:(exact H)|].
    destruct (Z.ltb (zlen l) (round_half start)); [intros S; fresh_tac ltac:(exact H)|].
    destruct (Z.ltb (round_half len) 0); intros S; fresh_tac ltac:(exact H).
  - intros S. fresh_tac ltac:(apply le_n).
  - destruct (eval_opnd st x) as [[st1 v]|] eqn:E; [|intros S0; cbn in S0; discriminate S0].
    destruct (eval_opnd_good _ _ _ _ Hi E) as (I1 & V1 & G1 & E1).
    destruct (arr_of st1 v) as [[a l]|]; [|intros S0; cbn in S0; discriminate S0].
    destruct (mfa_go st1 l 0 [] []) as [[[[n es] ds]|]| |]; cbn [of_res]; try (intros S0; cbn in S0; discriminate S0).
    intros S. fresh_tac ltac:(cbn; rewrite app_length; pose proof (gext_len _ _ G1); lia).
  - destruct (eval_opnd st m) as [[st1 v]|] eqn:E; [|intros S0; cbn in S0; discriminate S0].
    destruct (eval_opnd_good _ _ _ _ Hi E) as (I1 & V1 & G1 & E1).
    destruct (map_of st1 v) as [[a es]|]; [|intros S0; cbn in S0; discriminate S0].
    match goal with |- context [distinct_prints ?s] => destruct (negb (distinct_prints s)); [intros S0; cbn in S0; discriminate S0|] end.
    match goal with |- context [thaw_list ?h ?ks] => destruct (thaw_list h ks) as [h2 vs] eqn:Et2 end.
    assert (F: forall ks h0 h2 vs, thaw_list h0 ks = (h2, vs) -> hwf h0 -> length h0 <= length h2).
    { induction ks as [|k ks IHk]; intros h0 h3 vs3 R W0; cbn in R.
      - inversion R; subst; auto.
      - destruct (thaw h0 k) as [h' kv] eqn:Et3. destruct (thaw_gext _ _ _ _ W0 Et3) as [Gt Vt].
        destruct (thaw_list h' ks) as [h4 vs4] eqn:Er. inversion R; subst h3 vs3.
        pose proof (gext_len _ _ Gt). specialize (IHk _ _ _ Er (proj1 (proj2 Gt))). lia. }
    intros S. fresh_tac ltac:(cbn; pose proof (gext_len _ _ G1); specialize (F _ _ _ _ Et2 (proj1 (proj1 I1))); lia).
Qed.

(* results of +x, x + y, x - y, x select [..], keys m, createHashMap(FromArray) are containers
   that did not exist before, and no later history that does not work in place on the result
   itself changes them - whatever it does to the operands *)
Theorem fresh_results_independent : forall st o dst, Inv st -> fresh_op o dst ->
  o_status (step repaired st o) = Done ->
  let st' := o_state (step repaired st o) in
  exists r, nth_error (st_vars st') dst = Some (VRef r) /\ length (st_heap st) <= r /\
            forall os, untouched repaired r st' os ->
                       nth_error (st_heap (run repaired st' os)) r = nth_error (st_heap st') r.
Proof.
  intros st o dst Hi Fo S st'. destruct (fresh_result st o dst Hi Fo S) as (r & Hv & Hl & Hr).
  exists r. split; auto. split; auto. intros os U. apply run_frame; auto. apply step_good; auto.
Qed.
Print Assumptions fresh_results_independent.
