(* C07: a bucketed unique-key table (what std::unordered_map is: an entry lives in the bucket
   of its key's hash, a search looks at that bucket only) behaves as the reference dictionary
   (an association list searched with the key equality) whenever equal keys hash equally.
   Generic in keys, values, hash and bucket-index function; instantiated with trees, teq and
   vhash in Properties_C07.v. *)
From Coq Require Import ZArith List Bool Arith Lia.
Import ListNotations.

Section Bucket.
  Variables K V : Type.
  Variable keq : K -> K -> bool.        (* value::operator== on keys *)
  Variable khash : K -> Z.
  Variable bidx : Z -> nat -> nat.      (* hash -> bucket, for a table of n buckets *)
  Variable good : K -> Prop.            (* the keys the laws are known for (well-formed values) *)
  Hypothesis keq_sym : forall a b, good a -> good b -> keq a b = keq b a.
  Hypothesis keq_trans : forall a b c, keq a b = true -> keq b c = true -> keq a c = true.
  Hypothesis hash_ok : forall a b, good a -> good b -> keq a b = true -> khash a = khash b.
  Hypothesis bidx_lt : forall h n, 0 < n -> bidx h n < n.

  Notation entry := (K * V)%type.

  (* ---------------- reference dictionary *)
  Definition dfind (es : list entry) (q : K) : option entry := find (fun e => keq q (fst e)) es.
  Fixpoint dset (es : list entry) (k : K) (v : V) : list entry :=
    match es with
    | [] => [(k, v)]
    | e :: es' => if keq k (fst e) then (fst e, v) :: es' else e :: dset es' k v
    end.
  Fixpoint ddel (es : list entry) (k : K) : list entry :=
    match es with
    | [] => []
    | e :: es' => if keq k (fst e) then es' else e :: ddel es' k
    end.
  Definition dget (es : list entry) (q : K) : option V := option_map snd (dfind es q).

  Definition goods (es : list entry) : Prop := Forall (fun e => good (fst e)) es.
  (* unique keys *)
  Fixpoint dist (es : list entry) : Prop :=
    match es with [] => True | e :: es' => (forall e', In e' es' -> keq (fst e) (fst e') = false) /\ dist es' end.

  Lemma keq_class q k x : good q -> good k -> good x -> keq q k = true -> keq q x = keq k x.
  Proof.
    intros Gq Gk Gx E. destruct (keq k x) eqn:E1.
    - eapply keq_trans; eauto.
    - destruct (keq q x) eqn:E2; auto. rewrite keq_sym in E by auto. rewrite (keq_trans _ _ _ E E2) in E1. discriminate.
  Qed.

  Lemma goods_dset es k v : goods es -> good k -> goods (dset es k v).
  Proof.
    intros G Gk. induction G as [|e es Ge G IH]; cbn; [constructor; auto; constructor|].
    destruct (keq k (fst e)); constructor; auto.
  Qed.
  Lemma goods_ddel es k : goods es -> goods (ddel es k).
  Proof. intros G. induction G as [|e es Ge G IH]; cbn; [constructor|]. destruct (keq k (fst e)); auto. constructor; auto. Qed.

  (* lookups after an update *)
  Lemma dget_dset es k v q : goods es -> good k -> good q ->
    dget (dset es k v) q = if keq q k then Some v else dget es q.
  Proof.
    intros G Gk Gq. unfold dget, dfind. induction G as [|e es Ge G IH]; cbn.
    - destruct (keq q k); reflexivity.
    - destruct (keq k (fst e)) eqn:Ek; cbn.
      + destruct (keq q k) eqn:Eq.
        * rewrite (keq_class q k (fst e)); auto. rewrite Ek. reflexivity.
        * destruct (keq q (fst e)) eqn:Eqe; auto.
          (* q ~ e and k ~ e would give q ~ k *)
          exfalso. rewrite (keq_sym k (fst e)) in Ek by auto. rewrite (keq_trans _ _ _ Eqe Ek) in Eq. discriminate.
      + destruct (keq q (fst e)) eqn:Eqe; cbn.
        * destruct (keq q k) eqn:Eq; auto.
          exfalso. rewrite (keq_class q k (fst e)) in Eqe; auto. congruence.
        * exact IH.
  Qed.

  Lemma dfind_none_all es q : dfind es q = None <-> forall e, In e es -> keq q (fst e) = false.
  Proof.
    unfold dfind. split.
    - intros H e He. eapply find_none in H; eauto.
    - intros H. induction es as [|e es IH]; cbn; auto. rewrite (H e (or_introl eq_refl)). apply IH. intros; apply H; right; auto.
  Qed.

  Lemma dist_dset es k v : goods es -> good k -> dist es -> dist (dset es k v).
  Proof.
    intros G Gk. induction G as [|e es Ge G IH]; intros D; cbn; [split; [intros ? []|exact I]|].
    destruct D as [D1 D2]. destruct (keq k (fst e)) eqn:Ek; cbn.
    - split; auto.
    - split; [|apply IH; auto]. intros e' He'.
      (* e' is an old entry, or the entry of k *)
      assert (X: In e' es \/ fst e' = k \/ (exists e0, In e0 es /\ fst e' = fst e0)).
      { clear - He'. induction es as [|x es IHx]; cbn in He'.
        - destruct He' as [<-|[]]. right; left; auto.
        - destruct (keq k (fst x)).
          + destruct He' as [<-|He']; [right; right; exists x; split; [left; auto|auto]|left; right; auto].
          + destruct He' as [<-|He']; [left; left; auto|]. destruct (IHx He') as [?|[?|(e0 & ? & ?)]]; auto.
            * left; right; auto.
            * right; right; exists e0; split; [right; auto|auto]. }
      destruct X as [X|[X|(e0 & X1 & X2)]]; [apply D1; auto| |rewrite X2; apply D1; auto].
      rewrite X. rewrite keq_sym; auto.
  Qed.
  Lemma ddel_sub es k e : In e (ddel es k) -> In e es.
  Proof. induction es as [|x es IH]; cbn; [tauto|]. destruct (keq k (fst x)); cbn; intuition. Qed.
  Lemma dist_ddel es k : dist es -> dist (ddel es k).
  Proof.
    induction es as [|e es IH]; cbn; auto. intros [D1 D2]. destruct (keq k (fst e)); auto. cbn. split; auto.
    intros e' He'. apply D1. eapply ddel_sub; eauto.
  Qed.

  Lemma dget_ddel es k q : goods es -> good k -> good q -> dist es ->
    dget (ddel es k) q = if keq q k then None else dget es q.
  Proof.
    intros G Gk Gq. unfold dget, dfind. induction G as [|e es Ge G IH]; intros D; cbn.
    - destruct (keq q k); reflexivity.
    - destruct D as [D1 D2]. destruct (keq k (fst e)) eqn:Ek; cbn.
      + destruct (keq q k) eqn:Eq.
        * (* nothing else matches q: keys are unique *)
          assert (N: find (fun e0 => keq q (fst e0)) es = None).
          { apply dfind_none_all. intros e' He'. rewrite (keq_class q k (fst e')); auto.
            - destruct (keq k (fst e')) eqn:E'; auto. exfalso.
              rewrite (keq_sym k (fst e)) in Ek by auto. rewrite (keq_sym k (fst e')) in E' by (auto; eapply Forall_forall in G; eauto).
              assert (keq (fst e) (fst e') = true).
              { rewrite keq_sym in Ek by auto. rewrite keq_sym in E' by (auto; eapply Forall_forall in G; eauto).
                eapply keq_trans; [|exact E']. rewrite keq_sym; auto. }
              rewrite D1 in H; auto. discriminate.
            - eapply Forall_forall in G; eauto. }
          rewrite N. reflexivity.
        * destruct (keq q (fst e)) eqn:Eqe; auto.
          exfalso. rewrite (keq_sym k (fst e)) in Ek by auto. rewrite (keq_trans _ _ _ Eqe Ek) in Eq. discriminate.
      + destruct (keq q (fst e)) eqn:Eqe; cbn.
        * destruct (keq q k) eqn:Eq; auto.
          exfalso. rewrite (keq_class q k (fst e)) in Eqe; auto. congruence.
        * apply IH; auto.
  Qed.

  Lemma length_dset es k v : length (dset es k v) = if dfind es k then length es else S (length es).
  Proof.
    unfold dfind. induction es as [|e es IH]; cbn; auto. destruct (keq k (fst e)); cbn; auto.
    rewrite IH. destruct (find _ es); auto.
  Qed.
  Lemma length_ddel es k : length (ddel es k) = if dfind es k then pred (length es) else length es.
  Proof.
    unfold dfind. induction es as [|e es IH]; cbn; auto. destruct (keq k (fst e)); cbn; auto.
    rewrite IH. destruct (find _ es) eqn:F; auto. destruct es; cbn in *; [discriminate|auto].
  Qed.

  (* ---------------- the bucketed table *)
  Definition table := list (list entry).
  Inductive bres (A : Type) := BOk (a : A) | BOut.    (* BOut: a bucket index outside the table (never, see below) *)
  Arguments BOk {A} a. Arguments BOut {A}.

  Definition slot (t : table) (k : K) : nat := bidx (khash k) (length t).
  Definition bget (t : table) (q : K) : bres (option V) :=
    match nth_error t (slot t q) with Some b => BOk (dget b q) | None => BOut end.
  Fixpoint set_bucket (t : table) (i : nat) (b : list entry) : table :=
    match t, i with
    | [], _ => []
    | _ :: t', O => b :: t'
    | x :: t', S i' => x :: set_bucket t' i' b
    end.
  Definition bset (t : table) (k : K) (v : V) : bres table :=
    match nth_error t (slot t k) with Some b => BOk (set_bucket t (slot t k) (dset b k v)) | None => BOut end.
  Definition bdel (t : table) (k : K) : bres table :=
    match nth_error t (slot t k) with Some b => BOk (set_bucket t (slot t k) (ddel b k)) | None => BOut end.
  Definition bcount (t : table) : nat := length (concat t).

  (* every entry sits in the bucket of its key's hash; keys unique per bucket *)
  Definition tinv (t : table) : Prop :=
    0 < length t /\
    forall i b, nth_error t i = Some b -> goods b /\ dist b /\ forall e, In e b -> slot t (fst e) = i.

  Lemma length_set_bucket t i b : length (set_bucket t i b) = length t.
  Proof. revert i; induction t; destruct i; cbn; auto. Qed.
  Lemma nth_set_bucket_eq t i b : i < length t -> nth_error (set_bucket t i b) i = Some b.
  Proof. revert i; induction t; destruct i; cbn; intros; try lia; auto. apply IHt; lia. Qed.
  Lemma nth_set_bucket_neq t i j b : i <> j -> nth_error (set_bucket t i b) j = nth_error t j.
  Proof. revert i j; induction t; destruct i, j; cbn; intros; try congruence; auto. Qed.

  Lemma slot_lt t k : 0 < length t -> slot t k < length t.
  Proof. intros; apply bidx_lt; auto. Qed.

  Lemma bget_ok t q : tinv t -> exists r, bget t q = BOk r.
  Proof.
    intros [L _]. unfold bget. destruct (nth_error t (slot t q)) eqn:E; eauto.
    apply nth_error_None in E. pose proof (slot_lt t q L). lia.
  Qed.

  Lemma dset_keys es k v e : In e (dset es k v) -> fst e = k \/ exists e0, In e0 es /\ fst e = fst e0.
  Proof.
    induction es as [|x es IH]; cbn.
    - intros [<-|[]]; auto.
    - destruct (keq k (fst x)).
      + intros [E|H]; right; [exists x; split; [left; auto|subst; auto]|exists e; split; [right; auto|auto]].
      + intros [E|H]; [right; exists x; split; [left; auto|subst; auto]|].
        destruct (IH H) as [?|(e0 & ? & ?)]; auto. right. exists e0. split; [right; auto|auto].
  Qed.

  Lemma tinv_bset t k v t' : tinv t -> good k -> bset t k v = BOk t' -> tinv t'.
  Proof.
    intros [L I] Gk E. unfold bset in E. destruct (nth_error t (slot t k)) as [b|] eqn:Eb; [|discriminate].
    inversion E; subst t'. clear E. split; [rewrite length_set_bucket; auto|].
    intros i b' Eb'. unfold slot. rewrite length_set_bucket. fold (slot t).
    destruct (Nat.eq_dec (slot t k) i) as [<-|Hne].
    - rewrite nth_set_bucket_eq in Eb' by (apply slot_lt; auto). inversion Eb'; subst b'.
      destruct (I _ _ Eb) as (G & D & S). split; [apply goods_dset; auto|]. split; [apply dist_dset; auto|].
      intros e He. change (slot t (fst e) = slot t k). destruct (dset_keys _ _ _ _ He) as [->|(e0 & H0 & ->)]; auto.
    - rewrite nth_set_bucket_neq in Eb' by auto. destruct (I _ _ Eb') as (G & D & S). split; auto.
  Qed.
  Lemma tinv_bdel t k t' : tinv t -> bdel t k = BOk t' -> tinv t'.
  Proof.
    intros [L I] E. unfold bdel in E. destruct (nth_error t (slot t k)) as [b|] eqn:Eb; [|discriminate].
    inversion E; subst t'. clear E. split; [rewrite length_set_bucket; auto|].
    intros i b' Eb'. unfold slot. rewrite length_set_bucket. fold (slot t).
    destruct (Nat.eq_dec (slot t k) i) as [<-|Hne].
    - rewrite nth_set_bucket_eq in Eb' by (apply slot_lt; auto). inversion Eb'; subst b'.
      destruct (I _ _ Eb) as (G & D & S). split; [apply goods_ddel; auto|]. split; [apply dist_ddel; auto|].
      intros e He. change (slot t (fst e) = slot t k). apply S. eapply ddel_sub; eauto.
    - rewrite nth_set_bucket_neq in Eb' by auto. destruct (I _ _ Eb') as (G & D & S). split; auto.
  Qed.

  (* an equal key can only be in the bucket of the query: this is where hash_ok is used *)
  Lemma other_bucket_no_match t i b q : tinv t -> good q -> nth_error t i = Some b -> slot t q <> i ->
    dget b q = None.
  Proof.
    intros [L I] Gq Eb Hne. destruct (I _ _ Eb) as (G & D & S).
    unfold dget. replace (dfind b q) with (@None entry); auto. symmetry. apply dfind_none_all.
    intros e He. destruct (keq q (fst e)) eqn:E; auto. exfalso. apply Hne. rewrite <- (S e He).
    unfold slot. rewrite (hash_ok q (fst e)); auto. eapply Forall_forall in G; eauto.
  Qed.

  Lemma bget_bset t k v t' q : tinv t -> good k -> good q -> bset t k v = BOk t' ->
    forall r, bget t q = BOk r -> bget t' q = BOk (if keq q k then Some v else r).
  Proof.
    intros T Gk Gq E r R. pose proof T as [L I]. unfold bset in E.
    destruct (nth_error t (slot t k)) as [b|] eqn:Eb; [|discriminate]. inversion E; subst t'. clear E.
    unfold bget in *. unfold slot in *. rewrite length_set_bucket. fold (slot t q) in *. fold (slot t k) in *.
    destruct (nth_error t (slot t q)) as [bq|] eqn:Eq; [|discriminate]. inversion R; subst r. clear R.
    destruct (I _ _ Eb) as (G & D & S).
    destruct (Nat.eq_dec (slot t k) (slot t q)) as [Hs|Hne].
    - rewrite Hs in *. rewrite nth_set_bucket_eq by (apply slot_lt; auto). rewrite Eq in Eb. inversion Eb; subst bq.
      rewrite dget_dset; auto.
    - rewrite nth_set_bucket_neq by auto. rewrite Eq.
      destruct (keq q k) eqn:E; auto. exfalso. apply Hne. unfold slot. rewrite (hash_ok q k); auto.
  Qed.

  Lemma bget_bdel t k t' q : tinv t -> good k -> good q -> bdel t k = BOk t' ->
    forall r, bget t q = BOk r -> bget t' q = BOk (if keq q k then None else r).
  Proof.
    intros T Gk Gq E r R. pose proof T as [L I]. unfold bdel in E.
    destruct (nth_error t (slot t k)) as [b|] eqn:Eb; [|discriminate]. inversion E; subst t'. clear E.
    unfold bget in *. unfold slot in *. rewrite length_set_bucket. fold (slot t q) in *. fold (slot t k) in *.
    destruct (nth_error t (slot t q)) as [bq|] eqn:Eq; [|discriminate]. inversion R; subst r. clear R.
    destruct (I _ _ Eb) as (G & D & S).
    destruct (Nat.eq_dec (slot t k) (slot t q)) as [Hs|Hne].
    - rewrite Hs in *. rewrite nth_set_bucket_eq by (apply slot_lt; auto). rewrite Eq in Eb. inversion Eb; subst bq.
      rewrite dget_ddel; auto.
    - rewrite nth_set_bucket_neq by auto. rewrite Eq.
      destruct (keq q k) eqn:E; auto. exfalso. apply Hne. unfold slot. rewrite (hash_ok q k); auto.
  Qed.

  Lemma concat_set_bucket_len t i b b0 : nth_error t i = Some b0 ->
    length (concat (set_bucket t i b)) + length b0 = length (concat t) + length b.
  Proof.
    revert i; induction t as [|x t IH]; destruct i; cbn; intros E; try discriminate.
    - inversion E; subst. rewrite !app_length. lia.
    - specialize (IH _ E). rewrite !app_length. lia.
  Qed.

  (* ---------------- histories *)
  Inductive hop := HSet (k : K) (v : V) | HDel (k : K).
  Definition hgood (o : hop) : Prop := match o with HSet k _ => good k | HDel k => good k end.

  Definition dstep (es : list entry) (o : hop) : list entry :=
    match o with HSet k v => dset es k v | HDel k => ddel es k end.
  Definition bstep (t : table) (o : hop) : bres table :=
    match o with HSet k v => bset t k v | HDel k => bdel t k end.
  Fixpoint drun (es : list entry) (os : list hop) : list entry :=
    match os with [] => es | o :: os' => drun (dstep es o) os' end.
  Fixpoint brun (t : table) (os : list hop) : bres table :=
    match os with [] => BOk t | o :: os' => match bstep t o with BOk t' => brun t' os' | BOut => BOut end end.

  (* the table represents the dictionary: same lookups for every (good) key, same count *)
  Definition represents (t : table) (es : list entry) : Prop :=
    tinv t /\ goods es /\ dist es /\ bcount t = length es /\
    forall q, good q -> bget t q = BOk (dget es q).

  Lemma represents_empty n : 0 < n -> represents (repeat [] n) [].
  Proof.
    intros Hn. split; [split|].
    - rewrite repeat_length; auto.
    - intros i b E. apply nth_error_In, repeat_spec in E. subst. split; [constructor|]. split; [exact I|]. intros ? [].
    - split; [constructor|]. split; [exact I|]. split.
      + unfold bcount. induction n as [|n IH]; cbn; auto. destruct n; cbn; auto. apply IH. lia.
      + intros q _. unfold bget. destruct (nth_error (repeat [] n) (slot (repeat [] n) q)) eqn:E.
        * apply nth_error_In, repeat_spec in E. subst. reflexivity.
        * apply nth_error_None in E. pose proof (slot_lt (repeat [] n) q). rewrite repeat_length in *. lia.
  Qed.

  Lemma found_agree t es k : represents t es -> good k ->
    forall b, nth_error t (slot t k) = Some b -> (if dfind b k then true else false) = (if dfind es k then true else false).
  Proof.
    intros (T & G & D & C & L) Gk b Eb. specialize (L k Gk). unfold bget in L. rewrite Eb in L. inversion L as [X].
    unfold dget in X. destruct (dfind b k), (dfind es k); cbn in X; try discriminate; auto.
  Qed.

  Lemma represents_step t es o : represents t es -> hgood o ->
    exists t', bstep t o = BOk t' /\ represents t' (dstep es o).
  Proof.
    intros R Go. pose proof R as (T & G & D & C & L). pose proof T as [Lt I].
    destruct o as [k v|k]; cbn in *.
    - destruct (nth_error t (slot t k)) as [b|] eqn:Eb.
      2:{ apply nth_error_None in Eb. pose proof (slot_lt t k Lt). lia. }
      assert (E: bset t k v = BOk (set_bucket t (slot t k) (dset b k v))) by (unfold bset; rewrite Eb; auto).
      eexists; split; [exact E|].
      split; [eapply tinv_bset; eauto|]. split; [apply goods_dset; auto|]. split; [apply dist_dset; auto|]. split.
      + unfold bcount. pose proof (concat_set_bucket_len t (slot t k) (dset b k v) b Eb) as Hc.
        rewrite !length_dset in *. pose proof (found_agree t es k R Go b Eb) as FA.
        unfold bcount in C. destruct (dfind b k), (dfind es k); cbn in FA; try discriminate; lia.
      + intros q Gq. rewrite (bget_bset t k v _ q T Go Gq E _ (L q Gq)). rewrite dget_dset; auto.
    - destruct (nth_error t (slot t k)) as [b|] eqn:Eb.
      2:{ apply nth_error_None in Eb. pose proof (slot_lt t k Lt). lia. }
      assert (E: bdel t k = BOk (set_bucket t (slot t k) (ddel b k))) by (unfold bdel; rewrite Eb; auto).
      eexists; split; [exact E|].
      split; [eapply tinv_bdel; eauto|]. split; [apply goods_ddel; auto|]. split; [apply dist_ddel; auto|]. split.
      + unfold bcount. pose proof (concat_set_bucket_len t (slot t k) (ddel b k) b Eb) as Hc.
        rewrite !length_ddel in *. pose proof (found_agree t es k R Go b Eb) as FA.
        unfold bcount in C.
        assert (Lb: dfind b k <> None -> 0 < length b).
        { unfold dfind. destruct b; cbn; [congruence|lia]. }
        assert (Le: dfind es k <> None -> 0 < length es).
        { unfold dfind. destruct es; cbn; [congruence|lia]. }
        destruct (dfind b k) eqn:F1, (dfind es k) eqn:F2; cbn in FA; try discriminate; try lia.
        specialize (Lb ltac:(discriminate)). specialize (Le ltac:(discriminate)). lia.
      + intros q Gq. rewrite (bget_bdel t k _ q T Go Gq E _ (L q Gq)). rewrite dget_ddel; auto.
  Qed.

  (* for EVERY history: the bucketed table never leaves its index range and its observable
     content (get / in for every key, count) is that of the reference dictionary *)
  Theorem hashmap_refines_dict : forall os t es, represents t es -> Forall hgood os ->
    exists t', brun t os = BOk t' /\ represents t' (drun es os).
  Proof.
    induction os as [|o os IH]; intros t es R F; cbn; [eauto|].
    inversion F as [|? ? Go Fo]; subst.
    destruct (represents_step t es o R Go) as (t1 & E1 & R1). rewrite E1. apply IH; auto.
  Qed.
End Bucket.
Print Assumptions hashmap_refines_dict.
