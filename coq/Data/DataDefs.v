(* M3 - data model for C07 (equality / hashing / HashMap) and C08 (arrays are shared
   references, copies independent, never cyclic).  Definitions only (no proofs), so that the
   executable model still extracts when a proof breaks.

   Mirrors (file:line of /repo/src):
     runtime/value.h:48            value::operator==        -> teq / veq
     runtime/data.h:72-77          data::equals             -> tdeq / deq  (type test, pointer short-cut, do_equals)
     runtime/d_array.h:63-87       d_array::do_equals       -> the "nil inside an array compares false" rule
     runtime/d_array.h:31-61,145   recursion_test_          -> rt (path-based DFS, explicit fuel)
     runtime/d_array.h:95-110      copy_deep                -> copy_deep (arrays copied, everything else shared)
     runtime/d_array.h:112-126     to_string_sqf            -> freeze + print_tree
     runtime/d_array.h:185-193     hash                     -> vhash (TArr)
     runtime/d_scalar.h:26-29,51   float ==, std::hash<float>
     runtime/d_string.h:27-43      case rule of ==
     runtime/d_code.h:29-34,91     instruction-wise equality, hash
     operators/ops_hashmap.h/.cpp  HashMap
     operators/ops_logic.cpp:85-107 ==, isEqualTo
     operators/ops_generic.cpp     array operators (lines cited at each definition)          *)
From Coq Require Import ZArith List Bool Arith Lia.
Import ListNotations.
Local Open Scope Z_scope.

(* ------------------------------------------------------------------------------------ *)
(* generic helpers; defined inside sections so that nested recursive definitions unfold   *)

Section ListFuns.
  Context {A B : Type}.
  Variable f : A -> B -> bool.
  Fixpoint forall2b (l1 : list A) (l2 : list B) : bool :=
    match l1, l2 with
    | [], [] => true
    | x :: l1', y :: l2' => f x y && forall2b l1' l2'
    | _, _ => false
    end.
End ListFuns.

(* outcome of a function that walks the heap: UB = a dangling reference (cannot happen on a
   well-formed heap, never defaulted); OutOfFuel = the walk is deeper than the fuel *)
Inductive res (A : Type) := Ok (a : A) | UB | OutOfFuel.
Arguments Ok {A} a.
Arguments UB {A}.
Arguments OutOfFuel {A}.

Definition rbind {A B} (r : res A) (k : A -> res B) : res B :=
  match r with Ok a => k a | UB => UB | OutOfFuel => OutOfFuel end.

Section ResFuns.
  Context {A B : Type}.
  Variable g : A -> res B.
  Fixpoint res_map (l : list A) : res (list B) :=
    match l with
    | [] => Ok []
    | x :: l' => match g x with
                 | Ok y => match res_map l' with Ok ys => Ok (y :: ys) | UB => UB | OutOfFuel => OutOfFuel end
                 | UB => UB | OutOfFuel => OutOfFuel end
    end.
End ResFuns.

Section ResAll.
  Context {A : Type}.
  Variable g : A -> res bool.
  (* sequential conjunction that stops at the first element that is not "true" *)
  Fixpoint res_all (l : list A) : res bool :=
    match l with
    | [] => Ok true
    | x :: l' => match g x with Ok true => res_all l' | r => r end
    end.
  (* sequential disjunction that stops at the first element that is not "false" *)
  Fixpoint res_any (l : list A) : res bool :=
    match l with
    | [] => Ok false
    | x :: l' => match g x with Ok false => res_any l' | r => r end
    end.
End ResAll.

Section ResState.
  Context {S A B : Type}.
  Variable g : S -> A -> res (S * B).
  Fixpoint res_mapS (s : S) (l : list A) : res (S * list B) :=
    match l with
    | [] => Ok (s, [])
    | x :: l' => match g s x with
                 | Ok (s1, y) => match res_mapS s1 l' with
                                 | Ok (s2, ys) => Ok (s2, y :: ys) | UB => UB | OutOfFuel => OutOfFuel end
                 | UB => UB | OutOfFuel => OutOfFuel end
    end.
End ResState.

(* ------------------------------------------------------------------------------------ *)
(* leaves *)

(* The runtime's float, restricted to what the correspondence can print without a model of
   %g: multiples of one half (SHalf t = t/2), -0, +-inf, NaN.  A NaN carries the identity of
   its d_scalar object because data::equals (data.h:75) answers true for the same object
   before it looks at the float: `_x = sqrt -1; _x isEqualTo _x` is true. *)
Inductive scalar := SHalf (t : Z) | SNegZero | SNaN (id : Z) | SPInf | SNInf.

Definition fzero (a : scalar) : bool :=
  match a with SHalf 0 => true | SNegZero => true | _ => false end.

(* d_scalar.h:26-29 (m_value == other) behind data.h:75 (same object) *)
Definition feq (a b : scalar) : bool :=
  match a, b with
  | SHalf x, SHalf y => Z.eqb x y
  | SNaN i, SNaN j => Z.eqb i j
  | SPInf, SPInf => true
  | SNInf, SNInf => true
  | _, _ => fzero a && fzero b
  end.

Definition is_nan (a : scalar) : bool := match a with SNaN _ => true | _ => false end.

Notation bytes := (list Z) (only parsing).

Fixpoint streq (a b : bytes) : bool :=
  match a, b with
  | [], [] => true
  | x :: a', y :: b' => Z.eqb x y && streq a' b'
  | _, _ => false
  end.

(* std::tolower in the C locale on ASCII (d_string.h:35) *)
Definition lower (c : Z) : Z := if (65 <=? c) && (c <=? 90) then c + 32 else c.
Definition streq_ci (a b : bytes) : bool := streq (map lower a) (map lower b).

(* instructions of a code value, as far as equality, hashing and printing see them:
   opcodes/push.h:37-41 compares the pushed value with value::operator==, every other
   opcode compares its class and its name / size (call_unary.h:79, call_binary.h:130,
   call_nular.h:50, get_variable.h:65, assign_to.h:82, assign_to_local.h:69,
   end_statement.h:23, make_array.h:81).
   kind: 0 unary 1 binary 2 nular 3 getvariable 4 assignto 5 assigntolocal 6 endstatement 7 makearray *)
Inductive instr := IPushNum (s : scalar) | IPushStr (s : bytes) | IOp (kind : Z) (name : bytes).
Notation code := (list instr) (only parsing).

Definition ieq (a b : instr) : bool :=
  match a, b with
  | IPushNum x, IPushNum y => feq x y
  | IPushStr x, IPushStr y => streq x y
  | IOp k n, IOp k' n' => Z.eqb k k' && streq n n'
  | _, _ => false
  end.
(* d_code.h:29-34 std::equal over both ranges *)
Definition ceq (a b : code) : bool := forall2b ieq a b.

(* ------------------------------------------------------------------------------------ *)
(* values as trees (what the property quantifies over; also the frozen form of a HashMap key) *)

Inductive tree :=
| TNil | TNum (s : scalar) | TBool (b : bool) | TStr (s : bytes) | TCode (c : code)
| TArr (l : list tree) | TMap (es : list (tree * tree)).

Definition tnil (t : tree) : bool := match t with TNil => true | _ => false end.

(* data::equals on two non-nil values (inv = the `invariant` flag: true for ==, false for
   isEqualTo / find / in / HashMap keys).  d_array.h:70-79: a nil on either side of an array
   slot makes the arrays unequal.  ops_hashmap.h:29-35: unordered_map::operator== - same size
   and every entry of this has an equal entry (key and value by value::operator==, where two
   nils ARE equal) in other. *)
Fixpoint tdeq (inv : bool) (a b : tree) {struct a} : bool :=
  match a, b with
  | TNum x, TNum y => feq x y
  | TBool x, TBool y => Bool.eqb x y
  | TStr x, TStr y => if inv then streq_ci x y else streq x y
  | TCode x, TCode y => ceq x y
  | TArr l1, TArr l2 =>
      forall2b (fun x y => negb (tnil x) && negb (tnil y) && tdeq inv x y) l1 l2
  | TMap e1, TMap e2 =>
      Nat.eqb (length e1) (length e2) &&
      forallb (fun e => existsb (fun e' =>
                 (if tnil (fst e) then tnil (fst e') else negb (tnil (fst e')) && tdeq false (fst e) (fst e')) &&
                 (if tnil (snd e) then tnil (snd e') else negb (tnil (snd e')) && tdeq false (snd e) (snd e'))) e2) e1
  | _, _ => false
  end.

(* value.h:48 value::operator== (case sensitive) *)
Definition teq (a b : tree) : bool :=
  if tnil a then tnil b else negb (tnil b) && tdeq false a b.
(* ops_logic.cpp:93-100 isEqualTo: two nils are NOT equal *)
Definition t_iseq (a b : tree) : bool := if tnil a && tnil b then false else teq a b.
(* ops_logic.cpp:85-88 ==, registered (ops_logic.cpp:224-234) for scalar, string, boolean among the modelled types *)
Definition eqeq_defined (a b : tree) : bool :=
  match a, b with TNum _, TNum _ => true | TStr _, TStr _ => true | TBool _, TBool _ => true | _, _ => false end.
Definition t_eqeq (a b : tree) : bool := tdeq true a b.

Definition tree_lower (t : tree) : tree := match t with TStr s => TStr (map lower s) | _ => t end.

(* "contains neither nil nor NaN" *)
Fixpoint nil_nan_free (t : tree) : bool :=
  match t with
  | TNil => false
  | TNum s => negb (is_nan s)
  | TBool _ | TStr _ | TCode _ => true
  | TArr l => forallb nil_nan_free l
  | TMap es => forallb (fun e => nil_nan_free (fst e) && nil_nan_free (snd e)) es
  end.

(* the container invariant of std::unordered_map: no two entries with equal keys *)
Fixpoint keys_distinct (ks : list tree) : bool :=
  match ks with
  | [] => true
  | k :: ks' => negb (existsb (fun k' => teq k k') ks') && keys_distinct ks'
  end.
Fixpoint wf_tree (t : tree) : bool :=
  match t with
  | TArr l => forallb wf_tree l
  | TMap es => keys_distinct (map fst es) && forallb (fun e => wf_tree (fst e) && wf_tree (snd e)) es
  | _ => true
  end.

(* ------------------------------------------------------------------------------------ *)
(* printing (to_string_sqf) *)

Fixpoint digits_aux (fuel : nat) (n : Z) : bytes :=
  match fuel with
  | O => []
  | S f => if n <? 10 then [48 + n] else digits_aux f (n / 10) ++ [48 + n mod 10]
  end.
Definition digits (n : Z) : bytes := digits_aux (S (Z.to_nat (Z.log2 (Z.max n 1)))) n.

(* what %g prints for the floats the correspondence uses (|value| < 100000, halves) *)
Definition print_scalar (s : scalar) : bytes :=
  match s with
  | SHalf t => (if t <? 0 then [45] else []) ++ digits (Z.abs t / 2) ++ (if Z.odd t then [46; 53] else [])
  | SNegZero => [45; 48]
  | SNaN _ => [45; 110; 97; 110]
  | SPInf => [105; 110; 102]
  | SNInf => [45; 105; 110; 102]
  end.

(* d_string.h:49-68 *)
Definition print_string (s : bytes) : bytes :=
  [34] ++ flat_map (fun c => if Z.eqb c 34 then [34; 34] else [c]) s ++ [34].

Fixpoint join (sep : bytes) (l : list bytes) : bytes :=
  match l with [] => [] | [x] => x | x :: l' => x ++ sep ++ join sep l' end.

(* d_code.h:39-71 for code made of simple statements: a stack of texts, one text per
   statement; operands of an operator are literals / variables / nulars (no parentheses
   needed).  None = outside the modelled fragment. *)
Fixpoint recon (c : code) (stack : list bytes) (done : list bytes) : option (list bytes) :=
  match c with
  | [] => match stack with [] => Some (rev done) | [x] => Some (rev (x :: done)) | _ => None end
  | i :: c' =>
      match i with
      | IPushNum s => recon c' (print_scalar s :: stack) done
      | IPushStr s => recon c' (print_string s :: stack) done
      | IOp k n =>
          if Z.eqb k 2 then recon c' (n :: stack) done
          else if Z.eqb k 3 then recon c' (n :: stack) done
          else if Z.eqb k 0 then match stack with x :: st => recon c' ((n ++ [32] ++ x) :: st) done | _ => None end
          else if Z.eqb k 1 then match stack with y :: x :: st => recon c' ((x ++ [32] ++ n ++ [32] ++ y) :: st) done | _ => None end
          else if Z.eqb k 4 then match stack with x :: st => recon c' st ((n ++ [32; 61; 32] ++ x) :: done) | _ => None end
          else if Z.eqb k 5 then match stack with x :: st => recon c' st (([112;114;105;118;97;116;101;32] ++ n ++ [32; 61; 32] ++ x) :: done) | _ => None end
          else if Z.eqb k 6 then match stack with [] => recon c' [] done | [x] => recon c' [] (x :: done) | _ => None end
          else None
      end
  end.
Definition print_code (c : code) : bytes :=
  match recon c [] [] with
  | Some [] => [123; 32; 32; 125]
  | Some l => [123; 32] ++ join [59; 32] l ++ [32; 125]
  | None => [63]
  end.

(* lexicographic order on byte strings (for the canonical, order-insensitive print of a HashMap) *)
Fixpoint lex_le (a b : bytes) : bool :=
  match a, b with
  | [], _ => true
  | _ :: _, [] => false
  | x :: a', y :: b' => if x <? y then true else if y <? x then false else lex_le a' b'
  end.
Fixpoint insert_sorted (x : bytes) (l : list bytes) : list bytes :=
  match l with [] => [x] | y :: l' => if lex_le x y then x :: l else y :: insert_sorted x l' end.
Definition sort_bytes (l : list bytes) : list bytes := fold_right insert_sorted [] l.

(* d_array.h:112-126, ops_hashmap.h:52-66.  canon = true: entries of a HashMap sorted (the
   iteration order of std::unordered_map is not part of the model). *)
Fixpoint print_tree (canon : bool) (t : tree) : bytes :=
  match t with
  | TNil => [110; 105; 108]
  | TNum s => print_scalar s
  | TBool b => if b then [116;114;117;101] else [102;97;108;115;101]
  | TStr s => print_string s
  | TCode c => print_code c
  | TArr l => [91] ++ join [44] (map (print_tree canon) l) ++ [93]
  | TMap es =>
      let items := map (fun e => [91] ++ print_tree canon (fst e) ++ [44] ++ print_tree canon (snd e) ++ [93]) es in
      if canon then [123] ++ join [44] (sort_bytes items) ++ [125]
      else [91] ++ join [44] items ++ [93]
  end.

(* does the raw print depend on an iteration order the model does not know? *)
Fixpoint order_sensitive (t : tree) : bool :=
  match t with
  | TArr l => existsb order_sensitive l
  | TMap es => (Nat.ltb 1 (length es)) || existsb (fun e => order_sensitive (fst e) || order_sensitive (snd e)) es
  | _ => false
  end.

(* SQF source text that evaluates to the value (used to render histories for the implementation) *)
Definition render_scalar (s : scalar) : bytes :=
  match s with
  | SNaN _ => [40;115;113;114;116;32;45;49;41]            (* (sqrt -1) *)
  (* an out-of-range literal is no longer infinite (it is NaN with a warning): overflow by arithmetic *)
  | SPInf => [40;49;101;51;56;32;42;32;49;48;41]          (* (1e38 * 10) *)
  | SNInf => [40;45;49;101;51;56;32;42;32;49;48;41]       (* (-1e38 * 10) *)
  | _ => print_scalar s
  end.
Fixpoint render_tree (t : tree) : bytes :=
  match t with
  | TNum s => render_scalar s
  | TArr l => [91] ++ join [44] (map render_tree l) ++ [93]
  | TMap es =>   (* (createHashMapFromArray [[k,v],...]) *)
      [40;99;114;101;97;116;101;72;97;115;104;77;97;112;70;114;111;109;65;114;114;97;121;32;91]
      ++ join [44] (map (fun e => [91] ++ render_tree (fst e) ++ [44] ++ render_tree (snd e) ++ [93]) es) ++ [93;41]
  | _ => print_tree false t
  end.

(* ------------------------------------------------------------------------------------ *)
(* hashing.  Leaf hashes are parameters; the only thing the theorems assume about them is
   that equal floats hash equally (libstdc++ maps +-0 to one value).  `mix acc x` stands for
   `acc ^ (x + 0x9e3779b9 + (acc << 6) + (acc >> 2))` (d_array.h:190, ops_hashmap.h:46-47). *)

Record hash_defects := {
  d_code_hash_text : bool;    (* d_code.h:91 hashes the printed text: { 0 } and { -0 } differ *)
  d_map_hash_ordered : bool   (* ops_hashmap.h:41-50 folds the entries in iteration order *)
}.

Section Hash.
  Variable hd : hash_defects.
  Variable hnum : scalar -> Z.
  Variable hbool : bool -> Z.
  Variable hstr : bytes -> Z.
  Variable hop : Z -> bytes -> Z.      (* hash of the text of a non-push instruction *)
  Variable mix : Z -> Z -> Z.
  Variable seed : Z.

  Definition ihash (i : instr) : Z :=
    match i with IPushNum s => hnum s | IPushStr s => hstr s | IOp k n => hop k n end.

  Fixpoint vhash (t : tree) : Z :=
    match t with
    | TNil => 0                                                   (* value.h:120-123 *)
    | TNum s => hnum s
    | TBool b => hbool b
    | TStr s => hstr s
    | TCode c => if d_code_hash_text hd then hstr (print_code c)
                 else fold_left (fun acc i => mix acc (ihash i)) c seed
    | TArr l => fold_left (fun acc x => mix acc (vhash x)) l seed
    | TMap es =>
        if d_map_hash_ordered hd
        then fold_left (fun acc e => mix (mix acc (vhash (fst e))) (vhash (snd e))) es seed
        else fold_left (fun acc e => acc + mix (mix seed (vhash (fst e))) (vhash (snd e))) es seed
    end.
End Hash.

(* ------------------------------------------------------------------------------------ *)
(* the heap *)

Inductive value := VNil | VNum (s : scalar) | VBool (b : bool) | VStr (s : bytes) | VCode (c : code) | VRef (a : nat).
(* a HashMap cell is the dictionary its unordered_map represents (Data/DataBucket.v shows that
   a bucketed unique-key table with consistent hashing is this dictionary); keys are frozen
   trees: captured by value at insertion, never exposed by reference.  The key OBJECT has an
   identity all the same (a copy of the map shares it, and data::equals answers true for the
   same object): every inserted key owns the address of a CKey cell. *)
Inductive cell := CArr (l : list value) | CMap (es : list (tree * nat * value)) | CKey.
Notation heap := (list cell) (only parsing).
Notation entry := (tree * nat * value)%type (only parsing).
Definition ekey (e : entry) : tree := fst (fst e).
Definition eid (e : entry) : nat := snd (fst e).

Definition vnil (v : value) : bool := match v with VNil => true | _ => false end.

Definition refs (l : list value) : list nat :=
  flat_map (fun v => match v with VRef a => [a] | _ => [] end) l.

(* the containers a cell refers to *)
Definition succs (h : heap) (a : nat) : list nat :=
  match nth_error h a with
  | Some (CArr l) => refs l
  | Some (CMap es) => refs (map snd es)
  | _ => []
  end.
Definition is_arr (h : heap) (a : nat) : bool :=
  match nth_error h a with Some (CArr _) => true | _ => false end.
(* what the unrepaired recursion test looks at: arrays inside arrays only (d_array.h:35) *)
Definition succs_arr (h : heap) (a : nat) : list nat :=
  match nth_error h a with
  | Some (CArr l) => filter (is_arr h) (refs l)
  | _ => []
  end.

Fixpoint memb (x : nat) (l : list nat) : bool :=
  match l with [] => false | y :: l' => if Nat.eqb x y then true else memb x l' end.

(* d_array::recursion_test_ (d_array.h:31-61): DFS whose `visited` is the current path
   (without the root); None = out of fuel *)
Section RT.
  Variable K : nat -> list nat.
  Fixpoint rt (f : nat) (vis : list nat) (x : nat) {struct f} : option bool :=
    match f with
    | O => None
    | S f' =>
        (fix go (ks : list nat) : option bool :=
           match ks with
           | [] => Some true
           | r :: ks' => if memb r vis then Some false
                         else match rt f' (r :: vis) r with
                              | Some true => go ks'
                              | o => o end
           end) (K x)
    end.
End RT.

(* resolved value of a heap value: the walk of to_string_sqf / hash / the key copy *)
Fixpoint freeze (f : nat) (h : heap) (v : value) {struct f} : res tree :=
  match v with
  | VNil => Ok TNil
  | VNum s => Ok (TNum s)
  | VBool b => Ok (TBool b)
  | VStr s => Ok (TStr s)
  | VCode c => Ok (TCode c)
  | VRef a =>
      match f with
      | O => OutOfFuel
      | S f' =>
          match nth_error h a with
          | None => UB
          | Some (CArr l) => rbind (res_map (freeze f' h) l) (fun ts => Ok (TArr ts))
          | Some (CMap es) =>
              rbind (res_map (fun e => rbind (freeze f' h (snd e)) (fun t => Ok (ekey e, t))) es)
                    (fun es' => Ok (TMap es'))
          | Some CKey => UB
          end
      end
  end.

(* tree -> fresh cells (evaluation of a literal; `keys`).  Children first, so every new cell
   refers to cells allocated before it.  A HashMap literal is built by successive insertion. *)
Definition dict_find (es : list entry) (q : tree) : option entry :=
  find (fun e => teq q (ekey e)) es.
(* find, then assign or emplace (ops_hashmap.cpp set / createHashMapFromArray): the key object
   of an existing entry stays, the value is replaced; a new entry gets the key copy `k` whose
   identity is `ka` *)
Fixpoint dict_set (es : list entry) (k : tree) (ka : nat) (v : value) : list entry :=
  match es with
  | [] => [(k, ka, v)]
  | e :: es' => if teq k (ekey e) then (fst e, v) :: es' else e :: dict_set es' k ka v
  end.
Fixpoint dict_del (es : list entry) (k : tree) : list entry :=
  match es with
  | [] => []
  | e :: es' => if teq k (ekey e) then es' else e :: dict_del es' k
  end.

Fixpoint thaw (h : heap) (t : tree) {struct t} : heap * value :=
  match t with
  | TNil => (h, VNil)
  | TNum s => (h, VNum s)
  | TBool b => (h, VBool b)
  | TStr s => (h, VStr s)
  | TCode c => (h, VCode c)
  | TArr l =>
      let '(h1, vs) := (fix go (h : heap) (l : list tree) : heap * list value :=
                          match l with
                          | [] => (h, [])
                          | x :: l' => let '(h1, v) := thaw h x in
                                       let '(h2, vs) := go h1 l' in (h2, v :: vs)
                          end) h l in
      (h1 ++ [CArr vs], VRef (length h1))
  | TMap es =>
      let '(h1, es') := (fix go (h : heap) (es : list (tree * tree)) (acc : list entry) : heap * list entry :=
                           match es with
                           | [] => (h, acc)
                           | e :: es' => let '(h1, v) := thaw h (snd e) in
                                         go (h1 ++ [CKey]) es' (dict_set acc (fst e) (length h1) v)
                           end) h es [] in
      (h1 ++ [CMap es'], VRef (length h1))
  end.

(* d_array::copy_deep (d_array.h:95-110): nested arrays are copied, every other value -
   including a HashMap - is shared *)
Fixpoint copy_deep (f : nat) (h : heap) (a : nat) {struct f} : res (heap * nat) :=
  match f with
  | O => OutOfFuel
  | S f' =>
      match nth_error h a with
      | Some (CArr l) =>
          rbind (res_mapS (fun (h : heap) (x : value) =>
                             match x with
                             | VRef b => match nth_error h b with
                                         | Some (CArr _) => rbind (copy_deep f' h b) (fun r => Ok (fst r, VRef (snd r)))
                                         | Some (CMap _) => Ok (h, x)
                                         | Some CKey => UB
                                         | None => UB
                                         end
                             | _ => Ok (h, x)
                             end) h l)
                (fun r => Ok (fst r ++ [CArr (snd r)], length (fst r)))
      | _ => UB
      end
  end.

(* data::equals on heap values, invariant = false: type test, pointer short-cut, do_equals,
   walking both values in lock step and stopping at the first difference *)
Fixpoint deq (f : nat) (h : heap) (a b : value) {struct f} : res bool :=
  match a, b with
  | VNum x, VNum y => Ok (feq x y)
  | VBool x, VBool y => Ok (Bool.eqb x y)
  | VStr x, VStr y => Ok (streq x y)
  | VCode x, VCode y => Ok (ceq x y)
  | VRef p, VRef q =>
      match nth_error h p, nth_error h q with
      | Some (CArr l1), Some (CArr l2) =>
          if Nat.eqb p q then Ok true else
          match f with
          | O => OutOfFuel
          | S f' =>
              if negb (Nat.eqb (length l1) (length l2)) then Ok false else
              res_all (fun xy => if vnil (fst xy) || vnil (snd xy) then Ok false else deq f' h (fst xy) (snd xy))
                      (combine l1 l2)
          end
      | Some (CMap e1), Some (CMap e2) =>
          if Nat.eqb p q then Ok true else
          match f with
          | O => OutOfFuel
          | S f' =>
              if negb (Nat.eqb (length e1) (length e2)) then Ok false else
              res_all (fun e => res_any (fun e' =>
                         if Nat.eqb (eid e) (eid e') || teq (ekey e) (ekey e')
                         then (if vnil (snd e) then Ok (vnil (snd e'))
                               else if vnil (snd e') then Ok false else deq f' h (snd e) (snd e'))
                         else Ok false) e2) e1
          end
      | Some _, Some _ => Ok false
      | _, _ => UB
      end
  | _, _ => Ok false
  end.

(* value::operator== *)
Definition veq (f : nat) (h : heap) (a b : value) : res bool :=
  if vnil a then Ok (vnil b) else if vnil b then Ok false else deq f h a b.

(* ------------------------------------------------------------------------------------ *)
(* pure list parts of the array operators (ops_generic.cpp) *)

(* (int) of a float that is a multiple of one half: truncation (set 1226, deleteAt 1309) *)
Definition trunc_half (t : Z) : Z := Z.quot t 2.
(* std::round / roundf: half away from zero (select 617,631; deleteRange 812-813) *)
Definition round_half (t : Z) : Z := if Z.even t then t / 2 else if t <? 0 then (t - 1) / 2 else (t + 1) / 2.

Definition znth {A} (l : list A) (i : Z) : option A := if i <? 0 then None else nth_error l (Z.to_nat i).
Definition zlen {A} (l : list A) : Z := Z.of_nat (length l).
Definition zfirstn {A} (n : Z) (l : list A) : list A := firstn (Z.to_nat n) l.
Definition zskipn {A} (n : Z) (l : list A) : list A := skipn (Z.to_nat n) l.

(* d_array::resize (d_array.h:172-183): new slots are nil *)
Definition resize_list (l : list value) (n : Z) : list value :=
  if n <=? zlen l then zfirstn n l else l ++ repeat VNil (Z.to_nat (n - zlen l)).
(* arr[index] = val for an index inside the vector *)
Definition put (l : list value) (i : Z) (v : value) : list value :=
  zfirstn i l ++ [v] ++ zskipn (i + 1) l.

Definition is_num (v : value) : bool := match v with VNum _ => true | _ => false end.
Definition is_str (v : value) : bool := match v with VStr _ => true | _ => false end.

(* order used by sort (ops_generic.cpp:753-791) on scalars: the model covers lists without
   NaN in which equal elements are indistinguishable *)
Definition sc_key (s : scalar) : option Z :=   (* twice the value; infinities far out *)
  match s with SHalf t => Some t | SNegZero => None | SNaN _ => None
             | SPInf => Some 1000000000000 | SNInf => Some (-1000000000000) end.
Fixpoint ins_by {A} (le : A -> A -> bool) (x : A) (l : list A) : list A :=
  match l with [] => [x] | y :: l' => if le x y then x :: l else y :: ins_by le x l' end.
Definition sort_by {A} (le : A -> A -> bool) (l : list A) : list A := fold_right (ins_by le) [] l.

Definition num_le (asc : bool) (a b : value) : bool :=
  match a, b with
  | VNum x, VNum y => match sc_key x, sc_key y with
                      | Some p, Some q => if asc then p <=? q else q <=? p
                      | _, _ => true end
  | _, _ => true
  end.
Definition str_le (asc : bool) (a b : value) : bool :=
  match a, b with
  | VStr x, VStr y => if asc then lex_le x y else lex_le y x
  | _, _ => true
  end.
Definition sortable_nums (l : list value) : bool :=
  forallb (fun v => match v with VNum s => match sc_key s with Some _ => true | None => false end | _ => false end) l.
Definition sortable_strs (l : list value) : bool := forallb is_str l.

(* ------------------------------------------------------------------------------------ *)
(* diagnostics (by message class; the check maps the names to level:code from logging.h) *)

Inductive diag :=
| DNegativeIndex | DArrayRecursion | DIndexOutOfRangeWeak | DNegativeIndexWeak
| DStartIndexExceedsToIndexWeak | DReturningNil | DReturningEmptyArray | DNegativeSize
| DExpectedArraySizeMissmatch | DExpectedArrayTypeMissmatch | DExpectedArraySizeMissmatchWeak
| DExpectedMinimumArraySizeMissmatch.

(* ------------------------------------------------------------------------------------ *)
(* defect switches of the operator layer (DESIGN 2.1a).  true = the behaviour of the code
   before the repair proposed in /verif/proposed_fixes *)

Record defects := {
  d_append_untested : bool;     (* ops_generic.cpp:1277-1283 append inserts without recursion test *)
  d_hset_untested : bool;       (* ops_hashmap.cpp:64-84 HashMap set inserts without recursion test *)
  d_rt_arrays_only : bool;      (* d_array.h:35 the recursion test does not look into HashMaps *)
  d_set_growth_kept : bool;     (* ops_generic.cpp:1233-1243 a refused set leaves the array grown *)
  d_delrange_unchecked : bool;  (* ops_generic.cpp:826-832 deleteRange with from >= size erases [from, size) : undefined *)
  d_resize_unchecked : bool     (* ops_generic.cpp:797-798 negative size is cast to size_t: length_error escapes *)
}.
Definition as_is : defects := {| d_append_untested := true; d_hset_untested := true; d_rt_arrays_only := true;
  d_set_growth_kept := true; d_delrange_unchecked := true; d_resize_unchecked := true |}.
Definition repaired : defects := {| d_append_untested := false; d_hset_untested := false; d_rt_arrays_only := false;
  d_set_growth_kept := false; d_delrange_unchecked := false; d_resize_unchecked := false |}.

(* ------------------------------------------------------------------------------------ *)
(* states, operands, operations *)

Record state := { st_heap : list cell; st_vars : list value }.

Inductive opnd :=
| OVar (n : nat)               (* vN *)
| OLit (t : tree)              (* a literal: fresh cells *)
| OSel (n : nat) (i : Z)       (* (vN select i): the element itself, i.e. an alias when it is a container *)
| OWrap (n : nat).             (* [vN]: a fresh one-element array holding the variable's value *)

Inductive op :=
(* in place on the array (or HashMap) the target evaluates to *)
| OpSet (t : opnd) (idx : Z) (x : opnd)            (* t set [idx/2, x] *)
| OpPushBack (t : opnd) (x : opnd)
| OpPushBackUnique (t : opnd) (x : opnd)
| OpAppend (t : opnd) (x : opnd)
| OpDeleteAt (t : opnd) (idx : Z)
| OpDeleteRange (t : opnd) (from : Z) (to : Z)
| OpResize (t : opnd) (n : Z)
| OpReverse (t : opnd)
| OpSort (t : opnd) (asc : bool)
(* results assigned to variable dst *)
| OpAssign (dst : nat) (x : opnd)                  (* vD = x *)
| OpCopy (dst : nat) (x : opnd)                    (* vD = +x   (array: deep, HashMap: copy) *)
| OpConcat (dst : nat) (x y : opnd)                (* vD = x + y *)
| OpMinus (dst : nat) (x y : opnd)                 (* vD = x - y *)
| OpSelRange (dst : nat) (x : opnd) (start len : Z)(* vD = x select [start/2, len/2] *)
| OpNewMap (dst : nat)                             (* vD = createHashMap *)
| OpMapFromArray (dst : nat) (x : opnd)            (* vD = createHashMapFromArray x *)
| OpKeys (dst : nat) (m : opnd)                    (* vD = keys m *)
| OpGetTo (dst : nat) (m : opnd) (k : opnd)        (* vD = m get k *)
(* queries: only the result is observed *)
| OpIsEqualTo (x y : opnd)
| OpEqEq (x y : opnd)
| OpFind (x y : opnd)                              (* x find y *)
| OpIn (x y : opnd)                                (* x in y  (array or HashMap) *)
| OpCount (x : opnd)
| OpGet (m : opnd) (k : opnd)
| OpMapSet (m : opnd) (k : opnd) (x : opnd)        (* m set [k, x] *)
| OpMapDeleteAt (m : opnd) (k : opnd).

(* what happened *)
Inductive status :=
| Done            (* the operator ran; diagnostics and result as given *)
| Invalid         (* outside the modelled fragment (type error, nil operand ...): the history generator drops the op *)
| Undefined       (* the C++ runs into undefined behaviour / an escaping exception here *)
| Diverges.       (* the C++ recursion does not end (cyclic heap): stack overflow *)

Record outcome := { o_status : status; o_state : state; o_diags : list diag; o_result : value }.

Definition fuel_of (h : heap) : nat := S (S (length h)).

Fixpoint nil_free (t : tree) : bool :=
  match t with
  | TNil => false
  | TArr l => forallb nil_free l
  | TMap es => forallb (fun e => nil_free (fst e) && nil_free (snd e)) es
  | _ => true
  end.
(* A HashMap used as (part of) a key is copied with its own key objects shared (copy_key), and
   frozen trees carry no object identity: a nil inside a key of such an inner map would make
   the comparison depend on that identity.  Outside the modelled fragment. *)
Fixpoint key_ok (t : tree) : bool :=
  match t with
  | TArr l => forallb key_ok l
  | TMap es => forallb (fun e => nil_free (fst e) && key_ok (fst e) && key_ok (snd e)) es
  | _ => true
  end.

Fixpoint lit_ok (t : tree) : bool :=
  match t with
  | TArr l => forallb lit_ok l
  | TMap es => forallb (fun e => key_ok (fst e) && lit_ok (fst e) && lit_ok (snd e)) es
  | _ => true
  end.

Definition eval_opnd (st : state) (o : opnd) : option (state * value) :=
  match o with
  | OVar n => match nth_error (st_vars st) n with
              | Some VNil => None | Some v => Some (st, v) | None => None end
  | OLit t => let '(h, v) := thaw (st_heap st) t in
              if vnil v || negb (lit_ok t) then None else Some ({| st_heap := h; st_vars := st_vars st |}, v)
  | OSel n i => match nth_error (st_vars st) n with
                | Some (VRef a) => match nth_error (st_heap st) a with
                                   | Some (CArr l) => match znth l i with
                                                      | Some VNil => None | Some v => Some (st, v) | None => None end
                                   | _ => None end
                | _ => None end
  | OWrap n => match nth_error (st_vars st) n with
               | Some VNil => None
               | Some v => Some ({| st_heap := st_heap st ++ [CArr [v]]; st_vars := st_vars st |}, VRef (length (st_heap st)))
               | None => None end
  end.

Fixpoint set_nth {A} (l : list A) (n : nat) (x : A) : list A :=
  match l, n with
  | [], _ => []
  | _ :: l', O => x :: l'
  | y :: l', S n' => y :: set_nth l' n' x
  end.

Definition upd (st : state) (a : nat) (c : cell) : state :=
  {| st_heap := set_nth (st_heap st) a c; st_vars := st_vars st |}.
Definition alloc (st : state) (c : cell) : state * value :=
  ({| st_heap := st_heap st ++ [c]; st_vars := st_vars st |}, VRef (length (st_heap st))).
Definition setvar (st : state) (n : nat) (v : value) : option state :=
  if Nat.ltb n (length (st_vars st)) then Some {| st_heap := st_heap st; st_vars := set_nth (st_vars st) n v |} else None.

Definition mk (s : status) (st : state) (ds : list diag) (r : value) : outcome :=
  {| o_status := s; o_state := st; o_diags := ds; o_result := r |}.
Definition invalid (st : state) : outcome := mk Invalid st [] VNil.
Definition of_res {A} (st : state) (r : res A) (k : A -> outcome) : outcome :=
  match r with Ok a => k a | UB => mk Undefined st [] VNil | OutOfFuel => mk Diverges st [] VNil end.

(* the recursion test as the operators call it on the container at address a *)
Definition rec_test (d : defects) (h : heap) (a : nat) : option bool :=
  rt (if d_rt_arrays_only d then succs_arr h else succs h) (fuel_of h) [] a.

(* write the new content l' of the array at a, run the test, roll back to lfail when it says no
   (d_array::push_back d_array.h:168; set ops_generic.cpp:1236-1243) *)
Definition commit_arr (d : defects) (st : state) (a : nat) (l' lfail : list value) (okres : value) : outcome :=
  let st' := upd st a (CArr l') in
  match rec_test d (st_heap st') a with
  | Some true => mk Done st' [] okres
  | Some false => mk Done (upd st a (CArr lfail)) [DArrayRecursion] VNil
  | None => mk Diverges st [] VNil
  end.
Definition commit_map (d : defects) (st : state) (a : nat) (es' es : list entry) : outcome :=
  if d_hset_untested d then mk Done (upd st a (CMap es')) [] VNil else
  let st' := upd st a (CMap es') in
  match rec_test d (st_heap st') a with
  | Some true => mk Done st' [] VNil
  | Some false => mk Done (upd st a (CMap es)) [DArrayRecursion] VNil
  | None => mk Diverges st [] VNil
  end.

(* std::find with value::operator== *)
Definition find_index (h : heap) (l : list value) (x : value) : res (option Z) :=
  (fix go (l : list value) (i : Z) : res (option Z) :=
     match l with
     | [] => Ok None
     | y :: l' => match veq (fuel_of h) h y x with
                  | Ok true => Ok (Some i)
                  | Ok false => go l' (i + 1)
                  | UB => UB | OutOfFuel => OutOfFuel end
     end) l 0.

Definition arr_of (st : state) (v : value) : option (nat * list value) :=
  match v with
  | VRef a => match nth_error (st_heap st) a with Some (CArr l) => Some (a, l) | _ => None end
  | _ => None end.
Definition map_of (st : state) (v : value) : option (nat * list entry) :=
  match v with
  | VRef a => match nth_error (st_heap st) a with Some (CMap es) => Some (a, es) | _ => None end
  | _ => None end.

(* the key copy made on insertion and by `keys` *)
Definition key_of (st : state) (v : value) : res tree := freeze (fuel_of (st_heap st)) (st_heap st) v.

(* ------------------------------------------------------------------------------------ *)
(* sort of a TABLE - an array whose elements are arrays ("rows"), ops_generic.cpp:736-817 *)

(* value::type() (value.h:61-62): an empty value has the type NOTHING *)
Inductive vtag := GNil | GNum | GBool | GStr | GCode | GArr | GMap.
Definition tag_eqb (a b : vtag) : bool :=
  match a, b with
  | GNil, GNil | GNum, GNum | GBool, GBool | GStr, GStr | GCode, GCode | GArr, GArr | GMap, GMap => true
  | _, _ => false
  end.
Definition vtag_of (h : heap) (v : value) : res vtag :=
  match v with
  | VNil => Ok GNil | VNum _ => Ok GNum | VBool _ => Ok GBool | VStr _ => Ok GStr | VCode _ => Ok GCode
  | VRef a => match nth_error h a with Some (CArr _) => Ok GArr | Some (CMap _) => Ok GMap | _ => UB end
  end.

(* less_scalar (ops_generic.cpp:771-775): NaN in front of every other number, otherwise `<` of
   the floats (-0 and 0 are equal, two NaN are equal) *)
Definition sc_rank (s : scalar) : Z * Z :=
  match s with SNaN _ => (0, 0) | SNInf => (1, 0) | SHalf t => (2, t) | SNegZero => (2, 0) | SPInf => (3, 0) end.
Definition sc_lt (x y : scalar) : bool :=
  (fst (sc_rank x) <? fst (sc_rank y)) || ((fst (sc_rank x) =? fst (sc_rank y)) && (snd (sc_rank x) <? snd (sc_rank y))).
(* std::string operator< : lexicographic on the (unsigned) bytes *)
Definition str_lt (a b : bytes) : bool := negb (lex_le b a).

(* an element of a row as the comparator looks at it (788-797): strings and scalars are compared,
   every other element (nil, boolean, code, nested array, HashMap) is passed over *)
Inductive skey := KStr (s : bytes) | KNum (s : scalar) | KSkip.
Definition skey_of (v : value) : skey := match v with VStr s => KStr s | VNum s => KNum s | _ => KSkip end.

(* one position of two rows: None = the C++ reads a string / a float out of a value of another type *)
Definition k3 (x y : skey) : option comparison :=
  match x, y with
  | KStr s, KStr t => Some (if str_lt s t then Lt else if str_lt t s then Gt else Eq)
  | KNum s, KNum t => Some (if sc_lt s t then Lt else if sc_lt t s then Gt else Eq)
  | KSkip, _ => Some Eq
  | _, _ => None
  end.
(* comp(a, b) of the lambda handed to std::sort, on two rows (783-799): the first position that
   differs decides (sort_flag if a is the smaller one, !sort_flag if b is), equal rows give false.
   None = undefined behaviour: b_arr[idx] beyond the end of b, or k3 undefined *)
Fixpoint row_lt (asc : bool) (a b : list skey) : option bool :=
  match a with
  | [] => Some false
  | x :: a' =>
      match b with
      | [] => None
      | y :: b' => match k3 x y with
                   | Some Lt => Some asc
                   | Some Gt => Some (negb asc)
                   | Some Eq => row_lt asc a' b'
                   | None => None
                   end
      end
  end.

Definition row_of (h : heap) (v : value) : option (list value) :=
  match v with
  | VRef r => match nth_error h r with Some (CArr l) => Some l | _ => None end
  | _ => None
  end.
(* comp(a, b) on two elements of the table *)
Definition vrow_lt (h : heap) (asc : bool) (a b : value) : option bool :=
  match row_of h a, row_of h b with
  | Some ra, Some rb => row_lt asc (map skey_of ra) (map skey_of rb)
  | _, _ => None
  end.
Definition vrow_ltb (h : heap) (asc : bool) (a b : value) : bool :=
  match vrow_lt h asc a b with Some true => true | _ => false end.

(* d_array::check_type(types) on one row (d_array.cpp:98-122): a wrong size is reported once, otherwise
   every position of another type is reported *)
Definition check_row (h : heap) (types : list vtag) (row : list value) : res (list diag) :=
  if negb (Nat.eqb (length row) (length types)) then Ok [DExpectedArraySizeMissmatch] else
  rbind (res_map (vtag_of h) row) (fun tags =>
    Ok (repeat DExpectedArrayTypeMissmatch
          (length (filter (fun p => negb (tag_eqb (fst p) (snd p))) (combine tags types))))).
(* ops_generic.cpp:762-766: the loop over the rows returns at the first row that does not pass *)
Fixpoint check_rows (h : heap) (types : list vtag) (rows : list (list value)) : res (list diag) :=
  match rows with
  | [] => Ok []
  | r :: rows' => rbind (check_row h types r)
                        (fun ds => match ds with [] => check_rows h types rows' | _ => Ok ds end)
  end.

Fixpoint pairwise {A} (R : A -> A -> bool) (l : list A) : bool :=
  match l with [] => true | x :: l' => forallb (R x) l' && pairwise R l' end.
Definition veqb (a b : value) : bool := match a, b with VRef p, VRef q => Nat.eqb p q | _, _ => false end.

(* TSorted l' : the new content of the table - the SAME element values (references to the row cells) in another order.
   TRefused ds: the type checks of 753-767 said no.
   TOutside   : outside the modelled fragment: std::sort leaves the order of rows that compare equal open, so the model
                covers tables in which two rows that compare equal are the same row object (then every order of them is
                the same content); also a table that starts with a HashMap.
   UB         : a dangling reference, or the comparator would read out of a row / out of a value of another type for some
                pair of rows (C08_sort_table_defined: neither happens on a well-formed heap) *)
Inductive tsort := TSorted (l : list value) | TRefused (ds : list diag) | TOutside.

Definition sort_table (h : heap) (asc : bool) (l : list value) : res tsort :=
  match l with
  | VRef r0 :: _ =>
      match nth_error h r0 with
      | Some (CArr row0) =>
          (* 753: every element must be of the type of the first *)
          rbind (res_map (vtag_of h) l) (fun tags =>
          let bad := length (filter (fun g => negb (tag_eqb g GArr)) tags) in
          if negb (Nat.eqb bad 0) then Ok (TRefused (repeat DExpectedArrayTypeMissmatch bad)) else
          rbind (res_map (fun v => match row_of h v with Some r => Ok r | None => UB end) l) (fun rows =>
          (* 759-766: the types of the first row, every row against them *)
          rbind (res_map (vtag_of h) row0) (fun types =>
          rbind (check_rows h types rows) (fun ds =>
          match ds with
          | _ :: _ => Ok (TRefused ds)
          | [] =>
              if negb (forallb (fun x => forallb (fun y => match vrow_lt h asc x y with Some _ => true | None => false end) l) l)
              then UB
              else if negb (pairwise (fun x y => vrow_ltb h asc x y || vrow_ltb h asc y x || veqb x y) l) then Ok TOutside
              else Ok (TSorted (sort_by (fun x y => negb (vrow_ltb h asc y x)) l))
          end))))
      | Some (CMap _) => Ok TOutside
      | _ => UB
      end
  | _ => Ok TOutside
  end.

Definition with1 (st : state) (x : opnd) (k : state -> value -> outcome) : outcome :=
  match eval_opnd st x with Some (st1, v) => k st1 v | None => invalid st end.
Definition with2 (st : state) (x y : opnd) (k : state -> value -> value -> outcome) : outcome :=
  with1 st x (fun st1 v => match eval_opnd st1 y with Some (st2, w) => k st2 v w | None => invalid st end).

(* error-level message classes (logging.h; the check compares this table with the source).
   An error aborts the statement, but whether the abort comes before or after the pending
   assignment depends on the VM's error bookkeeping (another property's subject): an
   assignment statement whose operator reports an error is outside the modelled fragment. *)
Definition is_error (d : diag) : bool :=
  match d with
  | DNegativeIndex | DArrayRecursion | DNegativeSize | DExpectedArraySizeMissmatch | DExpectedArrayTypeMissmatch
  | DExpectedMinimumArraySizeMissmatch => true
  | _ => false
  end.

Definition assign_result (st0 : state) (dst : nat) (o : outcome) : outcome :=
  match o_status o with
  | Done => if existsb is_error (o_diags o) then invalid st0 else
            match setvar (o_state o) dst (o_result o) with
            | Some st' => mk Done st' (o_diags o) VNil
            | None => invalid st0 end
  | _ => o
  end.

Definition vnum (z : Z) : value := VNum (SHalf (2 * z)).

Fixpoint distinct_prints (l : list bytes) : bool :=
  match l with
  | [] => true
  | x :: l' => negb (existsb (streq x) l') && distinct_prints l'
  end.

(* the loop of createHashMapFromArray (ops_hashmap.cpp:27-63); n counts the key objects made;
   None = a key outside the modelled fragment *)
Fixpoint mfa_go (st1 : state) (l : list value) (n : nat) (es : list entry) (ds : list diag)
  : res (option (nat * list entry * list diag)) :=
  match l with
  | [] => Ok (Some (n, es, ds))
  | e :: l' =>
      match arr_of st1 e with
      | Some (_, [k; x]) =>
          match key_of st1 k with
          | Ok kt => if key_ok kt then mfa_go st1 l' (S n) (dict_set es kt (length (st_heap st1) + n)%nat x) ds
                     else Ok None
          | UB => UB
          | OutOfFuel => OutOfFuel
          end
      | Some _ => mfa_go st1 l' n es (ds ++ [DExpectedArraySizeMissmatch])
      | None => mfa_go st1 l' n es (ds ++ [DExpectedArrayTypeMissmatch])
      end
  end.

Fixpoint thaw_list (h : heap) (ks : list tree) : heap * list value :=
  match ks with
  | [] => (h, [])
  | k :: ks' => let '(h1, v) := thaw h k in let '(h2, vs) := thaw_list h1 ks' in (h2, v :: vs)
  end.

Definition step (d : defects) (st : state) (o : op) : outcome :=
  match o with
  (* ops_generic.cpp:1210-1245 *)
  | OpSet t idx x =>
      with2 st t x (fun st1 tv xv =>
        match arr_of st1 tv with
        | Some (a, l) =>
            let i := trunc_half idx in
            if i <? 0 then mk Done st1 [DNegativeIndex] VNil else
            let grown := if zlen l <=? i then resize_list l (i + 1) else l in
            commit_arr d st1 a (put grown i xv) (if d_set_growth_kept d then grown else l) VNil
        | None => invalid st end)
  (* ops_generic.cpp:835-845, d_array.h:168 *)
  | OpPushBack t x =>
      with2 st t x (fun st1 tv xv =>
        match arr_of st1 tv with
        | Some (a, l) => commit_arr d st1 a (l ++ [xv]) l (vnum (zlen l))
        | None => invalid st end)
  (* ops_generic.cpp:846-864 *)
  | OpPushBackUnique t x =>
      with2 st t x (fun st1 tv xv =>
        match arr_of st1 tv with
        | Some (a, l) =>
            of_res st (find_index (st_heap st1) l xv) (fun r =>
              match r with
              | Some _ => mk Done st1 [] (vnum (-1))
              | None => commit_arr d st1 a (l ++ [xv]) l (vnum (zlen l)) end)
        | None => invalid st end)
  (* ops_generic.cpp:1277-1283 *)
  | OpAppend t x =>
      with2 st t x (fun st1 tv xv =>
        match arr_of st1 tv, arr_of st1 xv with
        | Some (a, l), Some (_, r) =>
            if d_append_untested d then mk Done (upd st1 a (CArr (l ++ r))) [] VNil
            else commit_arr d st1 a (l ++ r) l VNil
        | _, _ => invalid st end)
  (* ops_generic.cpp:1306-1323 *)
  | OpDeleteAt t idx =>
      with1 st t (fun st1 tv =>
        match arr_of st1 tv with
        | Some (a, l) =>
            let i := trunc_half idx in
            if zlen l <=? i then mk Done st1 [DIndexOutOfRangeWeak] VNil
            else if i <? 0 then mk Done st1 [DNegativeIndexWeak] VNil
            else match znth l i with
                 | Some v => mk Done (upd st1 a (CArr (zfirstn i l ++ zskipn (i + 1) l))) [] v
                 | None => mk Undefined st [] VNil end
        | None => invalid st end)
  (* ops_generic.cpp:806-834 *)
  | OpDeleteRange t from to =>
      with1 st t (fun st1 tv =>
        match arr_of st1 tv with
        | Some (a, l) =>
            let f := round_half from in
            let t0 := round_half to in
            let '(t1, d1) := if t0 <? f then (f, [DStartIndexExceedsToIndexWeak]) else (t0, []) in
            if f <? 0 then mk Done st1 (d1 ++ [DNegativeIndexWeak; DReturningNil]) VNil else
            let '(t2, d2) := if zlen l <=? t1 then (zlen l - 1, d1 ++ [DIndexOutOfRangeWeak]) else (t1, d1) in
            if t2 + 1 <? f then
              (* erase(begin+from, begin+to+1) with from beyond to+1 *)
              if d_delrange_unchecked d then mk Undefined st d2 VNil
              else mk Done st1 d2 VNil
            else mk Done (upd st1 a (CArr (zfirstn f l ++ zskipn (t2 + 1) l))) d2 VNil
        | None => invalid st end)
  (* ops_generic.cpp:795-805 *)
  | OpResize t n =>
      with1 st t (fun st1 tv =>
        match arr_of st1 tv with
        | Some (a, l) =>
            if n <? 0 then (if (n <? -1) || negb (d_resize_unchecked d)
                            then (if d_resize_unchecked d then mk Undefined st [] VNil else mk Done st1 [DNegativeSize] VNil)
                            else mk Done (upd st1 a (CArr [])) [] VNil)   (* -0.5 truncates to 0 *)
            else mk Done (upd st1 a (CArr (resize_list l (trunc_half n)))) [] VNil
        | None => invalid st end)
  (* ops_generic.cpp:931-935 *)
  | OpReverse t =>
      with1 st t (fun st1 tv =>
        match arr_of st1 tv with
        | Some (a, l) => mk Done (upd st1 a (CArr (rev l))) [] VNil
        | None => invalid st end)
  (* ops_generic.cpp:736-817, on lists of comparable scalars, of strings, and on tables (arrays of rows: sort_table) *)
  | OpSort t asc =>
      with1 st t (fun st1 tv =>
        match arr_of st1 tv with
        | Some (a, l) =>
            if Nat.leb (length l) 1 then mk Done st1 [] VNil
            else if sortable_nums l then mk Done (upd st1 a (CArr (sort_by (num_le asc) l))) [] VNil
            else if sortable_strs l then mk Done (upd st1 a (CArr (sort_by (str_le asc) l))) [] VNil
            else
              (* a table: the array keeps its cell, its elements - the references to the row cells - are permuted *)
              of_res st (sort_table (st_heap st1) asc l) (fun r =>
                match r with
                | TSorted l' => mk Done (upd st1 a (CArr l')) [] VNil
                | TRefused ds => mk Done st1 ds VNil
                | TOutside => invalid st
                end)
        | None => invalid st end)
  | OpAssign dst x =>
      with1 st x (fun st1 v => assign_result st dst (mk Done st1 [] v))
  (* ops_generic.cpp:1246-1250; ops_hashmap.cpp:134-138 *)
  | OpCopy dst x =>
      with1 st x (fun st1 v =>
        match arr_of st1 v, map_of st1 v with
        | Some (a, _), _ =>
            of_res st (copy_deep (fuel_of (st_heap st1)) (st_heap st1) a) (fun r =>
              assign_result st dst (mk Done {| st_heap := fst r; st_vars := st_vars st1 |} [] (VRef (snd r))))
        | _, Some (_, es) => let '(st2, r) := alloc st1 (CMap es) in assign_result st dst (mk Done st2 [] r)
        | _, _ => invalid st end)
  (* ops_generic.cpp:1251-1258 *)
  | OpConcat dst x y =>
      with2 st x y (fun st1 v w =>
        match arr_of st1 v, arr_of st1 w with
        | Some (_, l), Some (_, r) => let '(st2, res) := alloc st1 (CArr (l ++ r)) in assign_result st dst (mk Done st2 [] res)
        | _, _ => invalid st end)
  (* ops_generic.cpp:1261-1276 *)
  | OpMinus dst x y =>
      with2 st x y (fun st1 v w =>
        match arr_of st1 v, arr_of st1 w with
        | Some (_, l), Some (_, r) =>
            of_res st (res_map (fun e => rbind (find_index (st_heap st1) r e)
                                          (fun o => Ok (match o with Some _ => false | None => true end, e))) l)
              (fun marks => let '(st2, res) := alloc st1 (CArr (map snd (filter fst marks))) in
                            assign_result st dst (mk Done st2 [] res))
        | _, _ => invalid st end)
  (* ops_generic.cpp:600-653 with a two-element scalar argument *)
  | OpSelRange dst x start len =>
      with1 st x (fun st1 v =>
        match arr_of st1 v with
        | Some (_, l) =>
            let s := round_half start in
            let n := round_half len in
            let empty ds := let '(st2, res) := alloc st1 (CArr []) in assign_result st dst (mk Done st2 ds res) in
            if s <? 0 then empty [DNegativeIndexWeak; DReturningEmptyArray]
            else if zlen l <? s then empty [DIndexOutOfRangeWeak; DReturningEmptyArray]
            else if n <? 0 then empty [DNegativeIndexWeak; DReturningEmptyArray]
            else let '(st2, res) := alloc st1 (CArr (zfirstn n (zskipn s l))) in assign_result st dst (mk Done st2 [] res)
        | None => invalid st end)
  (* ops_hashmap.cpp:23-26 *)
  | OpNewMap dst => let '(st2, res) := alloc st (CMap []) in assign_result st dst (mk Done st2 [] res)
  (* ops_hashmap.cpp:27-63 *)
  | OpMapFromArray dst x =>
      with1 st x (fun st1 v =>
        match arr_of st1 v with
        | Some (_, l) =>
            of_res st (mfa_go st1 l O [] [])
              (fun r => match r with
                        | None => invalid st
                        | Some r =>
                            let st1' := {| st_heap := st_heap st1 ++ repeat CKey (fst (fst r)); st_vars := st_vars st1 |} in
                            let '(st2, res) := alloc st1' (CMap (snd (fst r))) in
                            assign_result st dst (mk Done st2 (snd r) res)
                        end)
        | None => invalid st end)
  (* ops_hashmap.cpp:124-133 (the keys handed out are copies) *)
  | OpKeys dst m =>
      with1 st m (fun st1 v =>
        match map_of st1 v with
        | Some (_, es) =>
            (* the iteration order of the unordered_map is not modelled: the harness sorts the array
               it gets by canonical print, and so does the model; two keys that print alike (two
               NaN objects) would leave the order open: outside the modelled fragment *)
            let sorted := sort_by (fun a b => lex_le (print_tree true a) (print_tree true b)) (map ekey es) in
            if negb (distinct_prints (map (print_tree true) sorted)) then invalid st else
            let '(h2, ks) := thaw_list (st_heap st1) sorted in
            let '(st3, res) := alloc {| st_heap := h2; st_vars := st_vars st1 |} (CArr ks) in
            assign_result st dst (mk Done st3 [] res)
        | None => invalid st end)
  (* ops_hashmap.cpp:85-98 *)
  | OpGetTo dst m k =>
      with2 st m k (fun st1 mv kv =>
        match map_of st1 mv with
        | Some (_, es) =>
            of_res st (key_of st1 kv) (fun kt =>
              match dict_find es kt with
              | Some e => if vnil (snd e) then invalid st else assign_result st dst (mk Done st1 [] (snd e))
              | None => invalid st end)
        | None => invalid st end)
  (* ops_logic.cpp:93-100 *)
  | OpIsEqualTo x y =>
      with2 st x y (fun st1 v w =>
        of_res st (veq (fuel_of (st_heap st1)) (st_heap st1) v w) (fun b => mk Done st1 [] (VBool b)))
  (* ops_logic.cpp:85-88 on the types == is registered for *)
  | OpEqEq x y =>
      with2 st x y (fun st1 v w =>
        match v, w with
        | VNum a, VNum b => mk Done st1 [] (VBool (feq a b))
        | VStr a, VStr b => mk Done st1 [] (VBool (streq_ci a b))
        | VBool a, VBool b => mk Done st1 [] (VBool (Bool.eqb a b))
        | _, _ => invalid st end)
  (* ops_generic.cpp:1324-1333 *)
  | OpFind x y =>
      with2 st x y (fun st1 v w =>
        match arr_of st1 v with
        | Some (_, l) => of_res st (find_index (st_heap st1) l w)
                           (fun r => mk Done st1 [] (match r with Some i => vnum i | None => vnum (-1) end))
        | None => invalid st end)
  (* ops_generic.cpp:1941-1946; ops_hashmap.cpp:115-119 *)
  | OpIn x y =>
      with2 st x y (fun st1 v w =>
        match arr_of st1 w, map_of st1 w with
        | Some (_, l), _ => of_res st (find_index (st_heap st1) l v)
                              (fun r => mk Done st1 [] (VBool (match r with Some _ => true | None => false end)))
        | _, Some (_, es) => of_res st (key_of st1 v) (fun kt =>
                               mk Done st1 [] (VBool (match dict_find es kt with Some _ => true | None => false end)))
        | _, _ => invalid st end)
  (* ops_generic.cpp:89-93; ops_hashmap.cpp:120-123 *)
  | OpCount x =>
      with1 st x (fun st1 v =>
        match arr_of st1 v, map_of st1 v with
        | Some (_, l), _ => mk Done st1 [] (vnum (zlen l))
        | _, Some (_, es) => mk Done st1 [] (vnum (zlen es))
        | _, _ => invalid st end)
  (* ops_hashmap.cpp:85-98 *)
  | OpGet m k =>
      with2 st m k (fun st1 mv kv =>
        match map_of st1 mv with
        | Some (_, es) =>
            of_res st (key_of st1 kv) (fun kt =>
              mk Done st1 [] (match dict_find es kt with Some e => snd e | None => VNil end))
        | None => invalid st end)
  (* ops_hashmap.cpp:64-84; the value may be nil only through a literal, which the operand language has not *)
  | OpMapSet m k x =>
      with2 st m k (fun st1 mv kv =>
        match eval_opnd st1 x with
        | Some (st2, xv) =>
            match map_of st2 mv with
            | Some (a, es) => of_res st (key_of st2 kv) (fun kt =>
                                if negb (key_ok kt) then invalid st else
                                let '(st3, _) := alloc st2 CKey in
                                commit_map d st3 a (dict_set es kt (length (st_heap st2)) xv) es)
            | None => invalid st end
        | None => invalid st end)
  (* ops_hashmap.cpp:99-114 *)
  | OpMapDeleteAt m k =>
      with2 st m k (fun st1 mv kv =>
        match map_of st1 mv with
        | Some (a, es) =>
            of_res st (key_of st1 kv) (fun kt =>
              match dict_find es kt with
              | Some e => mk Done (upd st1 a (CMap (dict_del es kt))) [] (snd e)
              | None => mk Done st1 [] VNil end)
        | None => invalid st end)
  end.

(* run a history; ops the model has no semantics for are dropped (the generator learns
   which from the driver), a diverging / undefined op ends the run *)
Fixpoint run (d : defects) (st : state) (os : list op) : state :=
  match os with
  | [] => st
  | o :: os' => let r := step d st o in
                match o_status r with
                | Done => run d (o_state r) os'
                | Invalid => run d st os'
                | _ => st
                end
  end.

(* observation of a variable: its print (raw and canonical) *)
Definition observe (st : state) (v : value) : res tree := freeze (fuel_of (st_heap st)) (st_heap st) v.

Definition init_state (nvars : nat) : state := {| st_heap := []; st_vars := repeat VNil nvars |}.

(* ------------------------------------------------------------------------------------ *)
(* rendering of operands / operations as SQF text for the implementation *)

Definition var_name (n : nat) : bytes := [118] ++ digits (Z.of_nat n).    (* vN *)
Definition render_opnd (o : opnd) : bytes :=
  match o with
  | OVar n => var_name n
  | OLit t => render_tree t
  | OSel n i => [40] ++ var_name n ++ [32;115;101;108;101;99;116;32] ++ print_scalar (SHalf (2 * i)) ++ [41]
  | OWrap n => [91] ++ var_name n ++ [93]
  end.
Definition half (t : Z) : bytes := render_scalar (SHalf t).
Definition kw (s : bytes) (a b : bytes) : bytes := a ++ [32] ++ s ++ [32] ++ b.
Definition brk (l : list bytes) : bytes := [91] ++ join [44] l ++ [93].
Definition asg (dst : nat) (e : bytes) : bytes := var_name dst ++ [32;61;32] ++ e.
(* queries and in-place operators are wrapped as  r_ = [ <expr> ]  so that the result can be read *)
Definition qry (e : bytes) : bytes := [114;95;32;61;32;91] ++ e ++ [93].

Definition render_op (o : op) : bytes :=
  match o with
  | OpSet t idx x => qry (kw [115;101;116] (render_opnd t) (brk [half idx; render_opnd x]))
  | OpPushBack t x => qry (kw [112;117;115;104;66;97;99;107] (render_opnd t) (render_opnd x))
  | OpPushBackUnique t x => qry (kw [112;117;115;104;66;97;99;107;85;110;105;113;117;101] (render_opnd t) (render_opnd x))
  | OpAppend t x => qry (kw [97;112;112;101;110;100] (render_opnd t) (render_opnd x))
  | OpDeleteAt t idx => qry (kw [100;101;108;101;116;101;65;116] (render_opnd t) (half idx))
  | OpDeleteRange t f n => qry (kw [100;101;108;101;116;101;82;97;110;103;101] (render_opnd t) (brk [half f; half n]))
  | OpResize t n => qry (kw [114;101;115;105;122;101] (render_opnd t) (half n))
  | OpReverse t => qry ([114;101;118;101;114;115;101;32] ++ render_opnd t)
  | OpSort t asc => qry (kw [115;111;114;116] (render_opnd t) (if asc then [116;114;117;101] else [102;97;108;115;101]))
  | OpAssign dst x => asg dst (render_opnd x)
  | OpCopy dst x => asg dst ([43] ++ render_opnd x)
  | OpConcat dst x y => asg dst (kw [43] (render_opnd x) (render_opnd y))
  | OpMinus dst x y => asg dst (kw [45] (render_opnd x) (render_opnd y))
  | OpSelRange dst x s n => asg dst (kw [115;101;108;101;99;116] (render_opnd x) (brk [half s; half n]))
  | OpNewMap dst => asg dst [99;114;101;97;116;101;72;97;115;104;77;97;112]
  | OpMapFromArray dst x => asg dst ([99;114;101;97;116;101;72;97;115;104;77;97;112;70;114;111;109;65;114;114;97;121;32] ++ render_opnd x)
  | OpKeys dst m => asg dst ([107;101;121;115;32] ++ render_opnd m)
  | OpGetTo dst m k => asg dst (kw [103;101;116] (render_opnd m) (render_opnd k))
  | OpIsEqualTo x y => qry (kw [105;115;69;113;117;97;108;84;111] (render_opnd x) (render_opnd y))
  | OpEqEq x y => qry (kw [61;61] (render_opnd x) (render_opnd y))
  | OpFind x y => qry (kw [102;105;110;100] (render_opnd x) (render_opnd y))
  | OpIn x y => qry (kw [105;110] (render_opnd x) (render_opnd y))
  | OpCount x => qry ([99;111;117;110;116;32] ++ render_opnd x)
  | OpGet m k => qry (kw [103;101;116] (render_opnd m) (render_opnd k))
  | OpMapSet m k x => qry (kw [115;101;116] (render_opnd m) (brk [render_opnd k; render_opnd x]))
  | OpMapDeleteAt m k => qry (kw [100;101;108;101;116;101;65;116] (render_opnd m) (render_opnd k))
  end.
