(* C08: +array is deep - every array that the copy reaches through arrays is a new cell, so no
   later change of an array that existed before the copy can show in it.  (A HashMap inside the
   array is shared by the copy: d_array::copy_deep copies arrays only.) *)
From Coq Require Import ZArith List ListDec Arith Lia Bool.
From SqfVerif Require Import Data.DataDefs Data.DataGraph Data.DataHeap Data.DataStep Data.DataTerm Data.DataFrame.
Import ListNotations.

(* every array referred to from a cell at or above n lies at or above n *)
Definition new_closed (n : nat) (h : list cell) : Prop :=
  forall b c, n <= b -> nth_error h b = Some c -> forall r, In r (cell_refs c) -> is_arr h r = true -> n <= r.

Lemma is_arr_old h ext r : r < length h -> is_arr (h ++ ext) r = is_arr h r.
Proof. intros H. unfold is_arr. rewrite nth_error_app1; auto. Qed.
Lemma is_arr_lt h r : is_arr h r = true -> r < length h.
Proof. intros H. apply cont_lt, is_arr_cont; auto. Qed.

Lemma new_closed_gext n h1 h2 : hwf h1 -> new_closed n h1 -> gext h1 h2 -> new_closed (length h1) h2 -> n <= length h1 ->
  new_closed n h2.
Proof.
  intros W P G P2 L b c Hb E r Hr Ia.
  destruct (Nat.lt_ge_cases b (length h1)) as [Hlt|Hge].
  - rewrite (gext_old _ _ _ G Hlt) in E.
    assert (Rl: r < length h1) by (eapply cont_lt, cwf_refs; [eapply hwf_nth; eauto|exact Hr]).
    destruct G as [[ext ->] _]. rewrite is_arr_old in Ia by auto. eapply P; eauto.
  - specialize (P2 b c Hge E r Hr Ia). lia.
Qed.

Lemma new_closed_alloc n h vs : hwf h -> new_closed n h -> n <= length h ->
  (forall r, In (VRef r) vs -> is_arr h r = true -> n <= r) -> Forall (vwf h) vs ->
  new_closed n (h ++ [CArr vs]).
Proof.
  intros W P L Hv Fv b c Hb E r Hr Ia.
  destruct (Nat.lt_ge_cases b (length h)) as [Hlt|Hge].
  - rewrite nth_error_app1 in E by auto.
    assert (Rl: r < length h) by (eapply cont_lt, cwf_refs; [eapply hwf_nth; eauto|exact Hr]).
    rewrite is_arr_old in Ia by auto. eapply P; eauto.
  - assert (b = length h).
    { assert (b < length (h ++ [CArr vs])) by (apply nth_error_Some; congruence). rewrite app_length in H. cbn in H. lia. }
    subst b. rewrite nth_error_app2 in E by lia. rewrite Nat.sub_diag in E. cbn in E. inversion E; subst c. cbn in Hr.
    apply In_refs in Hr.
    assert (Rl: r < length h).
    { eapply Forall_forall in Fv; eauto. cbn in Fv. apply cont_lt; auto. }
    rewrite is_arr_old in Ia by auto. apply Hv; auto.
Qed.

Lemma copy_deep_new : forall f h a h' a', hwf h -> copy_deep f h a = Ok (h', a') -> new_closed (length h) h'.
Proof.
  induction f as [|f IH]; intros h a h' a' W E; [discriminate|].
  cbn [copy_deep] in E. destruct (nth_error h a) as [[l| |]|] eqn:Ea; try discriminate.
  pose proof (hwf_nth _ _ _ W Ea) as Wl. cbn in Wl.
  set (g := fun (h : list cell) (x : value) =>
              match x with
              | VRef b => match nth_error h b with
                          | Some (CArr _) => rbind (copy_deep f h b) (fun r => Ok (fst r, VRef (snd r)))
                          | Some (CMap _) => Ok (h, x)
                          | Some CKey => UB
                          | None => UB
                          end
              | _ => Ok (h, x)
              end) in E.
  assert (S: forall xs h1 h2 vs, hwf h1 -> gext h h1 -> new_closed (length h) h1 -> Forall (vwf h1) xs ->
             res_mapS g h1 xs = Ok (h2, vs) ->
             gext h1 h2 /\ new_closed (length h) h2 /\ Forall (vwf h2) vs /\
             (forall r, In (VRef r) vs -> is_arr h2 r = true -> length h <= r)).
  { induction xs as [|x xs IHx]; intros h1 h2 vs W1 G1 P1 F R; cbn in R.
    - inversion R; subst. split; [apply gext_refl; auto|]. split; auto. split; [constructor|]. intros r [].
    - destruct (g h1 x) as [[h1' y]| |] eqn:Eg; try discriminate.
      destruct (res_mapS g h1' xs) as [[h2' ys]| |] eqn:Er; try discriminate. inversion R; subst h2' vs.
      inversion F as [|? ? Fx Fl]; subst.
      assert (X: gext h1 h1' /\ new_closed (length h) h1' /\ vwf h1' y /\ (forall r, y = VRef r -> is_arr h1' r = true -> length h <= r)).
      { unfold g in Eg. destruct x; try (inversion Eg; subst; split; [apply gext_refl; auto|]; split; auto; split; [exact I|]; intros; discriminate).
        destruct (nth_error h1 a0) as [[| |]|] eqn:E0; try discriminate.
        - destruct (copy_deep f h1 a0) as [[hh aa]| |] eqn:Ec; try discriminate. cbn in Eg. inversion Eg; subst h1' y.
          destruct (copy_deep_gext3 _ _ _ _ _ W1 Ec) as (Gc & Ia & La).
          split; auto. split; [|split; [cbn; apply is_arr_cont; auto|]].
          + eapply new_closed_gext; eauto. apply gext_len; auto.
          + intros r Hr _. inversion Hr; subst. pose proof (gext_len _ _ G1). lia.
        - inversion Eg; subst. split; [apply gext_refl; auto|]. split; auto. split; auto.
          intros r Hr Ia. inversion Hr; subst. unfold is_arr in Ia. rewrite E0 in Ia. discriminate. }
      destruct X as (Gx & Px & Vy & Ny).
      destruct (IHx h1' h2 ys) as (G2 & P2 & Vs & Ns); auto.
      { apply Gx. }
      { eapply gext_trans; eauto. }
      { eapply Forall_impl; [|exact Fl]. intros v. apply vwf_mono. apply gext_kinds; auto. }
      split; [eapply gext_trans; eauto|]. split; auto. split.
      + constructor; auto. eapply vwf_mono; [apply gext_kinds; exact G2|exact Vy].
      + intros r [Hr|Hr] Ia; [|apply Ns; auto]. subst y.
        apply Ny; auto. cbn in Vy. destruct G2 as [[ext ->] _]. rewrite is_arr_old in Ia; auto. apply cont_lt; auto. }
  destruct (res_mapS g h l) as [[h1 vs]| |] eqn:Er; try discriminate. cbn in E. inversion E; subst h' a'.
  assert (P0: new_closed (length h) h).
  { intros b c Hb Eb. assert (b < length h) by (apply nth_error_Some; congruence). lia. }
  destruct (S l h h1 vs W (gext_refl _ W) P0 Wl Er) as (G1 & P1 & Vs & Ns).
  apply new_closed_alloc; auto. apply G1. apply gext_len; auto.
Qed.

(* arrays reached through arrays from a node at or above n stay at or above n *)
Lemma new_closed_reach n h : new_closed n h -> forall a b, reach (succs_arr h) a b -> n <= a -> n <= b.
Proof.
  intros P a b R. induction R as [a b He|a m b He Hr IH]; intros Ha.
  - unfold edge, succs_arr in He. destruct (nth_error h a) as [[l| |]|] eqn:E; try contradiction.
    apply filter_In in He. destruct He as [Hin Ia]. eapply P; eauto.
  - apply IH. unfold edge, succs_arr in He. destruct (nth_error h a) as [[l| |]|] eqn:E; try contradiction.
    apply filter_In in He. destruct He as [Hin Ia]. eapply P; eauto.
Qed.

(* +x on an array: the copy and every array it reaches through arrays are cells that did not
   exist before (so no operand, alias or slot of the old heap refers to them), and no history
   that does not work in place on one of these cells themselves changes any of them *)
Theorem copy_is_deep : forall st n a dst, Inv st ->
  nth_error (st_vars st) n = Some (VRef a) -> is_arr (st_heap st) a = true ->
  o_status (step repaired st (OpCopy dst (OVar n))) = Done ->
  let st' := o_state (step repaired st (OpCopy dst (OVar n))) in
  exists r, nth_error (st_vars st') dst = Some (VRef r) /\ length (st_heap st) <= r /\
    (forall b, reach (succs_arr (st_heap st')) r b -> length (st_heap st) <= b) /\
    forall os, (forall b, (b = r \/ reach (succs_arr (st_heap st')) r b) -> untouched repaired b st' os) ->
      forall b, (b = r \/ reach (succs_arr (st_heap st')) r b) -> b < length (st_heap st') ->
                nth_error (st_heap (run repaired st' os)) b = nth_error (st_heap st') b.
Proof.
  intros st n a dst Hi V Ia S st'.
  destruct (fresh_results_independent st (OpCopy dst (OVar n)) dst Hi eq_refl S) as (r & Hv & Hl & _).
  pose proof (step_good st (OpCopy dst (OVar n)) Hi) as [G' _]. fold st' in G', Hv.
  assert (P: new_closed (length (st_heap st)) (st_heap st')).
  { subst st'. revert S. cbn [step]. unfold with1. cbn [eval_opnd]. rewrite V.
    unfold arr_of. cbn [st_heap]. unfold is_arr in Ia. destruct (nth_error (st_heap st) a) as [[l| |]|] eqn:Ea; try discriminate.
    destruct (copy_deep (fuel_of (st_heap st)) (st_heap st) a) as [[h' a']| |] eqn:Ec; cbn [of_res]; try (intros S0; cbn in S0; discriminate S0).
    intros S. destruct (assign_done _ _ _ _ S eq_refl) as (_ & Hh & _). cbn [o_state mk st_heap] in Hh. rewrite Hh.
    eapply copy_deep_new; eauto. apply Hi. }
  exists r. split; auto. split; auto. split.
  - intros b R. eapply new_closed_reach; eauto.
  - intros os U b Hb Lb. apply run_frame; auto.
Qed.
Print Assumptions copy_is_deep.
