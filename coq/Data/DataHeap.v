(* Heap layer of C08: well-formed heaps, the walks (print / compare / copy) terminate when the
   recursion test says yes, hence on every acyclic heap within |heap|+2 levels of fuel. *)
From Coq Require Import ZArith List ListDec Arith Lia Bool.
From SqfVerif Require Import Data.DataDefs Data.DataGraph.
Import ListNotations.

(* ------------------------------------------------------------------ lists *)
Lemma length_set_nth {A} (l : list A) n x : length (set_nth l n x) = length l.
Proof. revert n; induction l; destruct n; cbn; auto. Qed.
Lemma nth_error_set_nth_eq {A} (l : list A) n x : n < length l -> nth_error (set_nth l n x) n = Some x.
Proof. revert n; induction l; destruct n; cbn; intros; try lia; auto. apply IHl; lia. Qed.
Lemma nth_error_set_nth_neq {A} (l : list A) n m x : n <> m -> nth_error (set_nth l n x) m = nth_error l m.
Proof. revert n m; induction l; destruct n, m; cbn; intros; try congruence; auto. Qed.
Lemma set_nth_out {A} (l : list A) n x : length l <= n -> set_nth l n x = l.
Proof. revert n; induction l; destruct n; cbn; intros; try lia; auto. f_equal. apply IHl. lia. Qed.

Lemma In_refs a l : In a (refs l) <-> In (VRef a) l.
Proof.
  unfold refs. rewrite in_flat_map. split.
  - intros (v & Hv & Hin). destruct v; cbn in Hin; try contradiction. destruct Hin as [<-|[]]. exact Hv.
  - intros H. exists (VRef a). split; auto. left; auto.
Qed.
Lemma refs_app l1 l2 : refs (l1 ++ l2) = refs l1 ++ refs l2.
Proof. unfold refs. apply flat_map_app. Qed.

(* ------------------------------------------------------------------ well-formed heaps *)
Definition cont (h : list cell) (a : nat) : bool :=
  match nth_error h a with Some (CArr _) => true | Some (CMap _) => true | _ => false end.
Definition vwf (h : list cell) (v : value) : Prop := match v with VRef a => cont h a = true | _ => True end.
Definition cwf (h : list cell) (c : cell) : Prop :=
  match c with
  | CArr l => Forall (vwf h) l
  | CMap es => Forall (fun e => vwf h (snd e)) es
  | CKey => True
  end.
Definition hwf (h : list cell) : Prop := Forall (cwf h) h.
Definition swf (st : state) : Prop := hwf (st_heap st) /\ Forall (vwf (st_heap st)) (st_vars st).
Definition HAcyclic (h : list cell) : Prop := Acyclic (succs h).
Definition Inv (st : state) : Prop := swf st /\ HAcyclic (st_heap st).

Lemma cont_lt h a : cont h a = true -> a < length h.
Proof. unfold cont. destruct (nth_error h a) eqn:E; [|discriminate]. intros _. apply nth_error_Some. congruence. Qed.

(* two heaps with the same kind of cell at every old address *)
Definition kinds_le (h h' : list cell) : Prop := forall a, cont h a = true -> cont h' a = true.
Lemma vwf_mono h h' v : kinds_le h h' -> vwf h v -> vwf h' v.
Proof. destruct v; cbn; auto. Qed.
Lemma cwf_mono h h' c : kinds_le h h' -> cwf h c -> cwf h' c.
Proof.
  intros K. destruct c; cbn; auto; intros F; (eapply Forall_impl; [|exact F]); cbn; intros; eapply vwf_mono; eauto.
Qed.
Lemma kinds_le_app h ext : kinds_le h (h ++ ext).
Proof.
  intros a H. unfold cont in *. rewrite nth_error_app1; auto.
  apply nth_error_Some. destruct (nth_error h a); congruence.
Qed.
Lemma kinds_le_refl h : kinds_le h h. Proof. intros a; auto. Qed.
Lemma kinds_le_trans h1 h2 h3 : kinds_le h1 h2 -> kinds_le h2 h3 -> kinds_le h1 h3.
Proof. intros A B a H. auto. Qed.

Definition same_kind (c c' : cell) : Prop :=
  match c, c' with CArr _, CArr _ => True | CMap _, CMap _ => True | CKey, CKey => True | _, _ => False end.
Lemma cont_set_nth h a c c' b : nth_error h a = Some c -> same_kind c c' -> cont (set_nth h a c') b = cont h b.
Proof.
  intros E S. unfold cont. destruct (Nat.eq_dec a b) as [<-|Hne].
  - rewrite nth_error_set_nth_eq by (apply nth_error_Some; congruence). rewrite E.
    destruct c, c'; cbn in S; try contradiction; reflexivity.
  - rewrite nth_error_set_nth_neq by auto. reflexivity.
Qed.
Lemma kinds_le_set_nth h a c c' : nth_error h a = Some c -> same_kind c c' -> kinds_le h (set_nth h a c').
Proof. intros E S b H. erewrite cont_set_nth; eauto. Qed.

Lemma hwf_nth h a c : hwf h -> nth_error h a = Some c -> cwf h c.
Proof. intros H E. eapply Forall_forall in H; [exact H|]. eapply nth_error_In; eauto. Qed.

Lemma hwf_app h ext : hwf h -> Forall (cwf (h ++ ext)) ext -> hwf (h ++ ext).
Proof.
  intros H E. unfold hwf. apply Forall_app. split; auto.
  eapply Forall_impl; [|exact H]. intros c. apply cwf_mono. apply kinds_le_app.
Qed.

Lemma Forall_set_nth {A} (P : A -> Prop) l n x : Forall P l -> P x -> Forall P (set_nth l n x).
Proof. intros F Px. revert n. induction F; destruct n; cbn; auto. Qed.

Lemma hwf_set_nth h a c c' : hwf h -> nth_error h a = Some c -> same_kind c c' -> cwf h c' -> hwf (set_nth h a c').
Proof.
  intros H E S C. unfold hwf.
  assert (K: kinds_le h (set_nth h a c')) by (eapply kinds_le_set_nth; eauto).
  apply Forall_set_nth.
  - eapply Forall_impl; [|exact H]. intros x. apply cwf_mono; auto.
  - eapply cwf_mono; eauto.
Qed.

(* ------------------------------------------------------------------ successors *)
Lemma succs_out h a : length h <= a -> succs h a = [].
Proof. intros H. unfold succs. rewrite (proj2 (nth_error_None h a)); auto. Qed.
Lemma succs_app_old h ext a : a < length h -> succs (h ++ ext) a = succs h a.
Proof. intros H. unfold succs. rewrite nth_error_app1; auto. Qed.
Lemma succs_set_nth_neq h a c b : a <> b -> succs (set_nth h a c) b = succs h b.
Proof. intros H. unfold succs. rewrite nth_error_set_nth_neq; auto. Qed.
Definition cell_refs (c : cell) : list nat :=
  match c with CArr l => refs l | CMap es => refs (map snd es) | CKey => [] end.
Lemma succs_nth h a c : nth_error h a = Some c -> succs h a = cell_refs c.
Proof. intros E. unfold succs. rewrite E. destruct c; reflexivity. Qed.
Lemma succs_set_nth_eq h a c : a < length h -> succs (set_nth h a c) a = cell_refs c.
Proof. intros H. apply succs_nth. apply nth_error_set_nth_eq; auto. Qed.

Lemma cwf_refs h c b : cwf h c -> In b (cell_refs c) -> cont h b = true.
Proof.
  destruct c; cbn; intros F Hin; try contradiction.
  - apply In_refs in Hin. eapply Forall_forall in F; eauto. exact F.
  - apply In_refs in Hin. apply in_map_iff in Hin. destruct Hin as (e & He & Hin).
    eapply Forall_forall in F; eauto. cbn in F. rewrite He in F. exact F.
Qed.
Lemma succs_cont h a b : hwf h -> In b (succs h a) -> cont h b = true.
Proof.
  intros H Hin. unfold succs in Hin. destruct (nth_error h a) as [c|] eqn:E; [|contradiction].
  eapply cwf_refs; [eapply hwf_nth; eauto|]. destruct c; auto.
Qed.
Lemma succs_lt h a b : hwf h -> In b (succs h a) -> b < length h.
Proof. intros. eapply cont_lt, succs_cont; eauto. Qed.

(* ------------------------------------------------------------------ the walks terminate when the test says yes *)

Lemma res_map_ok {A B} (g : A -> res B) l : (forall x, In x l -> exists y, g x = Ok y) -> exists ys, res_map g l = Ok ys.
Proof.
  induction l as [|x l IH]; intros H; cbn; [eauto|].
  destruct (H x (or_introl eq_refl)) as [y ->]. destruct IH as [ys ->]; [intros; apply H; right; auto|]. eauto.
Qed.

Lemma freeze_leaf f h v : (forall a, v <> VRef a) -> exists t, freeze f h v = Ok t.
Proof. destruct f, v; cbn; intros H; eauto; exfalso; eapply H; reflexivity. Qed.

Theorem rt_yes_freeze : forall f h vis a, hwf h -> cont h a = true ->
  rt (succs h) f vis a = Some true -> exists t, freeze f h (VRef a) = Ok t.
Proof.
  induction f as [|f IH]; intros h vis a W C R; [discriminate|].
  pose proof (rt_true_children _ _ _ _ R) as G.
  cbn [freeze]. unfold cont in C. destruct (nth_error h a) as [c|] eqn:E; [|discriminate].
  assert (Hs: succs h a = cell_refs c) by (apply succs_nth; auto).
  pose proof (hwf_nth _ _ _ W E) as Wc.
  assert (V: forall v, vwf h v -> (forall r, v = VRef r -> In r (succs h a)) -> exists t, freeze f h v = Ok t).
  { intros v Wv Hin. destruct v; try (apply freeze_leaf; intros; discriminate).
    destruct (G a0 (Hin _ eq_refl)) as [_ Rr]. eapply IH; eauto. }
  destruct c as [l|es|]; [| |discriminate].
  - destruct (res_map_ok (freeze f h) l) as [ts ->]; [|cbn; eauto].
    intros v Hv. apply V.
    + cbn in Wc. eapply Forall_forall in Wc; eauto.
    + intros r ->. rewrite Hs. cbn. apply In_refs. auto.
  - destruct (res_map_ok (fun e => rbind (freeze f h (snd e)) (fun t => Ok (ekey e, t))) es) as [ts ->]; [|cbn; eauto].
    intros e He. destruct (V (snd e)) as [t ->]; [| |cbn; eauto].
    + cbn in Wc. eapply Forall_forall in Wc; [|exact He]. exact Wc.
    + intros r Hr. rewrite Hs. cbn. apply In_refs. rewrite <- Hr. apply in_map. auto.
Qed.

(* lock-step comparison: termination follows from the test on the left value alone *)
Lemma res_all_ok {A} (g : A -> res bool) l : (forall x, In x l -> exists b, g x = Ok b) -> exists b, res_all g l = Ok b.
Proof.
  induction l as [|x l IH]; intros H; cbn; [eauto|].
  destruct (H x (or_introl eq_refl)) as [[|] ->]; [apply IH; intros; apply H; right; auto|eauto].
Qed.
Lemma res_any_ok {A} (g : A -> res bool) l : (forall x, In x l -> exists b, g x = Ok b) -> exists b, res_any g l = Ok b.
Proof.
  induction l as [|x l IH]; intros H; cbn; [eauto|].
  destruct (H x (or_introl eq_refl)) as [[|] ->]; [eauto|apply IH; intros; apply H; right; auto].
Qed.

Lemma deq_leaf_l f h v w : (forall a, v <> VRef a) -> exists b, deq f h v w = Ok b.
Proof. destruct f, v, w; cbn; intros H; eauto; exfalso; eapply H; reflexivity. Qed.

Theorem rt_yes_deq : forall f h vis p w, hwf h -> cont h p = true -> vwf h w ->
  rt (succs h) f vis p = Some true -> exists b, deq f h (VRef p) w = Ok b.
Proof.
  induction f as [|f IH]; intros h vis p w W C Ww R; [discriminate|].
  pose proof (rt_true_children _ _ _ _ R) as G.
  destruct w as [| | | | |q]; try (cbn; eauto; fail).
  cbn [deq]. cbn in Ww. unfold cont in C, Ww.
  destruct (nth_error h p) as [c|] eqn:E; [|discriminate].
  destruct (nth_error h q) as [c'|] eqn:E'; [|discriminate].
  assert (Hs: succs h p = cell_refs c) by (apply succs_nth; auto).
  pose proof (hwf_nth _ _ _ W E) as Wc. pose proof (hwf_nth _ _ _ W E') as Wc'.
  assert (V: forall v w, vwf h v -> vwf h w -> (forall r, v = VRef r -> In r (succs h p)) -> exists b, deq f h v w = Ok b).
  { intros v w0 Wv Ww0 Hin. destruct v; try (apply deq_leaf_l; intros; discriminate).
    destruct (G a (Hin _ eq_refl)) as [_ Rr]. eapply IH; eauto. }
  destruct c as [l1|e1|]; [| |discriminate]; destruct c' as [l2|e2|]; try discriminate; eauto.
  - destruct (Nat.eqb p q); eauto.
    destruct (negb (Nat.eqb (length l1) (length l2))); eauto.
    apply res_all_ok. intros [x y] Hxy. cbn [fst snd].
    destruct (vnil x || vnil y); eauto.
    apply V.
    + cbn in Wc. eapply Forall_forall in Wc; [exact Wc|]. eapply in_combine_l; eauto.
    + cbn in Wc'. eapply Forall_forall in Wc'; [exact Wc'|]. eapply in_combine_r; eauto.
    + intros r ->. rewrite Hs. cbn. apply In_refs. eapply in_combine_l; eauto.
  - destruct (Nat.eqb p q); eauto.
    destruct (negb (Nat.eqb (length e1) (length e2))); eauto.
    apply res_all_ok. intros e He. apply res_any_ok. intros e' He'.
    destruct (Nat.eqb (eid e) (eid e') || teq (ekey e) (ekey e')); eauto.
    destruct (vnil (snd e)); eauto. destruct (vnil (snd e')); eauto.
    apply V.
    + cbn in Wc. eapply Forall_forall in Wc; [|exact He]. exact Wc.
    + cbn in Wc'. eapply Forall_forall in Wc'; [|exact He']. exact Wc'.
    + intros r Hr. rewrite Hs. cbn. apply In_refs. rewrite <- Hr. apply in_map; auto.
Qed.

(* ------------------------------------------------------------------ growing the heap *)
(* h' = h ++ new cells, still well formed, and every new cell refers to older cells only *)
Definition gext (h h' : list cell) : Prop :=
  (exists ext, h' = h ++ ext) /\ hwf h' /\
  (forall b c, length h <= b -> nth_error h' b = Some c -> forall r, In r (cell_refs c) -> r < b).

Lemma gext_refl h : hwf h -> gext h h.
Proof.
  intros W. split; [exists []; rewrite app_nil_r; auto|]. split; auto.
  intros b c Hb E. assert (b < length h) by (apply nth_error_Some; congruence). lia.
Qed.
Lemma gext_len h h' : gext h h' -> length h <= length h'.
Proof. intros [[ext ->] _]. rewrite app_length. lia. Qed.
Lemma gext_old h h' a : gext h h' -> a < length h -> nth_error h' a = nth_error h a.
Proof. intros [[ext ->] _] H. apply nth_error_app1; auto. Qed.
Lemma gext_kinds h h' : gext h h' -> kinds_le h h'.
Proof. intros [[ext ->] _]. apply kinds_le_app. Qed.
Lemma gext_trans h1 h2 h3 : gext h1 h2 -> gext h2 h3 -> gext h1 h3.
Proof.
  intros G1 G2. pose proof (gext_len _ _ G1) as L1.
  destruct G1 as [[e1 ->] [W2 D1]]. destruct G2 as [[e2 ->] [W3 D2]].
  split; [exists (e1 ++ e2); rewrite app_assoc; auto|]. split; auto.
  intros b c Hb E. destruct (Nat.lt_ge_cases b (length (h1 ++ e1))) as [Hlt|Hge].
  - rewrite nth_error_app1 in E by auto. eapply D1; eauto.
  - eapply D2; eauto.
Qed.
Lemma gext_alloc h c : hwf h -> cwf h c -> gext h (h ++ [c]).
Proof.
  intros W C. split; [eexists; eauto|]. split.
  - apply hwf_app; auto. constructor; auto. eapply cwf_mono; [apply kinds_le_app|exact C].
  - intros b c' Hb E r Hin.
    assert (b < length (h ++ [c])) by (apply nth_error_Some; congruence).
    rewrite app_length in H. cbn in H. assert (b = length h) by lia. subst b.
    rewrite nth_error_app2 in E by lia. rewrite Nat.sub_diag in E. cbn in E. inversion E; subst c'.
    eapply cont_lt, cwf_refs; eauto.
Qed.

Lemma gext_acyclic h h' : hwf h -> gext h h' -> HAcyclic h -> HAcyclic h'.
Proof.
  intros W G A. unfold HAcyclic in *. eapply (acyclic_extend (succs h) (succs h') (length h)); eauto.
  - intros a Ha. unfold succs. erewrite gext_old; eauto.
  - intros a b Ha Hin. eapply succs_lt; eauto.
  - intros a b Ha Hin. destruct G as [_ [W' D]]. unfold succs in Hin.
    destruct (nth_error h' a) as [c|] eqn:E; [|contradiction].
    eapply D; eauto.
Qed.

Lemma is_arr_cont h a : is_arr h a = true -> cont h a = true.
Proof. unfold is_arr, cont. destruct (nth_error h a) as [[| |]|]; auto. Qed.

(* what a successful deep copy leaves behind *)
Lemma copy_deep_gext3 : forall f h a h' a', hwf h -> copy_deep f h a = Ok (h', a') ->
  gext h h' /\ is_arr h' a' = true /\ length h <= a'.
Proof.
  induction f as [|f IH]; intros h a h' a' W E; [discriminate|].
  cbn [copy_deep] in E. destruct (nth_error h a) as [[l| |]|] eqn:Ea; try discriminate.
  pose proof (hwf_nth _ _ _ W Ea) as Wl. cbn in Wl.
  set (g := fun (h : list cell) (x : value) =>
              match x with
              | VRef b => match nth_error h b with
                          | Some (CArr _) => rbind (copy_deep f h b) (fun r => Ok (fst r, VRef (snd r)))
                          | Some (CMap _) => Ok (h, x)
                          | Some CKey => UB
                          | None => UB
                          end
              | _ => Ok (h, x)
              end) in E.
  assert (S: forall xs h1 h2 vs, hwf h1 -> Forall (vwf h1) xs -> res_mapS g h1 xs = Ok (h2, vs) ->
             gext h1 h2 /\ Forall (vwf h2) vs).
  { induction xs as [|x xs IHl]; intros h1 h2 vs W1 F R; cbn in R.
    - inversion R; subst. split; [apply gext_refl; auto|constructor].
    - destruct (g h1 x) as [[h1' y]| |] eqn:Eg; try discriminate.
      destruct (res_mapS g h1' xs) as [[h2' ys]| |] eqn:Er; try discriminate. inversion R; subst h2' vs.
      inversion F as [|? ? Fx Fl]; subst.
      assert (G1: gext h1 h1' /\ vwf h1' y).
      { unfold g in Eg. destruct x; try (inversion Eg; subst; split; [apply gext_refl; auto|exact I]).
        destruct (nth_error h1 a0) as [[| |]|] eqn:E0; try discriminate.
        - destruct (copy_deep f h1 a0) as [[hh aa]| |] eqn:Ec; try discriminate. cbn in Eg. inversion Eg; subst h1' y.
          destruct (IH _ _ _ _ W1 Ec) as (Gc & Ia & _). split; auto. cbn. apply is_arr_cont; auto.
        - inversion Eg; subst. split; [apply gext_refl; auto|exact Fx]. }
      destruct G1 as [G1 Vy].
      destruct (IHl h1' h2 ys) as [G2 Vs]; auto.
      { apply G1. }
      { eapply Forall_impl; [|exact Fl]. intros v. apply vwf_mono. apply gext_kinds; auto. }
      split; [eapply gext_trans; eauto|]. constructor; auto.
      eapply vwf_mono; [apply gext_kinds; exact G2|exact Vy]. }
  destruct (res_mapS g h l) as [[h1 vs]| |] eqn:Er; try discriminate. cbn in E. inversion E; subst h' a'.
  destruct (S l h h1 vs W Wl Er) as [G1 Vs].
  split; [|split].
  - eapply gext_trans; [exact G1|]. apply gext_alloc; [apply G1|exact Vs].
  - unfold is_arr. rewrite nth_error_app2 by lia. rewrite Nat.sub_diag. reflexivity.
  - apply gext_len; auto.
Qed.
Lemma copy_deep_gext : forall f h a h' a', hwf h -> copy_deep f h a = Ok (h', a') ->
  gext h h' /\ is_arr h' a' = true.
Proof. intros. destruct (copy_deep_gext3 _ _ _ _ _ H H0) as (A & B & _). auto. Qed.

Theorem rt_yes_copy : forall f h0 vis a, hwf h0 -> rt (succs h0) f vis a = Some true -> is_arr h0 a = true ->
  forall h, gext h0 h -> exists r, copy_deep f h a = Ok r.
Proof.
  induction f as [|f IH]; intros h0 vis a W R Ia h G; [discriminate|].
  pose proof (rt_true_children _ _ _ _ R) as Ch.
  cbn [copy_deep]. assert (La: a < length h0) by (apply cont_lt, is_arr_cont; auto).
  rewrite (gext_old _ _ _ G La). unfold is_arr in Ia.
  destruct (nth_error h0 a) as [[l| |]|] eqn:Ea; try discriminate.
  pose proof (hwf_nth _ _ _ W Ea) as Wl. cbn in Wl.
  assert (Hs: succs h0 a = refs l) by (rewrite (succs_nth _ _ _ Ea); reflexivity).
  match goal with |- exists r, rbind (res_mapS ?g0 h l) _ = _ => set (g := g0) end.
  assert (S: forall xs h1, gext h0 h1 -> Forall (vwf h0) xs -> (forall b, In (VRef b) xs -> In b (succs h0 a)) ->
             exists r, res_mapS g h1 xs = Ok r).
  { induction xs as [|x xs IHl]; intros h1 G1 F Hin; cbn; [eauto|].
    inversion F as [|? ? Fx Fl]; subst.
    assert (Gx: exists h1' y, g h1 x = Ok (h1', y) /\ gext h0 h1').
    { unfold g. destruct x; try (do 2 eexists; split; [reflexivity|exact G1]).
      cbn in Fx. assert (Lb: a0 < length h0) by (apply cont_lt; auto).
      rewrite (gext_old _ _ _ G1 Lb). unfold cont in Fx.
      destruct (nth_error h0 a0) as [[| |]|] eqn:E0; try discriminate.
      - destruct (Ch a0 (Hin _ (or_introl eq_refl))) as [_ Rb].
        destruct (IH h0 (a0 :: vis) a0 W Rb) with (h := h1) as [[hh aa] Ec]; auto.
        { unfold is_arr. rewrite E0. reflexivity. }
        rewrite Ec. cbn. do 2 eexists; split; [reflexivity|].
        eapply gext_trans; [exact G1|]. eapply copy_deep_gext; [apply G1|exact Ec].
      - do 2 eexists; split; [reflexivity|exact G1]. }
    destruct Gx as (h1' & y & -> & G1').
    destruct (IHl h1' G1' Fl) as [[h2 ys] ->]; [intros; apply Hin; right; auto|]. eauto. }
  destruct (S l h G Wl) as [r ->]; [intros b Hb; rewrite Hs; apply In_refs; auto|]. cbn. eauto.
Qed.

(* ------------------------------------------------------------------ evaluation of a literal *)
Lemma dict_set_vwf h es k ka v : Forall (fun e : tree * nat * value => vwf h (snd e)) es -> vwf h v ->
  Forall (fun e : tree * nat * value => vwf h (snd e)) (dict_set es k ka v).
Proof.
  intros F V. induction F as [|e es Fe Fes IH]; cbn; [constructor; auto|].
  destruct (teq k (ekey e)); constructor; auto.
Qed.
Lemma dict_del_vwf h es k : Forall (fun e : tree * nat * value => vwf h (snd e)) es ->
  Forall (fun e : tree * nat * value => vwf h (snd e)) (dict_del es k).
Proof. intros F. induction F as [|e es Fe Fes IH]; cbn; [constructor|]. destruct (teq k (ekey e)); auto. Qed.

Lemma Forall_mono_kinds h h' (es : list (tree * nat * value)) : kinds_le h h' ->
  Forall (fun e => vwf h (snd e)) es -> Forall (fun e => vwf h' (snd e)) es.
Proof. intros K F. eapply Forall_impl; [|exact F]. cbn. intros e. apply vwf_mono; auto. Qed.

Lemma gext_alloc_key h : hwf h -> gext h (h ++ [CKey]).
Proof. intros W. apply gext_alloc; auto. exact I. Qed.

Lemma thaw_gext : forall t h h' v, hwf h -> thaw h t = (h', v) -> gext h h' /\ vwf h' v.
Proof.
  fix IH 1. intros t h h' v W E. destruct t; cbn [thaw] in E;
    try (inversion E; subst; split; [apply gext_refl; auto|exact I]).
  - (* array *)
    match type of E with (let '(h1, vs) := ?go h l in _) = _ => set (go0 := go) in E end.
    assert (S: forall xs h0 h1 vs, hwf h0 -> go0 h0 xs = (h1, vs) -> gext h0 h1 /\ Forall (vwf h1) vs).
    { induction xs as [|x xs IHl]; intros h0 h1 vs W0 R; cbn in R.
      - inversion R; subst. split; [apply gext_refl; auto|constructor].
      - destruct (thaw h0 x) as [ha va] eqn:Ex. destruct (go0 ha xs) as [hb vb] eqn:Er. inversion R; subst h1 vs.
        destruct (IH x h0 ha va W0 Ex) as [Ga Va].
        destruct (IHl ha hb vb (proj1 (proj2 Ga)) Er) as [Gb Vb].
        split; [eapply gext_trans; eauto|]. constructor; auto. eapply vwf_mono; [apply gext_kinds; exact Gb|exact Va]. }
    destruct (go0 h l) as [h1 vs] eqn:Er. inversion E; subst h' v.
    destruct (S l h h1 vs W Er) as [G1 Vs]. split.
    + eapply gext_trans; [exact G1|]. apply gext_alloc; [apply G1|exact Vs].
    + cbn. unfold cont. rewrite nth_error_app2 by lia. rewrite Nat.sub_diag. reflexivity.
  - (* map *)
    match type of E with (let '(h1, es') := ?go h es [] in _) = _ => set (go0 := go) in E end.
    assert (S: forall xs h0 acc h1 es', hwf h0 -> Forall (fun e : tree * nat * value => vwf h0 (snd e)) acc ->
               go0 h0 xs acc = (h1, es') -> gext h0 h1 /\ Forall (fun e : tree * nat * value => vwf h1 (snd e)) es').
    { induction xs as [|x xs IHl]; intros h0 acc h1 es' W0 Fa R; cbn in R.
      - inversion R; subst. split; [apply gext_refl; auto|exact Fa].
      - destruct (thaw h0 (snd x)) as [ha va] eqn:Ex.
        destruct (IH (snd x) h0 ha va W0 Ex) as [Ga Va].
        assert (Gk: gext ha (ha ++ [CKey])) by (apply gext_alloc_key; apply Ga).
        destruct (IHl (ha ++ [CKey]) (dict_set acc (fst x) (length ha) va) h1 es') as [Gb Vb]; auto.
        { apply Gk. }
        { apply dict_set_vwf.
          - eapply Forall_mono_kinds; [|exact Fa]. eapply kinds_le_trans; apply gext_kinds; eauto.
          - eapply vwf_mono; [apply gext_kinds; exact Gk|exact Va]. }
        split; auto. eapply gext_trans; [exact Ga|]. eapply gext_trans; eauto. }
    destruct (go0 h es []) as [h1 es'] eqn:Er. inversion E; subst h' v.
    destruct (S es h [] h1 es' W (Forall_nil _) Er) as [G1 Vs]. split.
    + eapply gext_trans; [exact G1|]. apply gext_alloc; [apply G1|exact Vs].
    + cbn. unfold cont. rewrite nth_error_app2 by lia. rewrite Nat.sub_diag. reflexivity.
Qed.

(* ------------------------------------------------------------------ invariants of the primitive state changes *)
Definition sub_vals (l' l : list value) : Prop := forall x, In x l' -> In x l \/ x = VNil.

Lemma sub_vals_refs l' l : sub_vals l' l -> incl (refs l') (refs l).
Proof. intros S a H. apply In_refs in H. apply In_refs. destruct (S _ H) as [?|?]; [auto|discriminate]. Qed.
Lemma sub_vals_vwf h l' l : sub_vals l' l -> Forall (vwf h) l -> Forall (vwf h) l'.
Proof.
  intros S F. apply Forall_forall. intros x Hx. destruct (S _ Hx) as [Hin| ->]; [|exact I].
  eapply Forall_forall in F; eauto.
Qed.
Lemma sub_vals_refl l : sub_vals l l. Proof. intros x; auto. Qed.
Lemma In_firstn_my {A} n (l : list A) x : In x (firstn n l) -> In x l.
Proof. revert n; induction l; destruct n; cbn; intros H; try contradiction. destruct H; [left|right]; eauto. Qed.
Lemma In_skipn_my {A} n (l : list A) x : In x (skipn n l) -> In x l.
Proof. revert n; induction l; destruct n; cbn; intros H; try contradiction; auto. right; eauto. Qed.
Lemma sub_vals_cut l n m : sub_vals (firstn n l ++ skipn m l) l.
Proof. intros x H. apply in_app_or in H. left. destruct H; [eapply In_firstn_my|eapply In_skipn_my]; eauto. Qed.
Lemma sub_vals_resize l n : sub_vals (resize_list l n) l.
Proof.
  intros x H. unfold resize_list in H. destruct (Z.leb n (zlen l)).
  - left. eapply In_firstn_my; eauto.
  - apply in_app_or in H. destruct H as [?|H]; [left; auto|right]. apply repeat_spec in H. auto.
Qed.
Lemma In_ins_by {A} (le : A -> A -> bool) x y l : In y (ins_by le x l) <-> y = x \/ In y l.
Proof.
  induction l as [|z l IH]; cbn; [intuition|]. destruct (le x z); cbn; [intuition|]. rewrite IH. intuition.
Qed.
Lemma In_sort_by {A} (le : A -> A -> bool) l y : In y (sort_by le l) <-> In y l.
Proof.
  unfold sort_by. induction l as [|x l IH]; cbn; [intuition|]. rewrite In_ins_by, IH. intuition.
Qed.

Definition Good (o : outcome) : Prop := Inv (o_state o) /\ vwf (st_heap (o_state o)) (o_result o).

Lemma Inv_gext st h' : Inv st -> gext (st_heap st) h' -> Inv {| st_heap := h'; st_vars := st_vars st |}.
Proof.
  intros [[W V] A] G. split; [split|]; cbn.
  - apply G.
  - eapply Forall_impl; [|exact V]. intros v. apply vwf_mono. apply gext_kinds; auto.
  - eapply gext_acyclic; eauto.
Qed.

Lemma swf_upd st a c c' : swf st -> nth_error (st_heap st) a = Some c -> same_kind c c' -> cwf (st_heap st) c' -> swf (upd st a c').
Proof.
  intros [W V] E S C. split; cbn.
  - eapply hwf_set_nth; eauto.
  - eapply Forall_impl; [|exact V]. intros v. apply vwf_mono. eapply kinds_le_set_nth; eauto.
Qed.

Lemma Inv_upd_shrink st a c c' : Inv st -> nth_error (st_heap st) a = Some c -> same_kind c c' ->
  cwf (st_heap st) c' -> incl (cell_refs c') (cell_refs c) -> Inv (upd st a c').
Proof.
  intros [S A] E K C I. split; [eapply swf_upd; eauto|]. cbn. unfold HAcyclic in *.
  eapply acyclic_mono; [|exact A]. intros b. destruct (Nat.eq_dec a b) as [<-|Hne].
  - rewrite succs_set_nth_eq by (apply nth_error_Some; congruence). rewrite (succs_nth _ _ _ E). exact I.
  - rewrite succs_set_nth_neq by auto. apply incl_refl.
Qed.

(* the tested insertion: whatever the recursion test answers, the heap stays acyclic *)
Lemma Inv_upd_tested st a c c' : Inv st -> nth_error (st_heap st) a = Some c -> same_kind c c' ->
  cwf (st_heap st) c' ->
  rec_test repaired (st_heap (upd st a c')) a = Some true -> Inv (upd st a c').
Proof.
  intros [S A] E K C T. split; [eapply swf_upd; eauto|]. cbn. unfold HAcyclic in *.
  unfold rec_test in T. cbn [d_rt_arrays_only repaired upd st_heap] in T.
  eapply (acyclic_surgery (succs (st_heap st)) _ a); eauto.
  - intros b Hne. apply succs_set_nth_neq. auto.
  - eapply rt_true_no_cycle. exact T.
Qed.

Lemma commit_arr_good st a l l' lfail okres : Inv st -> nth_error (st_heap st) a = Some (CArr l) ->
  Forall (vwf (st_heap st)) l' -> sub_vals lfail l -> (forall b, okres <> VRef b) ->
  Good (commit_arr repaired st a l' lfail okres).
Proof.
  intros Hi E F S R. unfold commit_arr.
  destruct (rec_test repaired (st_heap (upd st a (CArr l'))) a) as [[|]|] eqn:T; unfold Good; cbn [o_state o_result mk].
  - split; [eapply Inv_upd_tested; [exact Hi|exact E|exact I|exact F|exact T]|].
    destruct okres; try exact I. exfalso; eapply R; eauto.
  - split; [|exact I]. eapply Inv_upd_shrink; [exact Hi|exact E|exact I| |].
    + cbn. eapply sub_vals_vwf; eauto. exact (hwf_nth _ _ _ (proj1 (proj1 Hi)) E).
    + cbn. apply sub_vals_refs; auto.
  - split; [exact Hi|exact I].
Qed.

Lemma map_snd_refs_incl (es' es : list (tree * nat * value)) :
  (forall e, In e es' -> exists e0, In e0 es /\ snd e0 = snd e) -> incl (refs (map snd es')) (refs (map snd es)).
Proof.
  intros H a Ha. apply In_refs in Ha. apply In_refs. apply in_map_iff in Ha. destruct Ha as (e & He & Hin).
  destruct (H e Hin) as (e0 & Hin0 & Hs). apply in_map_iff. exists e0. split; [congruence|auto].
Qed.
Lemma dict_del_sub es k : forall e, In e (dict_del es k) -> In e es.
Proof. induction es as [|x es IH]; cbn; [tauto|]. destruct (teq k (ekey x)); cbn; intuition. Qed.

Lemma commit_map_good st a es es' : Inv st -> nth_error (st_heap st) a = Some (CMap es) ->
  Forall (fun e : tree * nat * value => vwf (st_heap st) (snd e)) es' ->
  Good (commit_map repaired st a es' es).
Proof.
  intros Hi E F. unfold commit_map. cbn [d_hset_untested repaired].
  destruct (rec_test repaired (st_heap (upd st a (CMap es'))) a) as [[|]|] eqn:T; unfold Good; cbn [o_state o_result mk].
  - split; [eapply Inv_upd_tested; [exact Hi|exact E|exact I|exact F|exact T]|exact I].
  - split; [|exact I]. eapply Inv_upd_shrink; [exact Hi|exact E|exact I| |].
    + exact (hwf_nth _ _ _ (proj1 (proj1 Hi)) E).
    + apply incl_refl.
  - split; [exact Hi|exact I].
Qed.

Lemma alloc_good st c : Inv st -> cwf (st_heap st) c -> (c <> CKey) ->
  Inv (fst (alloc st c)) /\ vwf (st_heap (fst (alloc st c))) (snd (alloc st c)) /\
  gext (st_heap st) (st_heap (fst (alloc st c))).
Proof.
  intros Hi C N. unfold alloc. cbn [fst snd st_heap].
  assert (G: gext (st_heap st) (st_heap st ++ [c])) by (apply gext_alloc; [apply Hi|auto]).
  split; [apply (Inv_gext st _ Hi G)|]. split; auto.
  cbn. unfold cont. rewrite nth_error_app2 by lia. rewrite Nat.sub_diag. cbn. destruct c; auto; congruence.
Qed.

Lemma setvar_good st n v st' : Inv st -> vwf (st_heap st) v -> setvar st n v = Some st' -> Inv st'.
Proof.
  intros [[W V] A] Vv E. unfold setvar in E. destruct (Nat.ltb n (length (st_vars st))); [|discriminate].
  inversion E; subst. split; [split|]; cbn; auto. apply Forall_set_nth; auto.
Qed.

Lemma arr_of_nth st v a l : arr_of st v = Some (a, l) -> v = VRef a /\ nth_error (st_heap st) a = Some (CArr l).
Proof.
  unfold arr_of. destruct v; try discriminate. destruct (nth_error (st_heap st) a0) as [[| |]|] eqn:E; try discriminate.
  intros H; inversion H; subst; auto.
Qed.
Lemma map_of_nth st v a es : map_of st v = Some (a, es) -> v = VRef a /\ nth_error (st_heap st) a = Some (CMap es).
Proof.
  unfold map_of. destruct v; try discriminate. destruct (nth_error (st_heap st) a0) as [[| |]|] eqn:E; try discriminate.
  intros H; inversion H; subst; auto.
Qed.

Lemma eval_opnd_good st x st1 v : Inv st -> eval_opnd st x = Some (st1, v) ->
  Inv st1 /\ vwf (st_heap st1) v /\ gext (st_heap st) (st_heap st1) /\ st_vars st1 = st_vars st.
Proof.
  intros Hi E. destruct x; cbn in E.
  - destruct (nth_error (st_vars st) n) as [w|] eqn:En; [|discriminate].
    assert (Vw: vwf (st_heap st) w).
    { destruct Hi as [[_ V] _]. eapply Forall_forall in V; [exact V|]. eapply nth_error_In; eauto. }
    destruct w; inversion E; subst; (split; [exact Hi|]); (split; [exact Vw|]); (split; [apply gext_refl; apply Hi|reflexivity]).
  - destruct (thaw (st_heap st) t) as [h w] eqn:Et.
    destruct (vnil w || negb (lit_ok t)); [discriminate|]. inversion E; subst.
    destruct (thaw_gext _ _ _ _ (proj1 (proj1 Hi)) Et) as [G Vw].
    split; [apply Inv_gext; auto|]. auto.
  - destruct (nth_error (st_vars st) n) as [[| | | | |a]|] eqn:En; try discriminate.
    destruct (nth_error (st_heap st) a) as [[l| |]|] eqn:Ea; try discriminate.
    destruct (znth l i) as [w|] eqn:Ez; [|discriminate].
    assert (Vw: vwf (st_heap st) w).
    { pose proof (hwf_nth _ _ _ (proj1 (proj1 Hi)) Ea) as Wl. cbn in Wl.
      eapply Forall_forall in Wl; [exact Wl|]. unfold znth in Ez. destruct (Z.ltb i 0); [discriminate|].
      eapply nth_error_In; eauto. }
    destruct w; inversion E; subst; (split; [exact Hi|]); (split; [exact Vw|]); (split; [apply gext_refl; apply Hi|reflexivity]).
  - destruct (nth_error (st_vars st) n) as [w|] eqn:En; [|discriminate].
    assert (Vw: vwf (st_heap st) w).
    { destruct Hi as [[_ V] _]. eapply Forall_forall in V; [exact V|]. eapply nth_error_In; eauto. }
    assert (G: gext (st_heap st) (st_heap st ++ [CArr [w]])).
    { apply gext_alloc; [apply Hi|]. cbn. constructor; auto. }
    assert (R: Inv {| st_heap := st_heap st ++ [CArr [w]]; st_vars := st_vars st |} /\
               vwf (st_heap st ++ [CArr [w]]) (VRef (length (st_heap st)))).
    { split; [apply (Inv_gext st _ Hi G)|]. cbn. unfold cont. rewrite nth_error_app2 by lia. rewrite Nat.sub_diag. reflexivity. }
    destruct w; inversion E; subst; (split; [apply R|]); (split; [apply R|]); (split; [exact G|reflexivity]).
Qed.
