(* C08: on a well-formed acyclic heap the recursion test says yes and printing, comparing
   and deep-copying end within |heap|+2 levels of fuel. *)
From Coq Require Import ZArith List ListDec Arith Lia Bool.
From SqfVerif Require Import Data.DataDefs Data.DataGraph Data.DataHeap Data.DataStep.
Import ListNotations.

Lemma acyclic_test_yes h a : HAcyclic h -> rt (succs h) (fuel_of h) [] a = Some true.
Proof. intros A. unfold fuel_of. apply rt_acyclic_yes; auto. intros r Hr. apply succs_out; auto. Qed.

Theorem print_terminates : forall st v, Inv st -> vwf (st_heap st) v -> exists t, observe st v = Ok t.
Proof.
  intros st v [[W _] A] V. unfold observe. destruct v; try (apply freeze_leaf; intros; discriminate).
  eapply rt_yes_freeze; eauto. apply acyclic_test_yes; auto.
Qed.

Theorem compare_terminates : forall st v w, Inv st -> vwf (st_heap st) v -> vwf (st_heap st) w ->
  exists b, veq (fuel_of (st_heap st)) (st_heap st) v w = Ok b.
Proof.
  intros st v w [[W _] A] V V'. unfold veq. destruct (vnil v); eauto. destruct (vnil w); eauto.
  destruct v; try (apply deq_leaf_l; intros; discriminate).
  eapply rt_yes_deq; eauto. apply acyclic_test_yes; auto.
Qed.

Theorem copy_terminates : forall st a, Inv st -> is_arr (st_heap st) a = true ->
  exists r, copy_deep (fuel_of (st_heap st)) (st_heap st) a = Ok r.
Proof.
  intros st a [[W _] A] Ia. eapply rt_yes_copy; eauto; [apply acyclic_test_yes; auto|apply gext_refl; auto].
Qed.

(* the histories of the repaired model never leave the invariant *)
Lemma init_inv n : Inv (init_state n).
Proof.
  split; [split|]; cbn.
  - constructor.
  - apply Forall_forall. intros x H. apply repeat_spec in H. subst. exact I.
  - intros a C. inversion C as [? ? He|? ? ? He _]; unfold edge, succs in He; destruct a; cbn in He; contradiction.
Qed.

Lemma run_inv : forall os st, Inv st -> Inv (run repaired st os).
Proof.
  induction os as [|o os IH]; intros st Hi; cbn; auto.
  pose proof (step_good st o Hi) as [G _].
  destruct (o_status (step repaired st o)); auto.
Qed.

(* hence no operation of a history ever reports a diverging walk or a dangling reference *)
Theorem history_safe : forall n os v, let st := run repaired (init_state n) os in
  vwf (st_heap st) v -> exists t, observe st v = Ok t.
Proof. intros n os v st V. apply print_terminates; auto. apply run_inv, init_inv. Qed.
