(* C08: `table sort flag` on the heap - the table keeps its cell, the references to the row cells are
   permuted (no copies), nothing else changes; so every name of the table and every name of a row
   observes the result. *)
From Coq Require Import ZArith List Arith Lia Bool Permutation Sorted.
From SqfVerif Require Import Data.DataDefs Data.DataGraph Data.DataHeap Data.DataSort Data.DataStep.
Import ListNotations.

Lemma StronglySorted_impl_In {A} (R R' : A -> A -> Prop) (l : list A) :
  (forall x y, In x l -> In y l -> R x y -> R' x y) -> StronglySorted R l -> StronglySorted R' l.
Proof.
  intros H S. induction S as [|a t S IH Ha]; constructor.
  - apply IH. intros x y Hx Hy. apply H; right; auto.
  - apply Forall_forall. intros y Hy. apply H; [left; auto|right; auto|]. eapply Forall_forall in Ha; eauto.
Qed.

(* a row of the table is never the table itself *)
Lemma table_not_own_row st a l : Inv st -> nth_error (st_heap st) a = Some (CArr l) -> ~ In (VRef a) l.
Proof.
  intros [_ Ac] E Hin. apply (Ac a). constructor. unfold edge, succs. rewrite E. apply In_refs. exact Hin.
Qed.

Lemma row_of_set_nth h a c v : (forall r, v = VRef r -> r <> a) -> row_of (set_nth h a c) v = row_of h v.
Proof.
  intros H. destruct v; cbn; auto. rewrite nth_error_set_nth_neq; auto. intros ->. eapply H; eauto.
Qed.
Lemma vrow_ltb_set_nth h a c asc x y : (forall r, x = VRef r -> r <> a) -> (forall r, y = VRef r -> r <> a) ->
  vrow_ltb (set_nth h a c) asc x y = vrow_ltb h asc x y.
Proof. intros Hx Hy. unfold vrow_ltb, vrow_lt. rewrite !row_of_set_nth; auto. Qed.

Theorem sort_table_step : forall d st n asc a l l',
  Inv st -> nth_error (st_vars st) n = Some (VRef a) -> nth_error (st_heap st) a = Some (CArr l) -> 1 < length l ->
  sort_table (st_heap st) asc l = Ok (TSorted l') ->
  let o := step d st (OpSort (OVar n) asc) in
  let h' := st_heap (o_state o) in
  (* the operator ran, without diagnostics, and no variable was rebound *)
  o_status o = Done /\ o_diags o = [] /\ st_vars (o_state o) = st_vars st /\
  (* the heap is still well formed and acyclic, no cell was added *)
  Inv (o_state o) /\ length h' = length (st_heap st) /\
  (* the table is the same cell; every other cell is as it was *)
  nth_error h' a = Some (CArr l') /\
  (forall b, b <> a -> nth_error h' b = nth_error (st_heap st) b) /\
  (* its content: the old element values - references to the row cells - in another order, sorted by the comparator,
     and the only such arrangement *)
  Permutation l l' /\
  StronglySorted (fun x y => vrow_ltb h' asc y x = false) l' /\
  (forall l2, Permutation l l2 -> StronglySorted (fun x y => vrow_ltb h' asc y x = false) l2 -> l2 = l') /\
  (* a name of a row still refers to a cell that is an element of the table, and that cell is as it was *)
  (forall r, In (VRef r) l -> r <> a /\ In (VRef r) l' /\ nth_error h' r = nth_error (st_heap st) r).
Proof.
  intros d st n asc a l l' Hi En Ea Hlen Hs o h'.
  destruct (sort_table_inv _ _ _ _ Hs) as (r0 & tl & row0 & rows & types & El & _).
  assert (Eo: o = mk Done (upd st a (CArr l')) [] VNil).
  { unfold o. cbn [step]. unfold with1. cbn [eval_opnd]. rewrite En. unfold arr_of. rewrite Ea.
    destruct (Nat.leb (length l) 1) eqn:L; [apply Nat.leb_le in L; lia|].
    assert (Sn: sortable_nums l = false) by (rewrite El; reflexivity).
    assert (Ss: sortable_strs l = false) by (rewrite El; reflexivity).
    rewrite Sn, Ss, Hs. reflexivity. }
  assert (Eh: h' = set_nth (st_heap st) a (CArr l')) by (unfold h'; rewrite Eo; reflexivity).
  destruct (sort_table_sorted_perm _ _ _ _ Hs) as [P S].
  pose proof (table_not_own_row _ _ _ Hi Ea) as Na.
  assert (La: a < length (st_heap st)) by (apply nth_error_Some; congruence).
  assert (Nr: forall x, In x l -> forall r, x = VRef r -> r <> a).
  { intros x Hx r -> ->. apply Na; auto. }
  assert (Nr': forall x, In x l' -> forall r, x = VRef r -> r <> a).
  { intros x Hx. apply Nr. eapply Permutation_in; [apply Permutation_sym; exact P|exact Hx]. }
  rewrite Eo. cbn [o_status o_diags o_state mk upd st_vars st_heap]. fold (upd st a (CArr l')).
  split; [reflexivity|]. split; [reflexivity|]. split; [reflexivity|].
  split.
  { eapply Inv_upd_shrink; [exact Hi|exact Ea|exact I| |].
    - cbn. pose proof (hwf_nth _ _ _ (proj1 (proj1 Hi)) Ea) as W. cbn in W.
      apply Forall_forall. intros x Hx. eapply Forall_forall in W; [exact W|].
      eapply Permutation_in; [apply Permutation_sym; exact P|exact Hx].
    - cbn. intros b Hb. apply In_refs in Hb. apply In_refs.
      eapply Permutation_in; [apply Permutation_sym; exact P|exact Hb]. }
  rewrite Eh. split; [apply length_set_nth|]. split; [apply nth_error_set_nth_eq; auto|].
  split; [intros b Hb; apply nth_error_set_nth_neq; auto|]. split; [exact P|].
  split.
  { eapply StronglySorted_impl_In; [|exact S]. cbn beta. intros x y Hx Hy R.
    rewrite vrow_ltb_set_nth; [exact R|apply Nr'; assumption|apply Nr'; assumption]. }
  split.
  { intros l2 P2 S2. eapply sort_table_unique; eauto.
    eapply StronglySorted_impl_In; [|exact S2]. cbn beta. intros x y Hx Hy R.
    assert (I2: forall z, In z l2 -> In z l) by (intros z Hz; eapply Permutation_in; [apply Permutation_sym; exact P2|exact Hz]).
    rewrite vrow_ltb_set_nth in R; [exact R|apply Nr; auto|apply Nr; auto]. }
  intros r Hr. split; [eapply Nr; eauto|]. split; [eapply Permutation_in; eauto|].
  apply nth_error_set_nth_neq. intros E. eapply Nr; eauto.
Qed.

(* when the type checks of ops_generic.cpp:753-767 refuse the table nothing changes at all *)
Theorem sort_table_refused_step : forall d st n asc a l ds,
  nth_error (st_vars st) n = Some (VRef a) -> nth_error (st_heap st) a = Some (CArr l) -> 1 < length l ->
  sort_table (st_heap st) asc l = Ok (TRefused ds) ->
  step d st (OpSort (OVar n) asc) = mk Done st ds VNil /\ ds <> [] /\
  forall x, In x ds -> x = DExpectedArrayTypeMissmatch \/ x = DExpectedArraySizeMissmatch.
Proof.
  intros d st n asc a l ds En Ea Hlen Hs.
  assert (El: exists r0 tl, l = VRef r0 :: tl).
  { unfold sort_table in Hs. destruct l as [|[| | | | |r0] tl]; try discriminate; eauto. }
  destruct El as (r0 & tl & El).
  split; [|split; [|eapply sort_table_refused_diags; eauto]].
  - cbn [step]. unfold with1. cbn [eval_opnd]. rewrite En. unfold arr_of. rewrite Ea.
    destruct (Nat.leb (length l) 1) eqn:L; [apply Nat.leb_le in L; lia|].
    assert (Sn: sortable_nums l = false) by (rewrite El; reflexivity).
    assert (Ss: sortable_strs l = false) by (rewrite El; reflexivity).
    rewrite Sn, Ss, Hs. reflexivity.
  - intros ->. revert Hs. unfold sort_table. rewrite El.
    destruct (nth_error (st_heap st) r0) as [[row0| |]|]; try discriminate.
    destruct (res_map (vtag_of (st_heap st)) (VRef r0 :: tl)) as [tags| |]; try discriminate. cbn [rbind].
    destruct (length (filter (fun g => negb (tag_eqb g GArr)) tags)) as [|k] eqn:Ek; cbn [Nat.eqb negb repeat]; [|discriminate].
    destruct (res_map _ (VRef r0 :: tl)) as [rows| |]; try discriminate. cbn [rbind].
    destruct (res_map (vtag_of (st_heap st)) row0) as [types| |]; try discriminate. cbn [rbind].
    destruct (check_rows (st_heap st) types rows) as [[|d0 ds0]| |]; try discriminate; cbn [rbind].
    destruct (negb _); [discriminate|]. destruct (negb _); discriminate.
Qed.
