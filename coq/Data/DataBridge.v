(* C07: the comparison the operators run on the heap (deq / veq of DataDefs.v, with the pointer
   short-cut of data::equals) is the comparison of the resolved values (tdeq / teq, for which
   the laws are proved in DataTree.v) - on values without nil and without HashMaps inside. *)
From Coq Require Import ZArith List Bool Arith Lia.
From SqfVerif Require Import Data.DataDefs Data.DataTree.
Import ListNotations.

Fixpoint map_free (t : tree) : bool :=
  match t with
  | TArr l => forallb map_free l
  | TMap _ => false
  | _ => true
  end.

Lemma res_map_inv {A B} (g : A -> res B) l ys : res_map g l = Ok ys -> Forall2 (fun x y => g x = Ok y) l ys.
Proof.
  revert ys; induction l as [|x l IH]; intros ys H; cbn in H.
  - inversion H; constructor.
  - destruct (g x) as [y| |] eqn:E; try discriminate. destruct (res_map g l) as [ys'| |] eqn:E'; try discriminate.
    inversion H; subst. constructor; auto.
Qed.

Lemma Forall2_len {A B} (P : A -> B -> Prop) l1 l2 : Forall2 P l1 l2 -> length l1 = length l2.
Proof. induction 1; cbn; auto. Qed.

Lemma freeze_vnil f h v t : freeze f h v = Ok t -> tnil t = vnil v.
Proof.
  destruct v; destruct f; cbn; intros H; try (inversion H; reflexivity); try discriminate.
  destruct (nth_error h a) as [[l|es|]|]; try discriminate.
  - destruct (res_map (freeze f h) l); cbn in H; inversion H; reflexivity.
  - destruct (res_map _ es); cbn in H; inversion H; reflexivity.
Qed.

Lemma freeze_arr_inv f h p t : freeze f h (VRef p) = Ok t ->
  exists f0, f = S f0 /\
    ((exists l ts, nth_error h p = Some (CArr l) /\ res_map (freeze f0 h) l = Ok ts /\ t = TArr ts) \/
     (exists es es', nth_error h p = Some (CMap es) /\ t = TMap es')).
Proof.
  destruct f as [|f0]; cbn; [discriminate|]. intros H. exists f0. split; auto.
  destruct (nth_error h p) as [[l|es|]|]; try discriminate.
  - left. destruct (res_map (freeze f0 h) l) as [ts| |] eqn:E; cbn in H; try discriminate. inversion H. eauto.
  - right. destruct (res_map _ es) as [ts| |] eqn:E; cbn in H; try discriminate. inversion H. eauto.
Qed.

(* the same fuel is not needed: freezing is deterministic in the fuel *)
Lemma freeze_mono : forall f h v t, freeze f h v = Ok t -> forall f', f <= f' -> freeze f' h v = Ok t.
Proof.
  induction f as [|f IH]; intros h v t H f' L.
  - destruct v; cbn in H; try discriminate; destruct f'; cbn; auto.
  - destruct v; try (destruct f'; cbn in *; auto; fail).
    destruct f' as [|f']; [lia|]. cbn [freeze] in *.
    destruct (nth_error h a) as [[l|es|]|]; try discriminate.
    + destruct (res_map (freeze f h) l) as [ts| |] eqn:E; cbn in H; try discriminate. inversion H; subst.
      assert (E': res_map (freeze f' h) l = Ok ts).
      { apply res_map_inv in E. clear H. induction E as [|x y l ts Exy F IHF]; cbn; auto.
        rewrite (IH _ _ _ Exy f') by lia. rewrite IHF. reflexivity. }
      rewrite E'. reflexivity.
    + destruct (res_map (fun e => rbind (freeze f h (snd e)) (fun t0 => Ok (ekey e, t0))) es) as [ts| |] eqn:E; cbn in H; try discriminate.
      inversion H; subst.
      assert (E': res_map (fun e => rbind (freeze f' h (snd e)) (fun t0 => Ok (ekey e, t0))) es = Ok ts).
      { apply res_map_inv in E. clear H. induction E as [|x y l ts Exy F IHF]; cbn; auto.
        destruct (freeze f h (snd x)) as [tx| |] eqn:Ex; cbn in Exy; try discriminate.
        rewrite (IH _ _ _ Ex f') by lia. cbn. inversion Exy; subst. rewrite IHF. reflexivity. }
      rewrite E'. reflexivity.
Qed.

Lemma freeze_fun f f' h v t t' : freeze f h v = Ok t -> freeze f' h v = Ok t' -> t = t'.
Proof.
  intros H H'. pose proof (freeze_mono _ _ _ _ H (max f f') (Nat.le_max_l _ _)).
  pose proof (freeze_mono _ _ _ _ H' (max f f') (Nat.le_max_r _ _)). congruence.
Qed.

Theorem deq_is_tdeq : forall g h a b r, deq g h a b = Ok r ->
  forall f f' ta tb, freeze f h a = Ok ta -> freeze f' h b = Ok tb ->
  nil_free_t ta = true -> map_free ta = true -> vnil a = false -> vnil b = false ->
  r = tdeq false ta tb.
Proof.
  induction g as [|g IH]; intros h a b r D f f' ta tb Fa Fb NF MF Na Nb.
  - (* no fuel: only leaves and pointer-equal containers answer *)
    destruct a as [| | | | |p]; try discriminate; destruct b as [| | | | |q]; try discriminate;
      try (destruct f, f'; cbn in Fa, Fb; inversion Fa; inversion Fb; subst; cbn in D; inversion D; reflexivity);
      try (destruct (freeze_arr_inv _ _ _ _ Fb) as (f0 & -> & [(l & ts & E & _ & ->)|(es & es' & E & ->)]);
           destruct f; cbn in Fa; inversion Fa; subst; cbn in D; inversion D; reflexivity);
      try (destruct (freeze_arr_inv _ _ _ _ Fa) as (f0 & -> & [(l & ts & E & _ & ->)|(es & es' & E & ->)]);
           destruct f'; cbn in Fb; inversion Fb; subst; cbn in D; inversion D; reflexivity).
    destruct (freeze_arr_inv _ _ _ _ Fa) as (f0 & -> & [(l & ts & E & R & ->)|(es & es' & E & ->)]); [|discriminate].
    destruct (freeze_arr_inv _ _ _ _ Fb) as (f1 & -> & [(l' & ts' & E' & R' & ->)|(es & es' & E' & ->)]).
    + cbn in D. rewrite E, E' in D. destruct (Nat.eqb_spec p q) as [->|Hne]; [|discriminate].
      inversion D; subst r. rewrite (freeze_fun _ _ _ _ _ _ Fa Fb). symmetry. apply tdeq_refl_nil_free.
      rewrite <- (freeze_fun _ _ _ _ _ _ Fa Fb). exact NF.
    + cbn in D. rewrite E, E' in D. inversion D. reflexivity.
  - destruct a as [| | | | |p]; try discriminate; destruct b as [| | | | |q]; try discriminate;
      try (destruct f, f'; cbn in Fa, Fb; inversion Fa; inversion Fb; subst; cbn in D; inversion D; reflexivity);
      try (destruct (freeze_arr_inv _ _ _ _ Fb) as (f0 & -> & [(l & ts & E & _ & ->)|(es & es' & E & ->)]);
           destruct f; cbn in Fa; inversion Fa; subst; cbn in D; inversion D; reflexivity);
      try (destruct (freeze_arr_inv _ _ _ _ Fa) as (f0 & -> & [(l & ts & E & _ & ->)|(es & es' & E & ->)]);
           destruct f'; cbn in Fb; inversion Fb; subst; cbn in D; inversion D; reflexivity).
    destruct (freeze_arr_inv _ _ _ _ Fa) as (f0 & -> & [(l & ts & E & R & ->)|(es & es' & E & ->)]); [|discriminate].
    destruct (freeze_arr_inv _ _ _ _ Fb) as (f1 & -> & [(l' & ts' & E' & R' & ->)|(es & es' & E' & ->)]).
    2:{ cbn [deq] in D. rewrite E, E' in D. inversion D. reflexivity. }
    cbn [deq] in D. rewrite E, E' in D. destruct (Nat.eqb_spec p q) as [->|Hne].
    { inversion D; subst r. rewrite (freeze_fun _ _ _ _ _ _ Fa Fb). symmetry. apply tdeq_refl_nil_free.
      rewrite <- (freeze_fun _ _ _ _ _ _ Fa Fb). exact NF. }
    rewrite tdeq_arr. apply res_map_inv in R. apply res_map_inv in R'.
    assert (Lts: length ts = length l) by (symmetry; eapply Forall2_len; eauto).
    assert (Lts': length ts' = length l') by (symmetry; eapply Forall2_len; eauto).
    destruct (Nat.eqb_spec (length l) (length l')) as [Hl|Hl]; cbn [negb] in D.
    2:{ inversion D. symmetry. clear - Lts Lts' Hl.
        assert (length ts <> length ts') by congruence. clear - H. revert ts' H.
        induction ts as [|x ts IHt]; destruct ts' as [|y ts']; cbn; intros; try congruence; auto.
        rewrite IHt by (cbn in H; congruence). apply andb_false_r. }
    cbn in NF, MF. rewrite forallb_forall in NF, MF.
    clear E E' Fa Fb Hne Lts Lts'. revert l' ts' R' Hl D.
    induction R as [|x tx l ts Fx R IHR]; intros l' ts' R' Hl D; destruct R' as [|y ty l' ts' Fy R']; try discriminate.
    + cbn in D. inversion D. reflexivity.
    + cbn [combine res_all fst snd] in D. cbn [forall2b].
      unfold slot_eq at 1. rewrite (freeze_vnil _ _ _ _ Fx), (freeze_vnil _ _ _ _ Fy).
      assert (Nx: vnil x = false).
      { rewrite <- (freeze_vnil _ _ _ _ Fx). apply nil_free_not_nil. apply NF. left; auto. }
      rewrite Nx in *. cbn [negb orb andb] in *.
      destruct (vnil y) eqn:Ny; cbn [negb andb].
      * inversion D. reflexivity.
      * destruct (deq g h x y) as [[|]| |] eqn:Dxy; try discriminate.
        -- rewrite <- (IH _ _ _ _ Dxy _ _ _ _ Fx Fy (NF _ (or_introl eq_refl)) (MF _ (or_introl eq_refl)) Nx Ny). cbn.
           eapply IHR; [intros; apply MF; right; auto|intros; apply NF; right; auto|exact R'|cbn in Hl; lia|exact D].
        -- inversion D. rewrite <- (IH _ _ _ _ Dxy _ _ _ _ Fx Fy (NF _ (or_introl eq_refl)) (MF _ (or_introl eq_refl)) Nx Ny). reflexivity.
Qed.

(* value::operator== on the heap is teq of the resolved values *)
Theorem veq_is_teq : forall g h a b r, veq g h a b = Ok r ->
  forall f f' ta tb, freeze f h a = Ok ta -> freeze f' h b = Ok tb ->
  nil_free_t ta = true -> map_free ta = true -> r = teq ta tb.
Proof.
  intros g h a b r V f f' ta tb Fa Fb NF MF. unfold veq in V. rewrite teq_alt.
  rewrite (freeze_vnil _ _ _ _ Fa), (freeze_vnil _ _ _ _ Fb).
  assert (Na: vnil a = false) by (rewrite <- (freeze_vnil _ _ _ _ Fa); apply nil_free_not_nil; auto).
  rewrite Na in *. destruct (vnil b) eqn:Nb; [inversion V; reflexivity|]. cbn.
  eapply deq_is_tdeq; eauto.
Qed.
Print Assumptions veq_is_teq.
