(* C08: sort of a table (DataDefs.sort_table) - the comparator of ops_generic.cpp:776-814 on rows of one
   shape is a strict weak ordering, the insertion sort of the model returns a sorted permutation, and on
   a table whose rows are pairwise ordered (or the same object) that sorted permutation is the only one:
   whatever algorithm std::sort uses, it returns this content. *)
From Coq Require Import ZArith List Arith Lia Bool Permutation Sorted.
From SqfVerif Require Import Data.DataDefs Data.DataGraph Data.DataHeap.
Import ListNotations.

(* ------------------------------------------------------------------ insertion sort *)
Section InsSort.
  Context {A : Type}.
  Variable le : A -> A -> bool.
  Variable D : A -> Prop.                      (* the elements the order is known on *)
  Hypothesis le_total : forall x y, D x -> D y -> le x y = false -> le y x = true.
  Hypothesis le_trans : forall x y z, D x -> D y -> D z -> le x y = true -> le y z = true -> le x z = true.

  Lemma ins_by_perm x l : Permutation (ins_by le x l) (x :: l).
  Proof.
    induction l as [|y l IH]; cbn; [apply Permutation_refl|]. destruct (le x y); [apply Permutation_refl|].
    eapply Permutation_trans; [apply perm_skip; exact IH|apply perm_swap].
  Qed.
  Lemma sort_by_perm l : Permutation (sort_by le l) l.
  Proof.
    unfold sort_by. induction l as [|x l IH]; cbn; [constructor|].
    eapply Permutation_trans; [apply ins_by_perm|]. constructor. exact IH.
  Qed.

  Lemma ins_by_sorted x l : D x -> Forall D l ->
    StronglySorted (fun a b => le a b = true) l -> StronglySorted (fun a b => le a b = true) (ins_by le x l).
  Proof.
    intros Dx F S. induction S as [|y l S IH Hy]; cbn; [repeat constructor|].
    inversion F as [|? ? Dy Fl]; subst.
    destruct (le x y) eqn:E.
    - constructor; [constructor; auto|]. constructor; auto.
      apply Forall_forall. intros z Hz. pose proof (proj1 (Forall_forall _ _) Hy z Hz) as Hyz.
      eapply le_trans; [| | |exact E|exact Hyz]; auto. eapply Forall_forall in Fl; eauto.
    - constructor; [apply IH; auto|].
      apply Forall_forall. intros z Hz. apply In_ins_by in Hz. destruct Hz as [->|Hz].
      + apply le_total; auto.
      + eapply Forall_forall in Hy; eauto.
  Qed.
  Lemma sort_by_sorted l : Forall D l -> StronglySorted (fun a b => le a b = true) (sort_by le l).
  Proof.
    unfold sort_by. induction l as [|x l IH]; intros F; cbn; [constructor|].
    inversion F as [|? ? Dx Fl]; subst. apply ins_by_sorted; [exact Dx| |apply IH; exact Fl].
    apply Forall_forall. intros y Hy. apply (proj1 (In_sort_by le l y)) in Hy.
    exact (proj1 (Forall_forall _ _) Fl y Hy).
  Qed.
End InsSort.

(* a sorted permutation is unique when elements that are not ordered either way are identical *)
Lemma sorted_perm_unique {A} (lt : A -> A -> bool) : forall l1 l2 : list A,
  Permutation l1 l2 ->
  StronglySorted (fun a b => lt b a = false) l1 -> StronglySorted (fun a b => lt b a = false) l2 ->
  (forall x y, In x l1 -> In y l1 -> lt x y = false -> lt y x = false -> x = y) ->
  l1 = l2.
Proof.
  induction l1 as [|x1 t1 IH]; intros l2 P S1 S2 U.
  - apply Permutation_nil in P. auto.
  - destruct l2 as [|x2 t2]; [apply Permutation_sym, Permutation_nil in P; discriminate|].
    inversion S1 as [|? ? S1' H1]; subst. inversion S2 as [|? ? S2' H2]; subst.
    assert (E: x1 = x2).
    { assert (I2: In x2 (x1 :: t1)) by (eapply Permutation_in; [apply Permutation_sym; exact P|left; auto]).
      assert (I1: In x1 (x2 :: t2)) by (eapply Permutation_in; [exact P|left; auto]).
      destruct I2 as [?|I2]; auto. destruct I1 as [?|I1]; auto.
      apply U; [left; auto|right; auto| |].
      - eapply Forall_forall in H2; eauto.
      - eapply Forall_forall in H1; eauto. }
    subst x2. f_equal. apply IH; auto.
    + eapply Permutation_cons_inv; eauto.
    + intros x y Hx Hy. apply U; right; auto.
Qed.

Lemma pairwise_spec {A} (R : A -> A -> bool) (l : list A) : (forall x y, R x y = R y x) -> pairwise R l = true ->
  forall x y, In x l -> In y l -> x = y \/ R x y = true.
Proof.
  intros Sy. induction l as [|z l IH]; intros P x y Hx Hy; [contradiction|].
  cbn in P. apply andb_prop in P. destruct P as [Pz Pl]. rewrite forallb_forall in Pz.
  destruct Hx as [->|Hx], Hy as [->|Hy]; auto.
  - right. rewrite Sy. auto.
Qed.

(* ------------------------------------------------------------------ the orders on strings and scalars *)
Lemma lex_le_total : forall a b, lex_le a b = false -> lex_le b a = true.
Proof.
  induction a as [|x a IH]; destruct b as [|y b]; cbn; intros H; try discriminate; auto.
  destruct (Z.ltb_spec x y); [discriminate|]. destruct (Z.ltb_spec y x); [reflexivity|]. auto.
Qed.
Lemma lex_le_trans : forall a b c, lex_le a b = true -> lex_le b c = true -> lex_le a c = true.
Proof.
  induction a as [|x a IH]; destruct b as [|y b], c as [|z c]; cbn; intros H1 H2; try discriminate; auto.
  destruct (Z.ltb_spec x y), (Z.ltb_spec y z), (Z.ltb_spec x z); try reflexivity; try lia;
    destruct (Z.ltb_spec y x), (Z.ltb_spec z y), (Z.ltb_spec z x); try discriminate; try lia; eauto.
Qed.

(* a strict weak ordering, as a pair of boolean facts *)
Definition asym {A} (lt : A -> A -> bool) : Prop := forall a b, lt a b = true -> lt b a = false.
Definition ntrans {A} (lt : A -> A -> bool) : Prop := forall a b c, lt a b = false -> lt b c = false -> lt a c = false.

Lemma str_lt_asym : asym str_lt.
Proof. intros a b. unfold str_lt. destruct (lex_le b a) eqn:E; [discriminate|]. intros _. rewrite (lex_le_total _ _ E). reflexivity. Qed.
Lemma str_lt_ntrans : ntrans str_lt.
Proof.
  intros a b c. unfold str_lt. destruct (lex_le b a) eqn:E1; [|discriminate]. destruct (lex_le c b) eqn:E2; [|discriminate].
  intros _ _. rewrite (lex_le_trans _ _ _ E2 E1). reflexivity.
Qed.
Lemma sc_lt_asym : asym sc_lt.
Proof.
  intros a b. unfold sc_lt. destruct (sc_rank a) as [a1 a2], (sc_rank b) as [b1 b2]. cbn [fst snd].
  destruct (Z.ltb_spec a1 b1), (Z.eqb_spec a1 b1), (Z.ltb_spec a2 b2), (Z.ltb_spec b1 a1), (Z.eqb_spec b1 a1), (Z.ltb_spec b2 a2);
    cbn; intros; try reflexivity; try discriminate; lia.
Qed.
Lemma sc_lt_ntrans : ntrans sc_lt.
Proof.
  intros a b c. unfold sc_lt. destruct (sc_rank a) as [a1 a2], (sc_rank b) as [b1 b2], (sc_rank c) as [c1 c2]. cbn [fst snd].
  destruct (Z.ltb_spec a1 b1), (Z.eqb_spec a1 b1), (Z.ltb_spec a2 b2); cbn; intros Qab; try discriminate;
    destruct (Z.ltb_spec b1 c1), (Z.eqb_spec b1 c1), (Z.ltb_spec b2 c2); cbn; intros Qbc; try discriminate;
    destruct (Z.ltb_spec a1 c1), (Z.eqb_spec a1 c1), (Z.ltb_spec a2 c2); cbn; try reflexivity; lia.
Qed.

(* three-way comparison out of a strict weak ordering *)
Section C3.
  Context {A : Type}.
  Variable lt : A -> A -> bool.
  Hypothesis As : asym lt.
  Hypothesis Nt : ntrans lt.
  Definition c3 (a b : A) : comparison := if lt a b then Lt else if lt b a then Gt else Eq.

  Lemma lt_irrefl a : lt a a = false.
  Proof. destruct (lt a a) eqn:E; auto. pose proof (As _ _ E). congruence. Qed.
  Lemma lt_trans a b c : lt a b = true -> lt b c = true -> lt a c = true.
  Proof.
    intros H1 H2. destruct (lt a c) eqn:E; auto.
    pose proof (Nt _ _ _ E (As _ _ H2)). congruence.
  Qed.
  Lemma c3_refl a : c3 a a = Eq.
  Proof. unfold c3. rewrite lt_irrefl. reflexivity. Qed.
  Lemma c3_opp a b : c3 b a = CompOpp (c3 a b).
  Proof.
    unfold c3. destruct (lt a b) eqn:E1, (lt b a) eqn:E2; cbn; auto. pose proof (As _ _ E1). congruence.
  Qed.
  (* the composition table: Eq is neutral, Lt.Lt = Lt, Gt.Gt = Gt *)
  Lemma c3_trans a b c : match c3 a b, c3 b c with
                         | Eq, x => c3 a c = x
                         | x, Eq => c3 a c = x
                         | Lt, Lt => c3 a c = Lt
                         | Gt, Gt => c3 a c = Gt
                         | _, _ => True
                         end.
  Proof.
    unfold c3.
    destruct (lt a b) eqn:Eab, (lt b a) eqn:Eba, (lt b c) eqn:Ebc, (lt c b) eqn:Ecb;
      try (pose proof (As _ _ Eab); congruence); try (pose proof (As _ _ Ebc); congruence); auto.
    - rewrite (lt_trans _ _ _ Eab Ebc). reflexivity.
    - (* a < b, b ~ c *)
      destruct (lt a c) eqn:Eac; auto. pose proof (Nt _ _ _ Eac Ecb). congruence.
    - (* b < a, c < b *)
      rewrite (lt_trans _ _ _ Ecb Eba). destruct (lt a c) eqn:Eac; auto.
      pose proof (As _ _ Eac). pose proof (lt_trans _ _ _ Ecb Eba). congruence.
    - (* b < a, b ~ c *)
      destruct (lt a c) eqn:Eac.
      + pose proof (Nt _ _ _ Ebc (As _ _ Eac)). congruence.
      + destruct (lt c a) eqn:Eca; auto. pose proof (Nt _ _ _ Ebc Eca). congruence.
    - (* a ~ b, b < c *)
      destruct (lt a c) eqn:Eac; auto. pose proof (Nt _ _ _ Eba Eac). congruence.
    - (* a ~ b, c < b *)
      destruct (lt a c) eqn:Eac.
      + pose proof (Nt _ _ _ (As _ _ Eac) Eab). congruence.
      + destruct (lt c a) eqn:Eca; auto. pose proof (Nt _ _ _ Eca Eab). congruence.
    - (* a ~ b ~ c *)
      rewrite (Nt _ _ _ Eab Ebc), (Nt _ _ _ Ecb Eba). reflexivity.
  Qed.
End C3.

(* ------------------------------------------------------------------ one position of two rows *)
Inductive skind := HStr | HNum | HSkip.
Definition kind_of (k : skey) : skind := match k with KStr _ => HStr | KNum _ => HNum | KSkip => HSkip end.
Definition shape (r : list skey) : list skind := map kind_of r.

(* on two elements of one kind k3 is defined and is a three-way comparison *)
Definition k3t (x y : skey) : comparison :=
  match x, y with
  | KStr s, KStr t => c3 str_lt s t
  | KNum s, KNum t => c3 sc_lt s t
  | _, _ => Eq
  end.
Lemma k3_same x y : kind_of x = kind_of y -> k3 x y = Some (k3t x y).
Proof. destruct x, y; cbn; intros H; try discriminate; reflexivity. Qed.
Lemma k3t_refl x : k3t x x = Eq.
Proof. destruct x; cbn; auto; apply c3_refl; [apply str_lt_asym|apply sc_lt_asym]. Qed.
Lemma k3t_opp x y : k3t y x = CompOpp (k3t x y).
Proof.
  destruct x, y; cbn; auto; apply c3_opp; [apply str_lt_asym|apply sc_lt_asym].
Qed.
Lemma k3t_trans x y z : kind_of x = kind_of y -> kind_of y = kind_of z ->
  match k3t x y, k3t y z with
  | Eq, c => k3t x z = c
  | c, Eq => k3t x z = c
  | Lt, Lt => k3t x z = Lt
  | Gt, Gt => k3t x z = Gt
  | _, _ => True
  end.
Proof.
  destruct x, y, z; cbn; intros H1 H2; try discriminate; auto.
  - apply c3_trans; [apply str_lt_asym|apply str_lt_ntrans].
  - apply c3_trans; [apply sc_lt_asym|apply sc_lt_ntrans].
Qed.

(* ------------------------------------------------------------------ the comparator on rows of one shape *)
Lemma row_lt_defined asc : forall a b, shape a = shape b -> exists r, row_lt asc a b = Some r.
Proof.
  induction a as [|x a IH]; destruct b as [|y b]; cbn; intros H; try discriminate; eauto.
  injection H as Hk Hs. rewrite (k3_same _ _ Hk). destruct (k3t x y); eauto.
Qed.
Lemma row_lt_irrefl asc : forall a, row_lt asc a a = Some false.
Proof. induction a as [|x a IH]; cbn; auto. rewrite (k3_same x x eq_refl), k3t_refl. exact IH. Qed.
Lemma row_lt_asym asc : forall a b, shape a = shape b -> row_lt asc a b = Some true -> row_lt asc b a = Some false.
Proof.
  induction a as [|x a IH]; destruct b as [|y b]; cbn; intros H; try discriminate.
  injection H as Hk Hs. rewrite (k3_same _ _ Hk), (k3_same y x (eq_sym Hk)), (k3t_opp x y).
  destruct (k3t x y); cbn; auto; destruct asc; cbn; intros E; try discriminate; auto.
Qed.
Lemma row_lt_ntrans asc : forall a b c, shape a = shape b -> shape b = shape c ->
  row_lt asc a b = Some false -> row_lt asc b c = Some false -> row_lt asc a c = Some false.
Proof.
  induction a as [|x a IH]; destruct b as [|y b], c as [|z c]; cbn; intros H1 H2; try discriminate; auto.
  injection H1 as Hk1 Hs1. injection H2 as Hk2 Hs2.
  rewrite (k3_same _ _ Hk1), (k3_same _ _ Hk2), (k3_same x z (eq_trans Hk1 Hk2)).
  pose proof (k3t_trans x y z Hk1 Hk2) as T.
  destruct (k3t x y), (k3t y z); try rewrite T; destruct asc; cbn; intros E1 E2; try discriminate; eauto.
Qed.

(* ------------------------------------------------------------------ inversion of sort_table *)
Definition row_res (h : list cell) (v : value) : res (list value) := match row_of h v with Some r => Ok r | None => UB end.
Definition all_defined (h : list cell) (asc : bool) (l : list value) : bool :=
  forallb (fun x => forallb (fun y => match vrow_lt h asc x y with Some _ => true | None => false end) l) l.
Definition pair_ordered (h : list cell) (asc : bool) (x y : value) : bool := vrow_ltb h asc x y || vrow_ltb h asc y x || veqb x y.
Definition table_le (h : list cell) (asc : bool) (x y : value) : bool := negb (vrow_ltb h asc y x).

Lemma sort_table_inv h asc l l' : sort_table h asc l = Ok (TSorted l') ->
  exists r0 tl row0 rows types,
    l = VRef r0 :: tl /\ nth_error h r0 = Some (CArr row0) /\
    res_map (row_res h) l = Ok rows /\ res_map (vtag_of h) row0 = Ok types /\ check_rows h types rows = Ok [] /\
    all_defined h asc l = true /\ pairwise (pair_ordered h asc) l = true /\ l' = sort_by (table_le h asc) l.
Proof.
  unfold sort_table. destruct l as [|[| | | | |r0] tl]; try discriminate.
  destruct (nth_error h r0) as [[row0| |]|] eqn:E0; try discriminate.
  destruct (res_map (vtag_of h) (VRef r0 :: tl)) as [tags| |]; try discriminate. cbn [rbind].
  match goal with |- (if ?c then _ else _) = _ -> _ => destruct c; [discriminate|] end.
  fold (row_res h). destruct (res_map (row_res h) (VRef r0 :: tl)) as [rows| |] eqn:Er; try discriminate. cbn [rbind].
  destruct (res_map (vtag_of h) row0) as [types| |] eqn:Et; try discriminate. cbn [rbind].
  destruct (check_rows h types rows) as [[|d ds]| |] eqn:Ec; try discriminate. cbn [rbind].
  fold (all_defined h asc (VRef r0 :: tl)). destruct (all_defined h asc (VRef r0 :: tl)) eqn:Ed; [|discriminate]. cbn [negb].
  fold (pair_ordered h asc). destruct (pairwise (pair_ordered h asc) (VRef r0 :: tl)) eqn:Ep; [|discriminate]. cbn [negb].
  intros H. inversion H. exists r0, tl, row0, rows, types. repeat split; auto.
Qed.

Lemma sort_table_refused_diags h asc l ds : sort_table h asc l = Ok (TRefused ds) ->
  forall d, In d ds -> d = DExpectedArrayTypeMissmatch \/ d = DExpectedArraySizeMissmatch.
Proof.
  unfold sort_table. destruct l as [|[| | | | |r0] tl]; try discriminate.
  destruct (nth_error h r0) as [[row0| |]|] eqn:E0; try discriminate.
  destruct (res_map (vtag_of h) (VRef r0 :: tl)) as [tags| |]; try discriminate. cbn [rbind].
  match goal with |- (if ?c then _ else _) = _ -> _ => destruct c end.
  { intros H; inversion H; subst. intros d Hd. apply repeat_spec in Hd. auto. }
  destruct (res_map _ (VRef r0 :: tl)) as [rows| |] eqn:Er; try discriminate. cbn [rbind].
  destruct (res_map (vtag_of h) row0) as [types| |] eqn:Et; try discriminate. cbn [rbind].
  destruct (check_rows h types rows) as [[|d0 ds0]| |] eqn:Ec; try discriminate; cbn [rbind].
  { destruct (negb _); [discriminate|]. destruct (negb _); discriminate. }
  intros H; inversion H; subst. clear H.
  revert Ec. generalize (d0 :: ds0) as out. clear. induction rows as [|r rows IH]; cbn; intros out E.
  - inversion E; subst. intros d [].
  - unfold check_row in E at 1. destruct (negb (Nat.eqb (length r) (length types))).
    + cbn in E. inversion E; subst. intros d [<-|[]]. auto.
    + destruct (res_map (vtag_of h) r) as [tags| |]; try discriminate. cbn [rbind] in E.
      destruct (repeat DExpectedArrayTypeMissmatch _) as [|x xs] eqn:Er; [apply IH; auto|].
      inversion E; subst. intros d Hd. rewrite <- Er in Hd. apply repeat_spec in Hd. auto.
Qed.

(* ------------------------------------------------------------------ what the type checks establish *)
Definition kind_of_tag (g : vtag) : skind := match g with GStr => HStr | GNum => HNum | _ => HSkip end.
Lemma vtag_kind h v g : vtag_of h v = Ok g -> kind_of (skey_of v) = kind_of_tag g.
Proof.
  destruct v; cbn; intros H; try (inversion H; subst; reflexivity).
  destruct (nth_error h a) as [[| |]|]; inversion H; subst; reflexivity.
Qed.
Lemma res_map_vtag_shape h : forall row tags, res_map (vtag_of h) row = Ok tags -> shape (map skey_of row) = map kind_of_tag tags.
Proof.
  induction row as [|v row IH]; cbn; intros tags H; [inversion H; reflexivity|].
  destruct (vtag_of h v) as [g| |] eqn:Eg; try discriminate.
  destruct (res_map (vtag_of h) row) as [gs| |]; try discriminate. inversion H; subst. cbn.
  f_equal; [eapply vtag_kind; eauto|apply IH; auto].
Qed.
Lemma combine_all_eq : forall tags types : list vtag, length tags = length types ->
  filter (fun p => negb (tag_eqb (fst p) (snd p))) (combine tags types) = [] -> tags = types.
Proof.
  induction tags as [|g tags IH]; destruct types as [|t types]; cbn; intros L F; try discriminate; auto.
  destruct (tag_eqb g t) eqn:E; cbn in F; [|discriminate]. f_equal; [destruct g, t; cbn in E; congruence|].
  apply IH; auto.
Qed.
Lemma res_map_length {A B} (g : A -> res B) : forall l ys, res_map g l = Ok ys -> length ys = length l.
Proof.
  induction l as [|x l IH]; cbn; intros ys H; [inversion H; reflexivity|].
  destruct (g x); try discriminate. destruct (res_map g l) as [zs| |]; try discriminate. inversion H; subst. cbn. f_equal. auto.
Qed.
Lemma check_row_ok h types row : check_row h types row = Ok [] -> shape (map skey_of row) = map kind_of_tag types.
Proof.
  unfold check_row. destruct (Nat.eqb (length row) (length types)) eqn:L; cbn [negb]; [|discriminate].
  apply Nat.eqb_eq in L.
  destruct (res_map (vtag_of h) row) as [tags| |] eqn:Et; try discriminate. cbn [rbind]. intros H.
  assert (F: filter (fun p => negb (tag_eqb (fst p) (snd p))) (combine tags types) = []).
  { destruct (filter _ _); auto. cbn in H. discriminate. }
  rewrite (res_map_vtag_shape _ _ _ Et). f_equal. apply combine_all_eq; auto.
  rewrite (res_map_length _ _ _ Et). auto.
Qed.
Lemma check_rows_ok h types : forall rows, check_rows h types rows = Ok [] ->
  Forall (fun row => shape (map skey_of row) = map kind_of_tag types) rows.
Proof.
  induction rows as [|r rows IH]; cbn; intros H; [constructor|].
  destruct (check_row h types r) as [[|d ds]| |] eqn:Ec; try discriminate; cbn [rbind] in H.
  constructor; [eapply check_row_ok; eauto|auto].
Qed.
Lemma res_map_rows h : forall l rows, res_map (row_res h) l = Ok rows ->
  forall v, In v l -> exists row, row_of h v = Some row /\ In row rows.
Proof.
  induction l as [|x l IH]; cbn; intros rows H v Hv; [contradiction|].
  unfold row_res at 1 in H. destruct (row_of h x) as [rx|] eqn:Ex; try discriminate.
  destruct (res_map (row_res h) l) as [rs| |]; try discriminate. inversion H; subst.
  destruct Hv as [->|Hv]; [exists rx; split; auto; left; auto|].
  destruct (IH rs eq_refl v Hv) as (row & E & Hin). exists row. split; auto. right; auto.
Qed.

(* every element of a table that passed the checks is a row of one common shape *)
Definition Shaped (h : list cell) (S : list skind) (v : value) : Prop :=
  exists row, row_of h v = Some row /\ shape (map skey_of row) = S.

Lemma sort_table_shaped h asc l l' : sort_table h asc l = Ok (TSorted l') -> exists S, Forall (Shaped h S) l.
Proof.
  intros H. destruct (sort_table_inv _ _ _ _ H) as (r0 & tl & row0 & rows & types & El & E0 & Er & Et & Ec & _).
  exists (map kind_of_tag types). apply Forall_forall. intros v Hv.
  destruct (res_map_rows _ _ _ Er v Hv) as (row & E & Hin). exists row. split; auto.
  pose proof (check_rows_ok _ _ _ Ec) as F. eapply Forall_forall in F; eauto.
Qed.

(* the comparator on shaped elements: defined, asymmetric, negatively transitive *)
Lemma vrow_lt_defined h asc S x y : Shaped h S x -> Shaped h S y -> exists b, vrow_lt h asc x y = Some b.
Proof.
  intros (rx & Ex & Sx) (ry & Ey & Sy). unfold vrow_lt. rewrite Ex, Ey. apply row_lt_defined. congruence.
Qed.
Lemma vrow_ltb_asym h asc S x y : Shaped h S x -> Shaped h S y -> vrow_ltb h asc x y = true -> vrow_ltb h asc y x = false.
Proof.
  intros (rx & Ex & Sx) (ry & Ey & Sy). unfold vrow_ltb, vrow_lt. rewrite Ex, Ey.
  destruct (row_lt asc (map skey_of rx) (map skey_of ry)) as [[|]|] eqn:E; try discriminate. intros _.
  rewrite (row_lt_asym asc _ _ (eq_trans Sx (eq_sym Sy)) E). reflexivity.
Qed.
Lemma vrow_ltb_ntrans h asc S x y z : Shaped h S x -> Shaped h S y -> Shaped h S z ->
  vrow_ltb h asc x y = false -> vrow_ltb h asc y z = false -> vrow_ltb h asc x z = false.
Proof.
  intros (rx & Ex & Sx) (ry & Ey & Sy) (rz & Ez & Sz). unfold vrow_ltb, vrow_lt. rewrite Ex, Ey, Ez.
  destruct (row_lt_defined asc (map skey_of rx) (map skey_of ry)) as [b1 E1]; [congruence|].
  destruct (row_lt_defined asc (map skey_of ry) (map skey_of rz)) as [b2 E2]; [congruence|].
  rewrite E1, E2. destruct b1, b2; try discriminate. intros _ _.
  rewrite (row_lt_ntrans asc _ _ _ (eq_trans Sx (eq_sym Sy)) (eq_trans Sy (eq_sym Sz)) E1 E2). reflexivity.
Qed.

(* ------------------------------------------------------------------ the result of sort_table *)
Theorem sort_table_sorted_perm h asc l l' : sort_table h asc l = Ok (TSorted l') ->
  Permutation l l' /\ StronglySorted (fun a b => vrow_ltb h asc b a = false) l'.
Proof.
  intros H. destruct (sort_table_shaped _ _ _ _ H) as [S F].
  destruct (sort_table_inv _ _ _ _ H) as (r0 & tl & row0 & rows & types & El & E0 & Er & Et & Ec & Ed & Ep & ->).
  split; [apply Permutation_sym, sort_by_perm|].
  assert (SS: StronglySorted (fun a b => table_le h asc a b = true) (sort_by (table_le h asc) l)).
  { apply (sort_by_sorted (table_le h asc) (Shaped h S)); auto.
    - intros x y Dx Dy. unfold table_le. destruct (vrow_ltb h asc y x) eqn:E; [|discriminate]. intros _.
      rewrite (vrow_ltb_asym _ _ _ _ _ Dy Dx E). reflexivity.
    - intros x y z Dx Dy Dz. unfold table_le.
      destruct (vrow_ltb h asc y x) eqn:E1; [discriminate|]. destruct (vrow_ltb h asc z y) eqn:E2; [discriminate|]. intros _ _.
      rewrite (vrow_ltb_ntrans _ _ _ _ _ _ Dz Dy Dx E2 E1). reflexivity. }
  clear -SS. induction SS as [|a t SS' IH Ha]; constructor; auto.
  eapply Forall_impl; [|exact Ha]. unfold table_le. intros b Hb. destruct (vrow_ltb h asc b a); [discriminate|reflexivity].
Qed.

Lemma veqb_eq x y : veqb x y = true -> x = y.
Proof. destruct x, y; cbn; try discriminate. intros H. apply Nat.eqb_eq in H. congruence. Qed.

(* every sorted permutation of the table is the model's: the answer does not depend on the algorithm of std::sort *)
Theorem sort_table_unique h asc l l' : sort_table h asc l = Ok (TSorted l') ->
  forall l2, Permutation l l2 -> StronglySorted (fun a b => vrow_ltb h asc b a = false) l2 -> l2 = l'.
Proof.
  intros H l2 P2 S2. destruct (sort_table_sorted_perm _ _ _ _ H) as [P1 S1].
  destruct (sort_table_inv _ _ _ _ H) as (r0 & tl & row0 & rows & types & El & E0 & Er & Et & Ec & Ed & Ep & _).
  symmetry. apply (sorted_perm_unique (vrow_ltb h asc)); auto.
  - eapply Permutation_trans; [apply Permutation_sym; exact P1|exact P2].
  - intros x y Hx Hy L1 L2.
    assert (Ix: In x l) by (eapply Permutation_in; [apply Permutation_sym; exact P1|exact Hx]).
    assert (Iy: In y l) by (eapply Permutation_in; [apply Permutation_sym; exact P1|exact Hy]).
    destruct (pairwise_spec (pair_ordered h asc) l) with (x := x) (y := y) as [?|R]; auto.
    + intros a b. unfold pair_ordered. rewrite (orb_comm (vrow_ltb h asc a b)). f_equal.
      destruct a, b; cbn; auto. apply Nat.eqb_sym.
    + unfold pair_ordered in R. rewrite L1, L2 in R. cbn in R. apply veqb_eq; auto.
Qed.

(* on a well-formed heap sort_table never runs into a dangling reference, and after the type checks the
   comparator never reads out of a row or out of a value of another type *)
Lemma vwf_vtag h v : vwf h v -> exists g, vtag_of h v = Ok g.
Proof.
  destruct v; cbn; eauto. unfold cont. destruct (nth_error h a) as [[| |]|]; try discriminate; eauto.
Qed.
Lemma res_map_vtag_ok h l : Forall (vwf h) l -> exists tags, res_map (vtag_of h) l = Ok tags.
Proof. intros F. apply res_map_ok. intros x Hx. apply vwf_vtag. eapply Forall_forall in F; eauto. Qed.

Lemma res_map_tags_arr h : forall l tags, res_map (vtag_of h) l = Ok tags ->
  filter (fun g => negb (tag_eqb g GArr)) tags = [] -> exists rows, res_map (row_res h) l = Ok rows.
Proof.
  induction l as [|v l IH]; cbn; intros tags H F; [eauto|].
  destruct (vtag_of h v) as [g| |] eqn:Eg; try discriminate.
  destruct (res_map (vtag_of h) l) as [gs| |] eqn:Egs; try discriminate. inversion H; subst. cbn in F.
  destruct (tag_eqb g GArr) eqn:Ea; cbn in F; [|discriminate].
  destruct (IH gs eq_refl F) as [rows ->].
  assert (exists r, row_res h v = Ok r) as [r ->]; [|eauto].
  destruct g; try discriminate. unfold row_res, row_of. destruct v; cbn in Eg; try discriminate.
  destruct (nth_error h a) as [[| |]|]; try discriminate; eauto.
Qed.

Lemma res_map_rows_wf h : hwf h -> forall l rows, res_map (row_res h) l = Ok rows -> Forall (Forall (vwf h)) rows.
Proof.
  intros W. induction l as [|v l IH]; cbn; intros rows H; [inversion H; constructor|].
  unfold row_res at 1 in H. destruct (row_of h v) as [rv|] eqn:Ev; try discriminate.
  destruct (res_map (row_res h) l) as [rs| |]; try discriminate. inversion H; subst. constructor; auto.
  unfold row_of in Ev. destruct v; try discriminate. destruct (nth_error h a) as [[x| |]|] eqn:Ea; try discriminate.
  inversion Ev; subst. exact (hwf_nth _ _ _ W Ea).
Qed.
Lemma check_rows_defined h types : forall rows, Forall (Forall (vwf h)) rows -> exists ds, check_rows h types rows = Ok ds.
Proof.
  induction rows as [|r rows IH]; cbn; intros F; [eauto|]. inversion F as [|? ? Fr Frs]; subst.
  unfold check_row. destruct (negb (Nat.eqb (length r) (length types))); cbn [rbind]; [eauto|].
  destruct (res_map_vtag_ok h r Fr) as [tags ->]. cbn [rbind].
  destruct (repeat DExpectedArrayTypeMissmatch _); eauto.
Qed.

Theorem sort_table_defined h asc l : hwf h -> Forall (vwf h) l -> exists r, sort_table h asc l = Ok r.
Proof.
  intros W F. unfold sort_table. destruct l as [|[| | | | |r0] tl]; eauto.
  inversion F as [|? ? F0 Ftl]; subst. cbn in F0. unfold cont in F0.
  destruct (nth_error h r0) as [[row0| |]|] eqn:E0; try discriminate; eauto.
  destruct (res_map_vtag_ok h _ F) as [tags Etags]. rewrite Etags. cbn [rbind].
  destruct (filter (fun g => negb (tag_eqb g GArr)) tags) as [|b bs] eqn:Eb; cbn [length Nat.eqb negb]; eauto.
  destruct (res_map_tags_arr _ _ _ Etags Eb) as [rows Er]. fold (row_res h). rewrite Er. cbn [rbind].
  destruct (res_map_vtag_ok h row0 (hwf_nth _ _ _ W E0)) as [types Et]. rewrite Et. cbn [rbind].
  destruct (check_rows_defined h types rows (res_map_rows_wf _ W _ _ Er)) as [ds Ec]. rewrite Ec. cbn [rbind].
  destruct ds as [|d ds]; eauto.
  fold (all_defined h asc (VRef r0 :: tl)).
  assert (Ed: all_defined h asc (VRef r0 :: tl) = true).
  { unfold all_defined. apply forallb_forall. intros x Hx. apply forallb_forall. intros y Hy.
    pose proof (check_rows_ok _ _ _ Ec) as Fs.
    destruct (res_map_rows _ _ _ Er x Hx) as (rx & Ex & Ix). destruct (res_map_rows _ _ _ Er y Hy) as (ry & Ey & Iy).
    destruct (vrow_lt_defined h asc (map kind_of_tag types) x y) as [b ->]; auto.
    - exists rx. split; auto. eapply Forall_forall in Fs; eauto.
    - exists ry. split; auto. eapply Forall_forall in Fs; eauto. }
  rewrite Ed. cbn [negb]. destruct (negb _); eauto.
Qed.
