From Coq Require Import ZArith List String ExtrOcamlBasic.
From SqfVerif Require Import VM.VmDefs VM.VmExec VM.RefSem.
Extraction Language OCaml.
Extraction "../ocaml/gen/ref_model.ml" run_ref print_block compile_block show_code.
