(* C08 - arrays are shared references, copies are independent, and never cyclic.
   Theorems only; proofs in Data/DataGraph.v (recursion test), Data/DataHeap.v (walks),
   Data/DataStep.v (every operation keeps the invariant), Data/DataTerm.v, Data/DataFrame.v
   (frame property, fresh results), Data/DataProofs.v (refusals, index rules, refutations).
   The model (Data/DataDefs.v) is tied to the C++ by the correspondence run of checks/C08.py.
   `repaired` = the code as it stands since the fix: commits 75f978a, 5a49f25 (C08) and a4dc5e5 (C07, keys by value)
   of /repo (proposed_fixes/C08-*.diff, C07-01-*.diff); `as_is` = the code before them, kept for the refutations.
   Inv st = every reference points to a container, and no container reaches itself. *)
From Coq Require Import ZArith List Bool Lia.
Import ListNotations.
From SqfVerif Require Import Data.DataDefs Data.DataGraph Data.DataHeap Data.DataStep Data.DataTerm Data.DataFrame Data.DataProofs Data.DataCopy.

(* The recursion test of d_array (path-based DFS, over any successor relation): a yes means
   that the tested container lies on no cycle and reaches none. *)
Theorem C08_recursion_test_sound : forall (K : nat -> list nat) f x, rt K f [] x = Some true ->
  ~ reach K x x /\ forall y, reach K x y -> ~ reach K y y.
Proof. exact rt_true_sound. Qed.
Print Assumptions C08_recursion_test_sound.

(* ... and |heap| + 2 levels of fuel always suffice for it (nodes outside the heap have no successors) *)
Theorem C08_recursion_test_fuel : forall (K : nat -> list nat) n, (forall r, n <= r -> K r = []) ->
  forall x, rt K (S (S n)) [] x <> None.
Proof. intros K n Ko x. apply (rt_fuel K n Ko); [constructor|intros ? []|cbn; lia]. Qed.
Print Assumptions C08_recursion_test_fuel.

(* When the test says yes on a container, printing it, comparing it with anything and deep
   copying it terminate within the same fuel. *)
Theorem C08_test_yes_terminates : forall f h vis a, hwf h -> cont h a = true ->
  rt (succs h) f vis a = Some true ->
  (exists t, freeze f h (VRef a) = Ok t) /\
  (forall w, vwf h w -> exists b, deq f h (VRef a) w = Ok b) /\
  (is_arr h a = true -> exists r, copy_deep f h a = Ok r).
Proof.
  intros f h vis a W C R. split; [eapply rt_yes_freeze; eauto|]. split.
  - intros w Vw. eapply rt_yes_deq; eauto.
  - intros Ia. eapply rt_yes_copy; eauto. apply gext_refl; auto.
Qed.
Print Assumptions C08_test_yes_terminates.

(* On a well-formed acyclic heap printing, comparing and copying need at most |heap| + 2
   levels of fuel (fuel_of), for every value. *)
Theorem C08_terminates_under_acyclic : forall st, Inv st ->
  (forall v, vwf (st_heap st) v -> exists t, observe st v = Ok t) /\
  (forall v w, vwf (st_heap st) v -> vwf (st_heap st) w -> exists b, veq (fuel_of (st_heap st)) (st_heap st) v w = Ok b) /\
  (forall a, is_arr (st_heap st) a = true -> exists r, copy_deep (fuel_of (st_heap st)) (st_heap st) a = Ok r).
Proof.
  intros st Hi. split; [intros; apply print_terminates; auto|]. split; [intros; apply compare_terminates; auto|].
  intros; apply copy_terminates; auto.
Qed.
Print Assumptions C08_terminates_under_acyclic.

(* No operation - set, pushBack, pushBackUnique, append, deleteAt, deleteRange, resize, reverse,
   sort, +, -, select, HashMap set / deleteAt / createHashMapFromArray / keys / copy, with any
   aliasing of the operands - can make a container contain itself: the invariant is kept by
   every operation, hence along every history. *)
Theorem C08_acyclic_preserved : forall st o, Inv st -> Inv (o_state (step repaired st o)).
Proof. exact acyclic_preserved. Qed.
Print Assumptions C08_acyclic_preserved.
Theorem C08_acyclic_along_histories : forall n os, Inv (run repaired (init_state n) os).
Proof. intros. apply run_inv, init_inv. Qed.
Print Assumptions C08_acyclic_along_histories.

(* The unrepaired code breaks it in three ways (witnesses replayed on the implementation by
   checks/C08.py): _a append [_a]; _m set [1,_m]; _a pushBack _m when _m holds _a.  In the
   first two the print of the variable then needs unbounded fuel (the C++ recursion overflows
   the stack). *)
Theorem C08_acyclic_preserved_refuted_append : exists st o, Inv st /\
  o_status (step as_is st o) = Done /\ ~ HAcyclic (st_heap (o_state (step as_is st o))) /\
  observe (o_state (step as_is st o)) (VRef 0) = OutOfFuel.
Proof. exact acyclic_preserved_refuted_append. Qed.
Print Assumptions C08_acyclic_preserved_refuted_append.
Theorem C08_acyclic_preserved_refuted_hashmap_set : exists st o, Inv st /\
  o_status (step as_is st o) = Done /\ ~ HAcyclic (st_heap (o_state (step as_is st o))) /\
  observe (o_state (step as_is st o)) (VRef 0) = OutOfFuel.
Proof. exact acyclic_preserved_refuted_hset. Qed.
Print Assumptions C08_acyclic_preserved_refuted_hashmap_set.
Theorem C08_acyclic_preserved_refuted_through_hashmap : exists st o, Inv st /\
  o_status (step as_is st o) = Done /\ o_diags (step as_is st o) = [] /\
  ~ HAcyclic (st_heap (o_state (step as_is st o))).
Proof. exact acyclic_preserved_refuted_via_map. Qed.
Print Assumptions C08_acyclic_preserved_refuted_through_hashmap.

(* A refused insertion (diagnostic ArrayRecursion) leaves every variable and every container
   that existed as it was. *)
Theorem C08_refused_insert_unchanged : forall st o, Inv st ->
  In DArrayRecursion (o_diags (step repaired st o)) ->
  st_vars (o_state (step repaired st o)) = st_vars st /\
  forall a, a < length (st_heap st) -> nth_error (st_heap (o_state (step repaired st o))) a = nth_error (st_heap st) a.
Proof. exact refused_insert_unchanged. Qed.
Print Assumptions C08_refused_insert_unchanged.
(* the unrepaired set keeps the growth: [] set [3, itself] leaves [nil,nil,nil,nil] *)
Theorem C08_refused_insert_unchanged_refuted : exists st o,
  In DArrayRecursion (o_diags (step as_is st o)) /\
  nth_error (st_heap (o_state (step as_is st o))) 0 <> nth_error (st_heap st) 0.
Proof. exact refused_insert_unchanged_refuted. Qed.
Print Assumptions C08_refused_insert_unchanged_refuted.

(* An operation changes at most the one container it works on in place (target_of) and
   otherwise only adds new cells: every other variable or slot that refers to a container
   keeps observing the same cell, and all references to the changed container see the change
   (they are the same address). *)
Theorem C08_step_frame : forall d st o, Inv st ->
  length (st_heap st) <= length (st_heap (o_state (step d st o))) /\
  forall a, a < length (st_heap st) -> target_of st o <> Some a ->
            nth_error (st_heap (o_state (step d st o))) a = nth_error (st_heap st) a.
Proof. exact step_frame. Qed.
Print Assumptions C08_step_frame.

(* +x, x + y, x - y, x select [..], keys m, createHashMap(FromArray) return containers that did
   not exist before, and no later history that does not work in place on the result itself
   changes them - whatever it does to the operands. *)
Theorem C08_fresh_results_independent : forall st o dst, Inv st -> fresh_op o dst ->
  o_status (step repaired st o) = Done ->
  let st' := o_state (step repaired st o) in
  exists r, nth_error (st_vars st') dst = Some (VRef r) /\ length (st_heap st) <= r /\
            forall os, untouched repaired r st' os ->
                       nth_error (st_heap (run repaired st' os)) r = nth_error (st_heap st') r.
Proof. exact fresh_results_independent. Qed.
Print Assumptions C08_fresh_results_independent.

(* +array is deep: the copy and every array it reaches through arrays are cells that did not
   exist before (no variable, alias or slot of the old heap refers to them), and no history that
   does not work in place on one of these cells themselves changes any of them.  (A HashMap
   inside the array is shared: d_array::copy_deep copies arrays only.) *)
Theorem C08_copy_is_deep : forall st n a dst, Inv st ->
  nth_error (st_vars st) n = Some (VRef a) -> is_arr (st_heap st) a = true ->
  o_status (step repaired st (OpCopy dst (OVar n))) = Done ->
  let st' := o_state (step repaired st (OpCopy dst (OVar n))) in
  exists r, nth_error (st_vars st') dst = Some (VRef r) /\ length (st_heap st) <= r /\
    (forall b, reach (succs_arr (st_heap st')) r b -> length (st_heap st) <= b) /\
    forall os, (forall b, (b = r \/ reach (succs_arr (st_heap st')) r b) -> untouched repaired b st' os) ->
      forall b, (b = r \/ reach (succs_arr (st_heap st')) r b) -> b < length (st_heap st') ->
                nth_error (st_heap (run repaired st' os)) b = nth_error (st_heap st') b.
Proof. exact copy_is_deep. Qed.
Print Assumptions C08_copy_is_deep.

(* Index rules. *)
Local Open Scope Z_scope.
Theorem C08_set_grows_with_nils : forall l i v, zlen l <= i ->
  put (resize_list l (i + 1)) i v = l ++ repeat VNil (Z.to_nat (i - zlen l)) ++ [v].
Proof. exact set_grows_with_nils. Qed.
Print Assumptions C08_set_grows_with_nils.
Theorem C08_set_negative_rejected_unchanged : forall d st n a l idx m v,
  nth_error (st_vars st) n = Some (VRef a) -> nth_error (st_heap st) a = Some (CArr l) ->
  eval_opnd st (OVar m) = Some (st, v) -> trunc_half idx < 0 ->
  step d st (OpSet (OVar n) idx (OVar m)) = mk Done st [DNegativeIndex] VNil.
Proof. exact set_negative_rejected_unchanged. Qed.
Print Assumptions C08_set_negative_rejected_unchanged.
Theorem C08_deleteAt_out_of_range_unchanged : forall d st n a l idx,
  nth_error (st_vars st) n = Some (VRef a) -> nth_error (st_heap st) a = Some (CArr l) ->
  zlen l <= trunc_half idx \/ trunc_half idx < 0 ->
  exists w, (w = DIndexOutOfRangeWeak \/ w = DNegativeIndexWeak) /\
            step d st (OpDeleteAt (OVar n) idx) = mk Done st [w] VNil.
Proof. exact deleteAt_out_of_range_unchanged. Qed.
Print Assumptions C08_deleteAt_out_of_range_unchanged.
Theorem C08_resize_negative_rejected_unchanged : forall st n a l k,
  nth_error (st_vars st) n = Some (VRef a) -> nth_error (st_heap st) a = Some (CArr l) -> k < 0 ->
  step repaired st (OpResize (OVar n) k) = mk Done st [DNegativeSize] VNil.
Proof. exact resize_negative_rejected_unchanged. Qed.
Print Assumptions C08_resize_negative_rejected_unchanged.
Theorem C08_deleteRange_beyond_unchanged : forall st n a l from to,
  nth_error (st_vars st) n = Some (VRef a) -> nth_error (st_heap st) a = Some (CArr l) ->
  zlen l < round_half from -> round_half from <= round_half to ->
  step repaired st (OpDeleteRange (OVar n) from to) = mk Done st [DIndexOutOfRangeWeak] VNil.
Proof. exact deleteRange_beyond_unchanged. Qed.
Print Assumptions C08_deleteRange_beyond_unchanged.
(* the unrepaired code: resize -2 casts the negative float to size_t (length_error escapes),
   deleteRange starting beyond the end erases an inverted range *)
Theorem C08_index_rules_refuted : (exists st k, k < 0 /\ o_status (step as_is st (OpResize (OVar 0%nat) k)) = Undefined) /\
  (exists st from to, o_status (step as_is st (OpDeleteRange (OVar 0%nat) from to)) = Undefined).
Proof. split; [exact resize_negative_refuted|exact deleteRange_beyond_refuted]. Qed.
Print Assumptions C08_index_rules_refuted.
Local Close Scope Z_scope.

(* ---- non-vacuity: a history with aliasing, nesting and refused self-insertions keeps Inv,
   and the refusals are reported *)
Definition ex_history : list op :=
  [ OpAssign 0 (OLit (TArr [TNum (SHalf 2%Z); TArr [TNum (SHalf 4%Z)]]));
    OpAssign 1 (OSel 0 1);                      (* v1 aliases the inner array *)
    OpPushBack (OVar 1) (OLit (TStr [97%Z]));     (* seen through v0 as well *)
    OpNewMap 2;
    OpMapSet (OVar 2) (OLit (TNum (SHalf 2%Z))) (OVar 0);
    OpPushBack (OVar 1) (OVar 2);               (* v1 <- map <- v0 <- v1 : refused *)
    OpAppend (OVar 0) (OWrap 0);                (* refused *)
    OpCopy 3 (OVar 0) ].
Example ex_inv : Inv (run repaired (init_state 4) ex_history).
Proof. apply C08_acyclic_along_histories. Qed.
Example ex_observed :
  let st := run repaired (init_state 4) ex_history in
  option_map (fun v => match observe st v with Ok t => print_tree true t | _ => [] end) (nth_error (st_vars st) 0)
  = Some (print_tree true (TArr [TNum (SHalf 2%Z); TArr [TNum (SHalf 4%Z); TStr [97%Z]]])).
Proof. vm_compute. reflexivity. Qed.
Example ex_refused :
  let st := run repaired (init_state 4) (firstn 5 ex_history) in
  o_diags (step repaired st (OpPushBack (OVar 1) (OVar 2))) = [DArrayRecursion].
Proof. vm_compute. reflexivity. Qed.
