(* C08 - arrays are shared references, copies are independent, and never cyclic.
   Theorems only; proofs in Data/DataGraph.v (recursion test), Data/DataHeap.v (walks),
   Data/DataStep.v (every operation keeps the invariant), Data/DataTerm.v, Data/DataFrame.v
   (frame property, fresh results), Data/DataProofs.v (refusals, index rules, refutations).
   The model (Data/DataDefs.v) is tied to the C++ by the correspondence run of checks/C08.py.
   `repaired` = the code as it stands since the fix: commits 75f978a, 5a49f25 (C08) and a4dc5e5 (C07, keys by value)
   of /repo (proposed_fixes/C08-*.diff, C07-01-*.diff); `as_is` = the code before them, kept for the refutations.
   Inv st = every reference points to a container, and no container reaches itself. *)
From Coq Require Import ZArith List Bool Lia Permutation Sorted.
Import ListNotations.
From SqfVerif Require Import Data.DataDefs Data.DataGraph Data.DataHeap Data.DataStep Data.DataTerm Data.DataFrame Data.DataProofs Data.DataCopy
  Data.DataSort Data.DataSortStep.

(* The recursion test of d_array (path-based DFS, over any successor relation): a yes means
   that the tested container lies on no cycle and reaches none. *)
Theorem C08_recursion_test_sound : forall (K : nat -> list nat) f x, rt K f [] x = Some true ->
  ~ reach K x x /\ forall y, reach K x y -> ~ reach K y y.
Proof. exact rt_true_sound. Qed.
Print Assumptions C08_recursion_test_sound.

(* ... and |heap| + 2 levels of fuel always suffice for it (nodes outside the heap have no successors) *)
Theorem C08_recursion_test_fuel : forall (K : nat -> list nat) n, (forall r, n <= r -> K r = []) ->
  forall x, rt K (S (S n)) [] x <> None.
Proof. intros K n Ko x. apply (rt_fuel K n Ko); [constructor|intros ? []|cbn; lia]. Qed.
Print Assumptions C08_recursion_test_fuel.

(* When the test says yes on a container, printing it, comparing it with anything and deep
   copying it terminate within the same fuel. *)
Theorem C08_test_yes_terminates : forall f h vis a, hwf h -> cont h a = true ->
  rt (succs h) f vis a = Some true ->
  (exists t, freeze f h (VRef a) = Ok t) /\
  (forall w, vwf h w -> exists b, deq f h (VRef a) w = Ok b) /\
  (is_arr h a = true -> exists r, copy_deep f h a = Ok r).
Proof.
  intros f h vis a W C R. split; [eapply rt_yes_freeze; eauto|]. split.
  - intros w Vw. eapply rt_yes_deq; eauto.
  - intros Ia. eapply rt_yes_copy; eauto. apply gext_refl; auto.
Qed.
Print Assumptions C08_test_yes_terminates.

(* On a well-formed acyclic heap printing, comparing and copying need at most |heap| + 2
   levels of fuel (fuel_of), for every value. *)
Theorem C08_terminates_under_acyclic : forall st, Inv st ->
  (forall v, vwf (st_heap st) v -> exists t, observe st v = Ok t) /\
  (forall v w, vwf (st_heap st) v -> vwf (st_heap st) w -> exists b, veq (fuel_of (st_heap st)) (st_heap st) v w = Ok b) /\
  (forall a, is_arr (st_heap st) a = true -> exists r, copy_deep (fuel_of (st_heap st)) (st_heap st) a = Ok r).
Proof.
  intros st Hi. split; [intros; apply print_terminates; auto|]. split; [intros; apply compare_terminates; auto|].
  intros; apply copy_terminates; auto.
Qed.
Print Assumptions C08_terminates_under_acyclic.

(* No operation - set, pushBack, pushBackUnique, append, deleteAt, deleteRange, resize, reverse,
   sort, +, -, select, HashMap set / deleteAt / createHashMapFromArray / keys / copy, with any
   aliasing of the operands - can make a container contain itself: the invariant is kept by
   every operation, hence along every history. *)
Theorem C08_acyclic_preserved : forall st o, Inv st -> Inv (o_state (step repaired st o)).
Proof. exact acyclic_preserved. Qed.
Print Assumptions C08_acyclic_preserved.
Theorem C08_acyclic_along_histories : forall n os, Inv (run repaired (init_state n) os).
Proof. intros. apply run_inv, init_inv. Qed.
Print Assumptions C08_acyclic_along_histories.

(* The unrepaired code breaks it in three ways (witnesses replayed on the implementation by
   checks/C08.py): _a append [_a]; _m set [1,_m]; _a pushBack _m when _m holds _a.  In the
   first two the print of the variable then needs unbounded fuel (the C++ recursion overflows
   the stack). *)
Theorem C08_acyclic_preserved_refuted_append : exists st o, Inv st /\
  o_status (step as_is st o) = Done /\ ~ HAcyclic (st_heap (o_state (step as_is st o))) /\
  observe (o_state (step as_is st o)) (VRef 0) = OutOfFuel.
Proof. exact acyclic_preserved_refuted_append. Qed.
Print Assumptions C08_acyclic_preserved_refuted_append.
Theorem C08_acyclic_preserved_refuted_hashmap_set : exists st o, Inv st /\
  o_status (step as_is st o) = Done /\ ~ HAcyclic (st_heap (o_state (step as_is st o))) /\
  observe (o_state (step as_is st o)) (VRef 0) = OutOfFuel.
Proof. exact acyclic_preserved_refuted_hset. Qed.
Print Assumptions C08_acyclic_preserved_refuted_hashmap_set.
Theorem C08_acyclic_preserved_refuted_through_hashmap : exists st o, Inv st /\
  o_status (step as_is st o) = Done /\ o_diags (step as_is st o) = [] /\
  ~ HAcyclic (st_heap (o_state (step as_is st o))).
Proof. exact acyclic_preserved_refuted_via_map. Qed.
Print Assumptions C08_acyclic_preserved_refuted_through_hashmap.

(* A refused insertion (diagnostic ArrayRecursion) leaves every variable and every container
   that existed as it was. *)
Theorem C08_refused_insert_unchanged : forall st o, Inv st ->
  In DArrayRecursion (o_diags (step repaired st o)) ->
  st_vars (o_state (step repaired st o)) = st_vars st /\
  forall a, a < length (st_heap st) -> nth_error (st_heap (o_state (step repaired st o))) a = nth_error (st_heap st) a.
Proof. exact refused_insert_unchanged. Qed.
Print Assumptions C08_refused_insert_unchanged.
(* the unrepaired set keeps the growth: [] set [3, itself] leaves [nil,nil,nil,nil] *)
Theorem C08_refused_insert_unchanged_refuted : exists st o,
  In DArrayRecursion (o_diags (step as_is st o)) /\
  nth_error (st_heap (o_state (step as_is st o))) 0 <> nth_error (st_heap st) 0.
Proof. exact refused_insert_unchanged_refuted. Qed.
Print Assumptions C08_refused_insert_unchanged_refuted.

(* An operation changes at most the one container it works on in place (target_of) and
   otherwise only adds new cells: every other variable or slot that refers to a container
   keeps observing the same cell, and all references to the changed container see the change
   (they are the same address). *)
Theorem C08_step_frame : forall d st o, Inv st ->
  length (st_heap st) <= length (st_heap (o_state (step d st o))) /\
  forall a, a < length (st_heap st) -> target_of st o <> Some a ->
            nth_error (st_heap (o_state (step d st o))) a = nth_error (st_heap st) a.
Proof. exact step_frame. Qed.
Print Assumptions C08_step_frame.

(* +x, x + y, x - y, x select [..], keys m, createHashMap(FromArray) return containers that did
   not exist before, and no later history that does not work in place on the result itself
   changes them - whatever it does to the operands. *)
Theorem C08_fresh_results_independent : forall st o dst, Inv st -> fresh_op o dst ->
  o_status (step repaired st o) = Done ->
  let st' := o_state (step repaired st o) in
  exists r, nth_error (st_vars st') dst = Some (VRef r) /\ length (st_heap st) <= r /\
            forall os, untouched repaired r st' os ->
                       nth_error (st_heap (run repaired st' os)) r = nth_error (st_heap st') r.
Proof. exact fresh_results_independent. Qed.
Print Assumptions C08_fresh_results_independent.

(* +array is deep: the copy and every array it reaches through arrays are cells that did not
   exist before (no variable, alias or slot of the old heap refers to them), and no history that
   does not work in place on one of these cells themselves changes any of them.  (A HashMap
   inside the array is shared: d_array::copy_deep copies arrays only.) *)
Theorem C08_copy_is_deep : forall st n a dst, Inv st ->
  nth_error (st_vars st) n = Some (VRef a) -> is_arr (st_heap st) a = true ->
  o_status (step repaired st (OpCopy dst (OVar n))) = Done ->
  let st' := o_state (step repaired st (OpCopy dst (OVar n))) in
  exists r, nth_error (st_vars st') dst = Some (VRef r) /\ length (st_heap st) <= r /\
    (forall b, reach (succs_arr (st_heap st')) r b -> length (st_heap st) <= b) /\
    forall os, (forall b, (b = r \/ reach (succs_arr (st_heap st')) r b) -> untouched repaired b st' os) ->
      forall b, (b = r \/ reach (succs_arr (st_heap st')) r b) -> b < length (st_heap st') ->
                nth_error (st_heap (run repaired st' os)) b = nth_error (st_heap st') b.
Proof. exact copy_is_deep. Qed.
Print Assumptions C08_copy_is_deep.

(* ---- sort of a TABLE (an array of rows), ops_generic.cpp:736-817: in place, on the heap.
   sort_table h asc l = Ok (TSorted l') says: the table passed the type checks (every element an array, every row of the
   size and the element types of the first), and two rows that the comparator does not order are the same row object.
   Then `table sort flag` leaves the table in its cell; the new content l' is a permutation of the old element VALUES - the
   references to the row cells, no copies -, sorted by the comparator of the C++ (comp(later, earlier) is false for every
   pair), and it is the ONLY sorted permutation (so the result does not depend on the algorithm behind std::sort); no other
   cell changes, no variable is rebound, the heap stays well formed and acyclic.  Hence every name of the table observes
   the new order, and every name of a row still refers to a cell that is an element of the table (and sees, and causes,
   every later change of that row through any name). *)
Theorem C08_sort_table_in_place : forall d st n asc a l l',
  Inv st -> nth_error (st_vars st) n = Some (VRef a) -> nth_error (st_heap st) a = Some (CArr l) -> 1 < length l ->
  sort_table (st_heap st) asc l = Ok (TSorted l') ->
  let o := step d st (OpSort (OVar n) asc) in
  let h' := st_heap (o_state o) in
  o_status o = Done /\ o_diags o = [] /\ st_vars (o_state o) = st_vars st /\
  Inv (o_state o) /\ length h' = length (st_heap st) /\
  nth_error h' a = Some (CArr l') /\
  (forall b, b <> a -> nth_error h' b = nth_error (st_heap st) b) /\
  Permutation l l' /\
  StronglySorted (fun x y => vrow_ltb h' asc y x = false) l' /\
  (forall l2, Permutation l l2 -> StronglySorted (fun x y => vrow_ltb h' asc y x = false) l2 -> l2 = l') /\
  (forall r, In (VRef r) l -> r <> a /\ In (VRef r) l' /\ nth_error h' r = nth_error (st_heap st) r).
Proof. exact sort_table_step. Qed.
Print Assumptions C08_sort_table_in_place.

(* A table the type checks refuse (an element that is no array: one ExpectedArrayTypeMissmatch per such element; a row of
   another size: ExpectedArraySizeMissmatch; a row with other element types: one ExpectedArrayTypeMissmatch per position,
   the loop stops at the first such row) is left exactly as it was. *)
Theorem C08_sort_table_refused_unchanged : forall d st n asc a l ds,
  nth_error (st_vars st) n = Some (VRef a) -> nth_error (st_heap st) a = Some (CArr l) -> 1 < length l ->
  sort_table (st_heap st) asc l = Ok (TRefused ds) ->
  step d st (OpSort (OVar n) asc) = mk Done st ds VNil /\ ds <> [] /\
  forall x, In x ds -> x = DExpectedArrayTypeMissmatch \/ x = DExpectedArraySizeMissmatch.
Proof. exact sort_table_refused_step. Qed.
Print Assumptions C08_sort_table_refused_unchanged.

(* On a well-formed heap the model of the table sort never reaches its explicit outcome for undefined behaviour: no dangling
   reference, and after the type checks the comparator never reads beyond the end of a row nor a string / float out of a
   value of another type, for any pair of rows std::sort may hand it. *)
Theorem C08_sort_table_defined : forall h asc l, hwf h -> Forall (vwf h) l -> exists r, sort_table h asc l = Ok r.
Proof. exact sort_table_defined. Qed.
Print Assumptions C08_sort_table_defined.

(* The comparator on rows that passed the type checks (rows of one shape: the same kind - string, number, passed over - at
   every position) is a strict weak ordering, ascending and descending: defined, irreflexive, asymmetric, and "not less" is
   transitive.  NaN is in front of every number, -0 and 0 are equal. *)
Theorem C08_row_comparator_strict_weak : forall asc,
  (forall a, row_lt asc a a = Some false) /\
  (forall a b, shape a = shape b -> exists r, row_lt asc a b = Some r) /\
  (forall a b, shape a = shape b -> row_lt asc a b = Some true -> row_lt asc b a = Some false) /\
  (forall a b c, shape a = shape b -> shape b = shape c ->
     row_lt asc a b = Some false -> row_lt asc b c = Some false -> row_lt asc a c = Some false).
Proof.
  intros asc. split; [apply row_lt_irrefl|]. split; [apply row_lt_defined|]. split; [apply row_lt_asym|apply row_lt_ntrans].
Qed.
Print Assumptions C08_row_comparator_strict_weak.

(* Index rules. *)
Local Open Scope Z_scope.
Theorem C08_set_grows_with_nils : forall l i v, zlen l <= i ->
  put (resize_list l (i + 1)) i v = l ++ repeat VNil (Z.to_nat (i - zlen l)) ++ [v].
Proof. exact set_grows_with_nils. Qed.
Print Assumptions C08_set_grows_with_nils.
Theorem C08_set_negative_rejected_unchanged : forall d st n a l idx m v,
  nth_error (st_vars st) n = Some (VRef a) -> nth_error (st_heap st) a = Some (CArr l) ->
  eval_opnd st (OVar m) = Some (st, v) -> trunc_half idx < 0 ->
  step d st (OpSet (OVar n) idx (OVar m)) = mk Done st [DNegativeIndex] VNil.
Proof. exact set_negative_rejected_unchanged. Qed.
Print Assumptions C08_set_negative_rejected_unchanged.
Theorem C08_deleteAt_out_of_range_unchanged : forall d st n a l idx,
  nth_error (st_vars st) n = Some (VRef a) -> nth_error (st_heap st) a = Some (CArr l) ->
  zlen l <= trunc_half idx \/ trunc_half idx < 0 ->
  exists w, (w = DIndexOutOfRangeWeak \/ w = DNegativeIndexWeak) /\
            step d st (OpDeleteAt (OVar n) idx) = mk Done st [w] VNil.
Proof. exact deleteAt_out_of_range_unchanged. Qed.
Print Assumptions C08_deleteAt_out_of_range_unchanged.
Theorem C08_resize_negative_rejected_unchanged : forall st n a l k,
  nth_error (st_vars st) n = Some (VRef a) -> nth_error (st_heap st) a = Some (CArr l) -> k < 0 ->
  step repaired st (OpResize (OVar n) k) = mk Done st [DNegativeSize] VNil.
Proof. exact resize_negative_rejected_unchanged. Qed.
Print Assumptions C08_resize_negative_rejected_unchanged.
Theorem C08_deleteRange_beyond_unchanged : forall st n a l from to,
  nth_error (st_vars st) n = Some (VRef a) -> nth_error (st_heap st) a = Some (CArr l) ->
  zlen l < round_half from -> round_half from <= round_half to ->
  step repaired st (OpDeleteRange (OVar n) from to) = mk Done st [DIndexOutOfRangeWeak] VNil.
Proof. exact deleteRange_beyond_unchanged. Qed.
Print Assumptions C08_deleteRange_beyond_unchanged.
(* the unrepaired code: resize -2 casts the negative float to size_t (length_error escapes),
   deleteRange starting beyond the end erases an inverted range *)
Theorem C08_index_rules_refuted : (exists st k, k < 0 /\ o_status (step as_is st (OpResize (OVar 0%nat) k)) = Undefined) /\
  (exists st from to, o_status (step as_is st (OpDeleteRange (OVar 0%nat) from to)) = Undefined).
Proof. split; [exact resize_negative_refuted|exact deleteRange_beyond_refuted]. Qed.
Print Assumptions C08_index_rules_refuted.
Local Close Scope Z_scope.

(* ---- non-vacuity: a history with aliasing, nesting and refused self-insertions keeps Inv,
   and the refusals are reported *)
Definition ex_history : list op :=
  [ OpAssign 0 (OLit (TArr [TNum (SHalf 2%Z); TArr [TNum (SHalf 4%Z)]]));
    OpAssign 1 (OSel 0 1);                      (* v1 aliases the inner array *)
    OpPushBack (OVar 1) (OLit (TStr [97%Z]));     (* seen through v0 as well *)
    OpNewMap 2;
    OpMapSet (OVar 2) (OLit (TNum (SHalf 2%Z))) (OVar 0);
    OpPushBack (OVar 1) (OVar 2);               (* v1 <- map <- v0 <- v1 : refused *)
    OpAppend (OVar 0) (OWrap 0);                (* refused *)
    OpCopy 3 (OVar 0) ].
Example ex_inv : Inv (run repaired (init_state 4) ex_history).
Proof. apply C08_acyclic_along_histories. Qed.
Example ex_observed :
  let st := run repaired (init_state 4) ex_history in
  option_map (fun v => match observe st v with Ok t => print_tree true t | _ => [] end) (nth_error (st_vars st) 0)
  = Some (print_tree true (TArr [TNum (SHalf 2%Z); TArr [TNum (SHalf 4%Z); TStr [97%Z]]])).
Proof. vm_compute. reflexivity. Qed.
Example ex_refused :
  let st := run repaired (init_state 4) (firstn 5 ex_history) in
  o_diags (step repaired st (OpPushBack (OVar 1) (OVar 2))) = [DArrayRecursion].
Proof. vm_compute. reflexivity. Qed.

(* ---- non-vacuity of the table sort: rows held by variables v0..v2 and by the table v3 (alias v4); NaN sorts in front, the
   second column decides between the two rows whose first column is equal (0 and -0), the boolean column is passed over.
   After the sort a row is changed through its own name: both names of the table show it. *)
Definition ex_table : list op :=
  [ OpAssign 0 (OLit (TArr [TNum (SHalf 0%Z); TStr [98%Z]; TBool true]));
    OpAssign 1 (OLit (TArr [TNum SNegZero; TStr [97%Z]; TBool false]));
    OpAssign 2 (OLit (TArr [TNum (SNaN 1%Z); TStr [122%Z]; TBool true]));
    OpAssign 3 (OLit (TArr []));
    OpPushBack (OVar 3) (OVar 0); OpPushBack (OVar 3) (OVar 1); OpPushBack (OVar 3) (OVar 2);
    OpAssign 4 (OVar 3) ].
Example ex_table_sorted :
  let st := run repaired (init_state 5) ex_table in
  match nth_error (st_vars st) 3 with
  | Some (VRef a) => match nth_error (st_heap st) a with
                     | Some (CArr l) => exists l', sort_table (st_heap st) true l = Ok (TSorted l') /\ l' = rev l /\ 1 < length l
                     | _ => False end
  | _ => False end.
Proof. vm_compute. eexists. split; [reflexivity|]. split; [reflexivity|lia]. Qed.
Example ex_table_observed :
  let st := run repaired (init_state 5) (ex_table ++ [OpSort (OVar 4) true; OpPushBack (OVar 1) (OLit (TStr [120%Z]))]) in
  map (fun v => match observe st v with Ok t => print_tree true t | _ => [] end) (firstn 2 (skipn 3 (st_vars st)))
  = let t := print_tree true (TArr [TArr [TNum (SNaN 1%Z); TStr [122%Z]; TBool true];
                                    TArr [TNum SNegZero; TStr [97%Z]; TBool false; TStr [120%Z]];
                                    TArr [TNum (SHalf 0%Z); TStr [98%Z]; TBool true]]) in [t; t].
Proof. vm_compute. reflexivity. Qed.
Example ex_table_refused :
  let st := run repaired (init_state 5) (ex_table ++ [OpPushBack (OVar 1) (OLit (TStr [120%Z]))]) in
  o_diags (step repaired st (OpSort (OVar 3) false)) = [DExpectedArraySizeMissmatch] /\
  o_state (step repaired st (OpSort (OVar 3) false)) = st.
Proof. vm_compute. split; reflexivity. Qed.
