(* C02 simulation, part 2: straight-line blocks.  Statements `e`, `x = e`, `private _x = e` over the frame-free
   expression fragment change variables; the state of the reference semantics (scope chain, namespaces) and the
   state of the machine (frame chain, namespaces) are related by Match, and a block run on both sides preserves it.
   The block's value is the top of the machine's value region (RNone = the region is empty). *)
From Coq Require Import String Ascii.
From Coq Require Import ZArith List Bool Lia.
From SqfVerif Require Import Gen.DiagCodes Gen.Overloads VM.VmDefs VM.VmExec VM.RefSem VM.C02Proofs VM.SimDefs VM.SimProofs.
Import ListNotations.
Local Open Scope string_scope.
Local Open Scope list_scope.

(* ---------------------------------------------------------------- the state relation *)
Definition mvars (l:list (string*rvalue)) : list (string*value) := map (fun kw => (fst kw, cv (snd kw))) l.
Definition mnss (l:list (string * list (string*rvalue))) : list (string * list (string*value)) :=
  map (fun p => (fst p, mvars (snd p))) l.

Lemma assoc_mvars k l : assoc k (mvars l) = option_map cv (assoc k l).
Proof. induction l as [|[k' w] l IH]; cbn; [reflexivity|]. destruct (String.eqb k k'); [reflexivity|exact IH]. Qed.
Lemma assoc_set_mvars k v l : assoc_set k (cv v) (mvars l) = mvars (assoc_set k v l).
Proof. induction l as [|[k' w] l IH]; cbn; [reflexivity|]. destruct (String.eqb k k'); cbn; [reflexivity|]. f_equal. exact IH. Qed.
Lemma assoc_mnss k l : assoc k (mnss l) = option_map mvars (assoc k l).
Proof. induction l as [|[k' w] l IH]; cbn; [reflexivity|]. destruct (String.eqb k k'); [reflexivity|exact IH]. Qed.
Lemma assoc_set_mnss k m l : assoc_set k (mvars m) (mnss l) = mnss (assoc_set k m l).
Proof. induction l as [|[k' w] l IH]; cbn; [reflexivity|]. destruct (String.eqb k k'); cbn; [reflexivity|]. f_equal. exact IH. Qed.

(* the variables of a frame and of a scope agree as maps (the order of the bindings may differ: forEach binds _x and
   _forEachIndex in one order when it starts and in the other when it goes round) *)
Definition vars_match (l:list (string*rvalue)) (m:list (string*value)) : Prop :=
  forall k, hidden k = false -> assoc k m = option_map cv (assoc k l).
Lemma assoc_assoc_set {A} k' k (v:A) l : assoc k' (assoc_set k v l) = if String.eqb k' k then Some v else assoc k' l.
Proof.
  induction l as [|[k0 v0] l IH]; cbn [assoc_set assoc].
  - destruct (String.eqb k' k); reflexivity.
  - destruct (String.eqb k k0) eqn:E; cbn [assoc].
    + apply String.eqb_eq in E. subst k0. destruct (String.eqb k' k); reflexivity.
    + rewrite IH. destruct (String.eqb k' k0) eqn:E0; [|reflexivity].
      apply String.eqb_eq in E0. subst k0. rewrite String.eqb_sym, E. reflexivity.
Qed.
Lemma vars_match_mvars l : vars_match l (mvars l).
Proof. intros k _. apply assoc_mvars. Qed.
Lemma vars_match_set k v l m : vars_match l m -> vars_match (assoc_set k v l) (assoc_set k (cv v) m).
Proof. intros H k' HK. rewrite !assoc_assoc_set, (H k' HK). destruct (String.eqb k' k); reflexivity. Qed.

Definition frame_match (sc:scope) (f:frame) : Prop :=
  vars_match (sc_vars sc) (f_vars f) /\ f_ns f = sc_ns sc /\ (f_bubble f = true /\ f_scope f = sc_name sc).
Definition Match (s:sstate) (r:rt) (fs:list frame) : Prop :=
  Forall2 frame_match (st_scopes s) fs /\ world r = (mnss (st_nss s), st_trace s).

(* every field but the variables (and, for the running frame, the position) is untouched *)
Definition kept (f f':frame) : Prop := set_vars f (f_vars f') = f'.
(* the running frame: position and variables move on, and it may have been given its scope name *)
Definition moved (f f':frame) : Prop := set_scope (set_vars (set_pos f (f_pos f')) (f_vars f')) (f_scope f') = f'.
Lemma kept_refl f : kept f f. Proof. destruct f; reflexivity. Qed.
Lemma kept_all_refl l : Forall2 kept l l. Proof. induction l; constructor; auto using kept_refl. Qed.
Lemma kept_trans a b c : kept a b -> kept b c -> kept a c.
Proof. unfold kept. intros H1 H2. rewrite <- H2, <- H1. reflexivity. Qed.
Lemma kept_all_trans : forall a b c, Forall2 kept a b -> Forall2 kept b c -> Forall2 kept a c.
Proof. intros a b c H. revert c. induction H; intros c0 H2; inversion H2; subst; constructor; eauto using kept_trans. Qed.
Lemma moved_trans a b c : moved a b -> moved b c -> moved a c.
Proof. unfold moved. intros H1 H2. rewrite <- H2, <- H1. reflexivity. Qed.
Lemma moved_set_pos f p : moved f (set_pos f p). Proof. destruct f; reflexivity. Qed.
Lemma moved_set_vars f vs : moved f (set_vars f vs). Proof. destruct f; reflexivity. Qed.

Lemma lookup_match k : hidden k = false -> forall scs fs, Forall2 frame_match scs fs -> lookup_frames k fs = option_map cv (lookup_scopes k scs).
Proof.
  intros HK. induction 1 as [|sc f scs fs (V & N & B) H IH]; cbn [lookup_frames lookup_scopes]; [reflexivity|].
  rewrite (V k HK), (proj1 B). destruct (assoc k (sc_vars sc)); cbn; [reflexivity|exact IH].
Qed.

Lemma assign_match k v : hidden k = false -> forall scs fs, Forall2 frame_match scs fs ->
  (exists scs' fs', assign_scopes k v scs = Some scs' /\ assign_frames k (cv v) fs = Some fs' /\
                    Forall2 frame_match scs' fs' /\ Forall2 kept fs fs') \/
  (assign_scopes k v scs = None /\ assign_frames k (cv v) fs = None).
Proof.
  intros HK. induction 1 as [|sc f scs fs (V & N & B) H IH]; [right; split; reflexivity|].
  cbn [assign_scopes assign_frames]. rewrite (V k HK).
  destruct (assoc k (sc_vars sc)) as [w|]; cbn [option_map].
  - left. eexists _, _. split; [reflexivity|]. split; [reflexivity|]. split.
    + constructor; [|exact H]. split; [cbn; apply vars_match_set; exact V|split; [exact N|exact B]].
    + constructor; [|apply kept_all_refl]. unfold kept. destruct f; reflexivity.
  - destruct IH as [(scs' & fs' & A1 & A2 & M & K)|[A1 A2]].
    + left. rewrite A1, A2. eexists _, _. split; [reflexivity|]. split; [reflexivity|]. split.
      * constructor; [|exact M]. split; [exact V|split; [exact N|exact B]].
      * constructor; [apply kept_refl|exact K].
    + right. rewrite A1, A2. split; reflexivity.
Qed.

Definition loc_of (s:sstate) : string -> option rvalue := fun k => lookup_scopes k (st_scopes s).
Definition glob_of (s:sstate) : string -> option rvalue :=
  fun k => match assoc (cur_ns_of s) (st_nss s) with Some m => assoc k m | None => None end.

Lemma renv_ok_of s : renv_ok (loc_of s) (glob_of s) s.
Proof. split; intros; reflexivity. Qed.

Lemma env_ok_of s r f rest : Match s r (f :: rest) -> env_ok (loc_of s) (glob_of s) r (f :: rest) (f_ns f).
Proof.
  intros [F N]. split.
  - intros k w HK H. rewrite (lookup_match k HK _ _ F). unfold loc_of in H. rewrite H. reflexivity.
  - intros k w H. unfold glob_of in H. rewrite (world_nss _ _ _ N), assoc_mnss.
    inversion F as [|sc f0 scs fs (V & NS & B) F' E1 E2]; subst. unfold cur_ns_of in H. try rewrite <- E1 in H. rewrite NS.
    destruct (assoc (sc_ns sc) (st_nss s)) as [m|]; [|discriminate]. cbn [option_map]. rewrite assoc_mvars, H. reflexivity.
Qed.

(* ---------------------------------------------------------------- the block's value and the value region *)
(* what lies in a scope's part of the operand stack at a statement boundary: nothing, the value of the region, and under
   that value only nils: the nil a calling operator left in the new scope, the nils of scopes a throw has abandoned *)
Definition under (t:list value) : Prop := Forall (fun x => x = VNil) t.
Definition reg_rep (reg:rvalue) (top:list value) : Prop :=
  match top with [] => reg = RNone | x :: t => x = cv reg /\ reg <> RNone /\ under t end.
(* where a statement starts: at the bottom of the scope's part, or on nils only (the nil of the calling operator; after a throw
   the nils the abandoned scopes held) *)
Definition Fresh (c:context) (below:list value) : Prop := exists t, c_values c = t ++ below /\ under t.

Lemma fresh_under c top below : c_values c = top ++ below -> Fresh c below -> under top.
Proof. intros EV (t & E & U). rewrite EV in E. apply app_inv_tail in E. subst t. exact U. Qed.
Lemma fresh_nil c below : c_values c = below -> Fresh c below.
Proof. intros E. exists []. split; [exact E|constructor]. Qed.
Lemma fresh_one c below : c_values c = VNil :: below -> Fresh c below.
Proof. intros E. exists [VNil]. split; [exact E|repeat constructor]. Qed.
Lemma under_top t : under t -> match t with [] => VNil | x :: _ => x end = VNil.
Proof. intros U. destruct U as [|x t' E _]; [reflexivity|exact E]. Qed.
Ltac nil_case := first [apply fresh_nil; reflexivity | apply Forall_nil].

(* where the machine stands, relative to a reference state *)
Definition At (s:sstate) (reg:rvalue) (r:rt) (c:context) (f:frame) (rest:list frame) (below:list value) : Prop :=
  Good r c /\ c_frames c = f :: rest /\ Match s r (f :: rest) /\ length below = f_base f /\
  exists top, c_values c = top ++ below /\ reg_rep reg top.

(* ---------------------------------------------------------------- pure statements and blocks, big-step *)
Inductive pstmt (s:sstate) (reg:rvalue) : stmt -> rvalue -> sstate -> Prop :=
| PSExpr e v : pev (loc_of s) (glob_of s) e v -> pstmt s reg (SExpr e) v s
| PSAssign n e v : n <> "" -> hidden (lower n) = false -> pev (loc_of s) (glob_of s) e v ->
    pstmt s reg (SAssign n e) reg (if is_local n then assign_local s n v else rns_set s (cur_ns_of s) n v)
| PSLocal n e v : n <> "" -> pev (loc_of s) (glob_of s) e v -> pstmt s reg (SLocal n e) reg (bind_here s n v).

Inductive pblock : sstate -> rvalue -> list stmt -> rvalue -> sstate -> Prop :=
| PBNil s reg : pblock s reg [] reg s
| PBLast s reg st reg1 s1 : pstmt s reg st reg1 s1 -> pblock s reg [st] reg1 s1
| PBCons s reg st reg1 s1 st2 rest reg' s' :
    pstmt s reg st reg1 s1 -> pblock s1 RNone (st2 :: rest) reg' s' -> pblock s reg (st :: st2 :: rest) reg' s'.

(* ---------------------------------------------------------------- the reference semantics runs them *)
Definition ssize (st:stmt) : nat := match st with SExpr e | SAssign _ e | SLocal _ e => S (esize e) end.
Fixpoint bsize (b:list stmt) : nat := match b with [] => 1 | st :: r => ssize st + bsize r end.

Lemma pev_data loc glob e v : pev loc glob e v -> is_data v = true.
Proof. intros H. exact (proj1 (proj1 (pure_ref loc glob) e v H)). Qed.

Lemma bsize_pos b : 1 <= bsize b.
Proof. induction b; cbn [bsize]; lia. Qed.

Lemma block_ref : forall s reg b reg' s', pblock s reg b reg' s' ->
  forall f, bsize b <= f -> eval_block f s b reg = (ONormal reg', s').
Proof.
  induction 1 as [s reg|s reg st reg1 s1 HS|s reg st reg1 s1 st2 rest reg' s' HS HB IH]; intros [|f] L;
    try (exfalso; match type of L with ?x <= 0 => assert (1 <= x) by apply bsize_pos; lia end); cbn [bsize] in L.
  - reflexivity.
  - cbn [eval_block]. destruct HS as [e v HE|n e v NN HH HE|n e v NN HE]; cbn [ssize] in L;
      rewrite (proj2 (proj1 (pure_ref _ _) e v HE) s f (renv_ok_of s)) by lia;
      destruct (data_not_nil _ (pev_data _ _ _ _ HE)) as [D1 D2]; destruct v; try contradiction; reflexivity.
  - cbn [eval_block]. cbn [bsize] in IH.
    destruct HS as [e v HE|n e v NN HH HE|n e v NN HE]; cbn [ssize] in L;
      rewrite (proj2 (proj1 (pure_ref _ _) e v HE) s f (renv_ok_of s)) by lia;
      destruct (data_not_nil _ (pev_data _ _ _ _ HE)) as [D1 D2];
      rewrite <- (IH f) by lia; destruct v; try contradiction; reflexivity.
Qed.

(* ---------------------------------------------------------------- the machine runs them *)
Definition ctl_same (r r3:rt) : Prop :=
  r_ctxs r3 = r_ctxs r /\ r_active r3 = r_active r /\ r_exit_req r3 = r_exit_req r /\ r_state r3 = r_state r /\
  r_err r3 = r_err r /\ r_msgs r3 = r_msgs r /\ r_max_runtime r3 = r_max_runtime r /\ cfg_same r r3.

Lemma run_one_g r c f rest i r3 c2 :
  Good r c -> c_frames c = f :: rest -> nth_error (f_code f) (f_pos f) = Some i ->
  exec_instr i r (set_frames c (set_pos f (S (f_pos f)) :: rest)) = Ok (r3, c2) -> c_suspended c2 = false ->
  ctl_same r r3 -> Steps r (upd_cur r3 c2) /\ Good (upd_cur r3 c2) c2.
Proof.
  intros G EF N EX SU2 (C1 & C2 & C3 & C4 & C5 & C6 & C7 & CF). pose proof G as (C & X & St & E & M & D & SU).
  assert (G3 : Good r3 c).
  { unfold Good. unfold cur in *. rewrite C1, C2, C3, C4, C5, C6, C7. auto 10. }
  split; [|apply (good_upd r3 c _ G3 SU2)].
  eapply StepsExec; [|eapply cfg_trans; [exact CF|apply cfg_upd_cur]|apply StepsRefl]. rewrite <- (set_msgs_upd_cur r3 c2) by (rewrite C6; exact M).
  eapply step_instr; eauto. unfold upd_cur. destruct (r_active r3); cbn; rewrite C5; exact E.
Qed.

Lemma pop_value_top c f rest v vs : c_frames c = f :: rest -> c_values c = v :: vs -> f_base f <= length vs ->
  pop_value c = Some (v, set_values c vs).
Proof.
  intros EF EV B. unfold pop_value. rewrite EV, EF. destruct (Nat.leb_spec (length (v :: vs)) (f_base f)) as [L|L]; [cbn in L; lia|reflexivity].
Qed.

Lemma nth_error_app_mid {A} (a b:list A) i post : nth_error (a ++ b ++ i :: post) (length a + length b) = Some i.
Proof. rewrite app_assoc, <- app_length. apply nth_error_mid. Qed.

Lemma nss_set_nss r x : r_nss (set_nss r x) = x. Proof. reflexivity. Qed.

(* one statement *)
Lemma stmt_vm s reg st reg1 s1 : pstmt s reg st reg1 s1 ->
  forall r c f rest below pre post, At s reg r c f rest below -> Fresh c below ->
    f_code f = pre ++ compile_stmt st ++ post -> f_pos f = length pre ->
    exists r' c' f' rest', Steps r r' /\ At s1 reg1 r' c' f' rest' below /\
      moved f f' /\ f_pos f' = f_pos f + length (compile_stmt st) /\ Forall2 kept rest rest'.
Proof.
  intros HS r c f rest below pre post (G & EF & M & LB & top & EV & RR) FR EC EP.
  pose proof (fresh_under c top below EV FR) as UT.
  assert (B : f_base f <= length (c_values c)) by (rewrite EV, app_length; lia).
  destruct HS as [e v HE|n e v NN HH HE|n e v NN HE]; cbn [compile_stmt] in *.
  - (* expression statement *)
    destruct (proj1 (pure_sim _ _) e v HE r c f rest pre post G EF EC EP B (env_ok_of s r f rest M)) as [S1 NV].
    eexists _, _, _, rest. split; [exact S1|]. split; [|split; [apply moved_set_pos|split; [reflexivity|apply kept_all_refl]]].
    split; [apply good_adv; exact G|]. split; [reflexivity|]. split.
    { destruct M as [F N]. split; [|rewrite world_upd_cur; exact N].
      inversion F as [|sc f0 scs fs FM F' E1 E2]; subst. try rewrite <- E1. constructor; [exact FM|exact F']. }
    split; [exact LB|]. exists (cv v :: top). split; [cbn; rewrite EV; reflexivity|].
    split; [reflexivity|]. split; [intros ->; apply NV; reflexivity|exact UT].
  - (* assignment *)
    rewrite <- app_assoc in EC.
    destruct (proj1 (pure_sim _ _) e v HE r c f rest pre ([IAssign n] ++ post) G EF EC EP B (env_ok_of s r f rest M)) as [S1 NV].
    set (k := length (compile_expr e)) in *.
    set (c1 := adv c f rest k [cv v]) in *. set (r1 := upd_cur r c1) in *. set (f1 := set_pos f (f_pos f + k)) in *.
    assert (G1 : Good r1 c1) by (apply good_adv; exact G).
    assert (N1 : nth_error (f_code f1) (f_pos f1) = Some (IAssign n)).
    { cbn [f1 set_pos f_code f_pos]. rewrite EC, EP. unfold k. apply nth_error_app_mid. }
    set (c1' := set_frames c1 (set_pos f1 (S (f_pos f1)) :: rest)).
    assert (P : pop_value c1' = Some (cv v, set_values c1' (c_values c))).
    { apply (pop_value_top c1' (set_pos f1 (S (f_pos f1))) rest); [reflexivity|reflexivity|exact B]. }
    assert (NE : String.eqb n "" = false) by (apply String.eqb_neq; exact NN).
    destruct M as [F NS]. inversion F as [|sc f0 scs fs FM F' E1 E2]; subst f0 fs.
    destruct (is_local n) eqn:IL.
    + (* local: the innermost holder, else the current frame *)
      set (c2 := set_values c1' (c_values c)).
      assert (F2 : Forall2 frame_match (sc :: scs) (c_frames c2)).
      { cbn. constructor; [exact FM|exact F']. }
      assert (EX : exec_instr (IAssign n) r1 c1' = Ok (r1, assign_local_var c2 n (cv v))).
      { cbn [exec_instr]. rewrite P. rewrite NE, IL. destruct (cv v); try reflexivity. exfalso. apply NV. reflexivity. }
      destruct (run_one r1 c1 f1 rest (IAssign n) _ G1 eq_refl N1 EX) as [S2 G2].
      { unfold assign_local_var. destruct (assign_frames _ _ _); unfold upd_top; cbn; destruct G as (_ & _ & _ & _ & _ & _ & SU); try exact SU.
      }
      unfold r1 in S2, G2. rewrite upd_cur_twice in S2, G2.
      pose proof (steps_trans _ _ _ S1 S2) as S3.
      unfold assign_local. try rewrite <- E1.
      destruct (assign_match (lower n) v HH _ _ F2) as [(scs' & fs' & A1 & A2 & M' & K)|[A1 A2]].
      * unfold assign_local_var in *. rewrite A2 in *. rewrite A1.
        cbn [c_frames c2 set_values c1' set_frames] in K. inversion K as [|fa fb ra rb K1 K2 Ea Eb]; subst.
        inversion M' as [|sc' fb' scs'' rb' FM' F'' Ea' Eb']; subst.
        eexists _, _, fb, rb. split; [exact S3|]. split.
        { split; [exact G2|]. split; [reflexivity|]. split.
          { split; [cbn; constructor; assumption|]. rewrite world_upd_cur. exact NS. }
          split; [rewrite <- K1; exact LB|]. exists top. split; [exact EV|exact RR]. }
        split; [unfold moved; rewrite <- K1; destruct f; reflexivity|].
        split; [rewrite <- K1; cbn; unfold k; rewrite app_length; cbn; lia|exact K2].
      * unfold assign_local_var in *. rewrite A2 in *. rewrite A1. unfold bind_here. try rewrite <- E1.
        eexists _, _, _, rest. split; [exact S3|]. split.
        { split; [exact G2|]. split; [reflexivity|]. split.
          { split; [|rewrite world_upd_cur; exact NS]. cbn. constructor; [|exact F'].
            destruct FM as (V & N0 & B0). split; [cbn; apply vars_match_set; exact V|split; [exact N0|exact B0]]. }
          split; [exact LB|]. exists top. split; [exact EV|exact RR]. }
        split; [unfold moved; destruct f; reflexivity|].
        split; [cbn; unfold k; rewrite app_length; cbn; lia|apply kept_all_refl].
    + (* global: the namespace of the current frame *)
      set (c2 := set_values c1' (c_values c)).
      assert (EX : exec_instr (IAssign n) r1 c1' = Ok (ns_set r1 (f_ns f) n (cv v), c2)).
      { cbn [exec_instr]. rewrite P. rewrite NE, IL. destruct (cv v); try reflexivity. exfalso. apply NV. reflexivity. }
      destruct (run_one_g r1 c1 f1 rest (IAssign n) _ _ G1 eq_refl N1 EX) as [S2 G2].
      { destruct G as (_ & _ & _ & _ & _ & _ & SU). exact SU. }
      { unfold ns_set, set_nss, rt_with, ctl_same, cfg_same. cbn. auto 15. }
      pose proof (steps_trans _ _ _ S1 S2) as S3.
      eexists _, _, _, rest. split; [exact S3|]. split.
      { split; [exact G2|]. split; [reflexivity|]. split.
        { split; [cbn; rewrite <- E1; constructor; [exact FM|exact F']|].
          rewrite world_upd_cur. unfold world. f_equal;
            [|exact (world_marks _ _ _ (eq_trans (world_upd_cur r c1) NS))].
          unfold ns_set. rewrite nss_set_nss. unfold r1. rewrite nss_upd_cur, (world_nss _ _ _ NS).
          destruct FM as (V & N0 & B0). unfold cur_ns_of. try rewrite <- E1. rewrite N0. cbn [rns_set st_nss].
          rewrite assoc_mnss. destruct (assoc (sc_ns sc) (st_nss s)) as [m|]; cbn [option_map].
          - rewrite assoc_set_mvars, assoc_set_mnss. reflexivity.
          - change (assoc_set (lower n) (cv v) []) with (mvars (assoc_set (lower n) v [])). rewrite assoc_set_mnss. reflexivity. }
        split; [exact LB|]. exists top. split; [exact EV|exact RR]. }
      split; [unfold moved; destruct f; reflexivity|].
      split; [cbn; unfold k; rewrite app_length; cbn; lia|apply kept_all_refl].
  - (* private _x = e *)
    rewrite <- app_assoc in EC.
    destruct (proj1 (pure_sim _ _) e v HE r c f rest pre ([IAssignLocal n] ++ post) G EF EC EP B (env_ok_of s r f rest M)) as [S1 NV].
    set (k := length (compile_expr e)) in *.
    set (c1 := adv c f rest k [cv v]) in *. set (r1 := upd_cur r c1) in *. set (f1 := set_pos f (f_pos f + k)) in *.
    assert (G1 : Good r1 c1) by (apply good_adv; exact G).
    assert (N1 : nth_error (f_code f1) (f_pos f1) = Some (IAssignLocal n)).
    { cbn [f1 set_pos f_code f_pos]. rewrite EC, EP. unfold k. apply nth_error_app_mid. }
    set (c1' := set_frames c1 (set_pos f1 (S (f_pos f1)) :: rest)).
    assert (P : pop_value c1' = Some (cv v, set_values c1' (c_values c))).
    { apply (pop_value_top c1' (set_pos f1 (S (f_pos f1))) rest); [reflexivity|reflexivity|exact B]. }
    assert (NE : String.eqb n "" = false) by (apply String.eqb_neq; exact NN).
    destruct M as [F NS]. inversion F as [|sc f0 scs fs FM F' E1 E2]; subst f0 fs.
    set (c2 := set_values c1' (c_values c)).
    assert (EX : exec_instr (IAssignLocal n) r1 c1' = Ok (r1, set_top_var c2 n (cv v))).
    { cbn [exec_instr]. rewrite P. rewrite NE. destruct (cv v); try reflexivity. exfalso. apply NV. reflexivity. }
    destruct (run_one r1 c1 f1 rest (IAssignLocal n) _ G1 eq_refl N1 EX) as [S2 G2].
    { destruct G as (_ & _ & _ & _ & _ & _ & SU). exact SU. }
    unfold r1 in S2, G2. rewrite upd_cur_twice in S2, G2.
    pose proof (steps_trans _ _ _ S1 S2) as S3.
    unfold bind_here. try rewrite <- E1.
    eexists _, _, _, rest. split; [exact S3|]. split.
    { split; [exact G2|]. split; [reflexivity|]. split.
      { split; [|rewrite world_upd_cur; exact NS]. cbn. constructor; [|exact F'].
        destruct FM as (V & N0 & B0). split; [cbn; apply vars_match_set; exact V|split; [exact N0|exact B0]]. }
      split; [exact LB|]. exists top. split; [exact EV|exact RR]. }
    split; [unfold moved; destruct f; reflexivity|].
    split; [cbn; unfold k; rewrite app_length; cbn; lia|apply kept_all_refl].
Qed.

(* ENDSTATEMENT empties the region *)
Lemma end_vm s reg r c f rest below pre post : At s reg r c f rest below ->
  f_code f = pre ++ IEnd :: post -> f_pos f = length pre ->
  exists r' c', Steps r r' /\ At s RNone r' c' (set_pos f (S (f_pos f))) rest below /\ Fresh c' below.
Proof.
  intros (G & EF & M & LB & top & EV & RR) EC EP.
  assert (N : nth_error (f_code f) (f_pos f) = Some IEnd) by (rewrite EC, EP; apply nth_error_mid).
  set (c1 := set_frames c (set_pos f (S (f_pos f)) :: rest)).
  assert (EX : exec_instr IEnd r c1 = Ok (r, set_values c1 below)).
  { cbn [exec_instr]. unfold clear_values. cbn [c_frames c1 set_frames set_pos f_base c_values]. rewrite EV, app_length, <- LB.
    replace (length top + length below - length below) with (length top) by lia. rewrite skipn_app, skipn_all, Nat.sub_diag. reflexivity. }
  destruct (run_one r c f rest IEnd _ G EF N EX) as [S1 G1].
  { destruct G as (_ & _ & _ & _ & _ & _ & SU). exact SU. }
  exists (upd_cur r (set_values c1 below)), (set_values c1 below). split; [exact S1|]. split; [|nil_case]. split; [exact G1|]. split; [reflexivity|]. split.
  { destruct M as [F NS]. split; [|rewrite world_upd_cur; exact NS]. inversion F as [|sc f0 scs fs FM F' E1 E2]; subst. try rewrite <- E1. constructor; assumption. }
  split; [exact LB|]. exists []. split; reflexivity.
Qed.

Lemma compile_block_from_cons first st b : compile_block_from first (st :: b) = (if first then [] else [IEnd]) ++ compile_stmt st ++ compile_block_from false b.
Proof. reflexivity. Qed.

Theorem block_vm : forall s reg b reg' s', pblock s reg b reg' s' ->
  forall r c f rest below pre post, At s reg r c f rest below -> Fresh c below ->
    f_code f = pre ++ compile_block_from true b ++ post -> f_pos f = length pre ->
    exists r' c' f' rest', Steps r r' /\ At s' reg' r' c' f' rest' below /\
      moved f f' /\ f_pos f' = f_pos f + length (compile_block_from true b) /\ Forall2 kept rest rest'.
Proof.
  induction 1 as [s reg|s reg st reg1 s1 HS|s reg st reg1 s1 st2 rest0 reg' s' HS HB IH]; intros r c f rest below pre post A FR EC EP.
  - exists r, c, f, rest. split; [apply StepsRefl|]. split; [exact A|]. split; [destruct f; reflexivity|]. split; [cbn; lia|apply kept_all_refl].
  - cbn [compile_block_from app] in *. rewrite app_nil_r in *.
    exact (stmt_vm s reg st reg1 s1 HS r c f rest below pre post A FR EC EP).
  - rewrite compile_block_from_cons in EC. cbn [app] in EC.
    rewrite compile_block_from_cons in EC. cbn [app] in EC. rewrite <- app_assoc in EC. cbn [app] in EC.
    destruct (stmt_vm s reg st reg1 s1 HS r c f rest below pre _ A FR EC EP) as (r1 & c1 & f1 & rest1 & S1 & A1 & MV1 & P1 & K1).
    assert (EC1 : f_code f1 = (pre ++ compile_stmt st) ++ IEnd :: compile_stmt st2 ++ compile_block_from false rest0 ++ post).
    { rewrite <- MV1. cbn [f_code set_vars set_pos set_scope]. rewrite EC, <- !app_assoc. reflexivity. }
    assert (EP1 : f_pos f1 = length (pre ++ compile_stmt st)) by (rewrite app_length, P1, EP; reflexivity).
    destruct (end_vm s1 reg1 r1 c1 f1 rest1 below _ _ A1 EC1 EP1) as (r2 & c2 & S2 & A2 & FR2).
    set (f2 := set_pos f1 (S (f_pos f1))) in *.
    (* the remaining block, seen as a block that starts here *)
    assert (HB' : forall pre2 post2 r c f rest below, At s1 RNone r c f rest below -> Fresh c below ->
              f_code f = pre2 ++ (compile_stmt st2 ++ compile_block_from false rest0) ++ post2 -> f_pos f = length pre2 ->
              exists r' c' f' rest', Steps r r' /\ At s' reg' r' c' f' rest' below /\ moved f f' /\
                f_pos f' = f_pos f + length (compile_stmt st2 ++ compile_block_from false rest0) /\ Forall2 kept rest rest').
    { intros pre2 post2 r0 c0 f0 rest2 below0 A0 FR0 EC0 EP0. apply (IH r0 c0 f0 rest2 below0 pre2 post2 A0 FR0); [|exact EP0].
      rewrite compile_block_from_cons. cbn [app]. exact EC0. }
    destruct (HB' (pre ++ compile_stmt st ++ [IEnd]) post r2 c2 f2 rest1 below A2 FR2) as (r3 & c3 & f3 & rest3 & S3 & A3 & MV3 & P3 & K3).
    { cbn [f2 set_pos f_code]. rewrite EC1. rewrite <- !app_assoc. cbn [app]. reflexivity. }
    { cbn [f2 set_pos f_pos]. rewrite EP1, !app_length. cbn. lia. }
    exists r3, c3, f3, rest3. split; [eapply steps_trans; [exact S1|eapply steps_trans; [exact S2|exact S3]]|].
    split; [exact A3|]. split.
    { eapply moved_trans; [exact MV1|]. eapply moved_trans; [apply (moved_set_pos f1 (S (f_pos f1)))|exact MV3]. }
    split; [|eapply kept_all_trans; eassumption].
    rewrite P3. cbn [f2 set_pos f_pos]. rewrite P1. rewrite compile_block_from_cons. cbn [app]. rewrite compile_block_from_cons. cbn [app].
    rewrite !app_length. cbn [length]. rewrite !app_length. lia.
Qed.
